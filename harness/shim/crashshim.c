// Crash-point shim for engine K (LD_PRELOAD).
// Counts every *mutating* file-system call that targets a path under $RIPV_PREFIX and calls
// _exit(77) immediately BEFORE call number $RIPV_CRASH_AT (0-based) is performed. With
// $RIPV_TRACE set, appends one line per counted call ("<k> <op> <path>") to that file.
//
// Second use (engine S over system calls): a host program that finds `ripv_set_fs_callback` with
// dlsym installs a callback that is invoked BEFORE every file-system call on a path under
// $RIPV_PREFIX - the mutating ones above and, only in this mode, the observing ones too (open for
// reading, read, stat / statx / access). The host parks the calling thread there: every system
// call of the code under test becomes a scheduling point, independent of source-level hooks.
#define _GNU_SOURCE
#include <dlfcn.h>
#include <errno.h>
#include <fcntl.h>
#include <stdarg.h>
#include <stdio.h>
#include <stdlib.h>
#include <string.h>
#include <sys/stat.h>
#include <sys/types.h>
#include <sys/uio.h>
#include <unistd.h>

static const char *prefix = NULL;
static size_t prefix_len = 0;
static long crash_at = -1;
static long fail_at = -1; /* this call (a write) fails with ENOSPC instead of being performed */
static long counter = 0;
static int trace_fd = -1;
static int inited = 0;

static void (*sched_cb)(const char *op, const char *path) = NULL;
void ripv_set_fs_callback(void (*cb)(const char *, const char *)) { sched_cb = cb; }
#define SCHED(op, path) do { if (sched_cb) sched_cb((op), (path)); } while (0)

static ssize_t (*real_write)(int, const void *, size_t);
static int (*real_openat)(int, const char *, int, ...);

static void init(void) {
    if (inited) return;
    inited = 1;
    real_write = dlsym(RTLD_NEXT, "write");
    real_openat = dlsym(RTLD_NEXT, "openat");
    prefix = getenv("RIPV_PREFIX");
    if (prefix) prefix_len = strlen(prefix);
    const char *c = getenv("RIPV_CRASH_AT");
    if (c && *c) crash_at = atol(c);
    const char *f = getenv("RIPV_FAIL_AT");
    if (f && *f) fail_at = atol(f);
    const char *t = getenv("RIPV_TRACE");
    if (t && *t) trace_fd = real_openat(AT_FDCWD, t, O_WRONLY | O_CREAT | O_APPEND, 0644);
}

static int under_prefix(const char *path) {
    if (!prefix || !path) return 0;
    if (path[0] != '/') {
        char cwd[4096];
        if (!getcwd(cwd, sizeof cwd)) return 0;
        char full[8192];
        snprintf(full, sizeof full, "%s/%s", cwd, path);
        return strncmp(full, prefix, prefix_len) == 0;
    }
    return strncmp(path, prefix, prefix_len) == 0;
}

static int fd_under_prefix(int fd, char *out, size_t n) {
    char link[64];
    snprintf(link, sizeof link, "/proc/self/fd/%d", fd);
    ssize_t r = readlink(link, out, n - 1);
    if (r <= 0) return 0;
    out[r] = 0;
    return prefix && strncmp(out, prefix, prefix_len) == 0;
}

#include <sys/syscall.h>
static int raw_exists(const char *path) { return syscall(SYS_faccessat, AT_FDCWD, path, F_OK) == 0; }

static int hit(const char *op, const char *path) {
    SCHED(op, path);
    long k = __sync_fetch_and_add(&counter, 1);
    if (trace_fd >= 0) {
        char line[4400];
        int n = snprintf(line, sizeof line, "%ld %s %s\n", k, op, path ? path : "?");
        if (n > 0) real_write(trace_fd, line, (size_t)n);
    }
    if (crash_at >= 0 && k == crash_at) _exit(77);
    return fail_at >= 0 && k == fail_at;
}

ssize_t write(int fd, const void *buf, size_t count) {
    init();
    char p[4096];
    if (fd > 2 && fd != trace_fd && fd_under_prefix(fd, p, sizeof p) && hit("write", p)) { errno = ENOSPC; return -1; }
    return real_write(fd, buf, count);
}

ssize_t writev(int fd, const struct iovec *iov, int iovcnt) {
    init();
    static ssize_t (*real)(int, const struct iovec *, int);
    if (!real) real = dlsym(RTLD_NEXT, "writev");
    char p[4096];
    if (fd > 2 && fd_under_prefix(fd, p, sizeof p) && hit("writev", p)) { errno = ENOSPC; return -1; }
    return real(fd, iov, iovcnt);
}

ssize_t pwrite(int fd, const void *buf, size_t count, off_t off) {
    init();
    static ssize_t (*real)(int, const void *, size_t, off_t);
    if (!real) real = dlsym(RTLD_NEXT, "pwrite");
    char p[4096];
    if (fd_under_prefix(fd, p, sizeof p) && hit("pwrite", p)) { errno = ENOSPC; return -1; }
    return real(fd, buf, count, off);
}

ssize_t pwrite64(int fd, const void *buf, size_t count, off64_t off) {
    init();
    static ssize_t (*real)(int, const void *, size_t, off64_t);
    if (!real) real = dlsym(RTLD_NEXT, "pwrite64");
    char p[4096];
    if (fd_under_prefix(fd, p, sizeof p) && hit("pwrite64", p)) { errno = ENOSPC; return -1; }
    return real(fd, buf, count, off);
}

static int mutating_open(int flags) { return (flags & (O_CREAT | O_TRUNC)) != 0; }

#define OPEN_BODY(name, dirfd_expr, path, flags)                              \
    init();                                                                   \
    mode_t mode = 0;                                                          \
    if (flags & (O_CREAT | O_TMPFILE)) {                                      \
        va_list ap;                                                           \
        va_start(ap, flags);                                                  \
        mode = va_arg(ap, mode_t);                                            \
        va_end(ap);                                                           \
    }                                                                         \
    if (under_prefix(path)) {                                                 \
        int counted = 0;                                                      \
        if (mutating_open(flags)) {                                           \
            int exists = raw_exists(path);                                    \
            if (!exists || (flags & O_TRUNC)) { counted = 1; hit(exists ? name "(trunc)" : name "(create)", path); } \
        }                                                                     \
        if (!counted) SCHED(name "(existing)", path);                         \
    }

int open(const char *path, int flags, ...) {
    OPEN_BODY("open", AT_FDCWD, path, flags)
    return real_openat(AT_FDCWD, path, flags, mode);
}
int open64(const char *path, int flags, ...) {
    OPEN_BODY("open", AT_FDCWD, path, flags)
    return real_openat(AT_FDCWD, path, flags | O_LARGEFILE, mode);
}
int openat(int dirfd, const char *path, int flags, ...) {
    OPEN_BODY("openat", dirfd, path, flags)
    return real_openat(dirfd, path, flags, mode);
}
int openat64(int dirfd, const char *path, int flags, ...) {
    OPEN_BODY("openat", dirfd, path, flags)
    return real_openat(dirfd, path, flags | O_LARGEFILE, mode);
}
int creat(const char *path, mode_t mode) {
    init();
    if (under_prefix(path)) hit("creat", path);
    return real_openat(AT_FDCWD, path, O_CREAT | O_WRONLY | O_TRUNC, mode);
}

int rename(const char *a, const char *b) {
    init();
    static int (*real)(const char *, const char *);
    if (!real) real = dlsym(RTLD_NEXT, "rename");
    if (under_prefix(a) || under_prefix(b)) hit("rename", b);
    return real(a, b);
}
int renameat(int ad, const char *a, int bd, const char *b) {
    init();
    static int (*real)(int, const char *, int, const char *);
    if (!real) real = dlsym(RTLD_NEXT, "renameat");
    if (under_prefix(a) || under_prefix(b)) hit("renameat", b);
    return real(ad, a, bd, b);
}
int renameat2(int ad, const char *a, int bd, const char *b, unsigned int f) {
    init();
    static int (*real)(int, const char *, int, const char *, unsigned int);
    if (!real) real = dlsym(RTLD_NEXT, "renameat2");
    if (under_prefix(a) || under_prefix(b)) hit("renameat2", b);
    return real(ad, a, bd, b, f);
}
int unlink(const char *p) {
    init();
    static int (*real)(const char *);
    if (!real) real = dlsym(RTLD_NEXT, "unlink");
    if (under_prefix(p)) { if (raw_exists(p)) hit("unlink", p); else SCHED("unlink(missing)", p); }
    return real(p);
}
int unlinkat(int d, const char *p, int f) {
    init();
    static int (*real)(int, const char *, int);
    if (!real) real = dlsym(RTLD_NEXT, "unlinkat");
    if (under_prefix(p)) { if (raw_exists(p)) hit("unlinkat", p); else SCHED("unlinkat(missing)", p); }
    return real(d, p, f);
}
int rmdir(const char *p) {
    init();
    static int (*real)(const char *);
    if (!real) real = dlsym(RTLD_NEXT, "rmdir");
    if (under_prefix(p)) hit("rmdir", p);
    return real(p);
}
int mkdir(const char *p, mode_t m) {
    init();
    static int (*real)(const char *, mode_t);
    if (!real) real = dlsym(RTLD_NEXT, "mkdir");
    if (under_prefix(p)) { if (!raw_exists(p)) hit("mkdir", p); else SCHED("mkdir(existing)", p); }
    return real(p, m);
}
int mkdirat(int d, const char *p, mode_t m) {
    init();
    static int (*real)(int, const char *, mode_t);
    if (!real) real = dlsym(RTLD_NEXT, "mkdirat");
    if (under_prefix(p)) { if (!raw_exists(p)) hit("mkdirat", p); else SCHED("mkdirat(existing)", p); }
    return real(d, p, m);
}
int ftruncate(int fd, off_t len) {
    init();
    static int (*real)(int, off_t);
    if (!real) real = dlsym(RTLD_NEXT, "ftruncate");
    char p[4096];
    if (fd_under_prefix(fd, p, sizeof p)) hit("ftruncate", p);
    return real(fd, len);
}
int ftruncate64(int fd, off64_t len) {
    init();
    static int (*real)(int, off64_t);
    if (!real) real = dlsym(RTLD_NEXT, "ftruncate64");
    char p[4096];
    if (fd_under_prefix(fd, p, sizeof p)) hit("ftruncate", p);
    return real(fd, len);
}
int link(const char *a, const char *b) {
    init();
    static int (*real)(const char *, const char *);
    if (!real) real = dlsym(RTLD_NEXT, "link");
    if (under_prefix(b)) hit("link", b);
    return real(a, b);
}
int symlink(const char *a, const char *b) {
    init();
    static int (*real)(const char *, const char *);
    if (!real) real = dlsym(RTLD_NEXT, "symlink");
    if (under_prefix(b)) hit("symlink", b);
    return real(a, b);
}

int linkat(int ad, const char *a, int bd, const char *b, int f) {
    init();
    static int (*real)(int, const char *, int, const char *, int);
    if (!real) real = dlsym(RTLD_NEXT, "linkat");
    if (under_prefix(b)) hit("linkat", b);
    return real(ad, a, bd, b, f);
}

// ---- observing calls: scheduling points only (never counted, never crash points) ----------
ssize_t read(int fd, void *buf, size_t n) {
    static ssize_t (*real)(int, void *, size_t);
    if (!real) real = dlsym(RTLD_NEXT, "read");
    if (sched_cb && fd > 2) {
        init();
        char p[4096];
        if (fd_under_prefix(fd, p, sizeof p)) sched_cb("read", p);
    }
    return real(fd, buf, n);
}
#define STAT_POINT(path) do { if (sched_cb && (path) && (path)[0]) { init(); if (under_prefix(path)) sched_cb("stat", (path)); } } while (0)
struct statx;
int statx(int dirfd, const char *path, int flags, unsigned int mask, struct statx *buf) {
    static int (*real)(int, const char *, int, unsigned int, struct statx *);
    if (!real) real = dlsym(RTLD_NEXT, "statx");
    STAT_POINT(path);
    return real(dirfd, path, flags, mask, buf);
}
int stat(const char *path, struct stat *st) {
    static int (*real)(const char *, struct stat *);
    if (!real) real = dlsym(RTLD_NEXT, "stat");
    STAT_POINT(path);
    return real(path, st);
}
int lstat(const char *path, struct stat *st) {
    static int (*real)(const char *, struct stat *);
    if (!real) real = dlsym(RTLD_NEXT, "lstat");
    STAT_POINT(path);
    return real(path, st);
}
int stat64(const char *path, struct stat64 *st) {
    static int (*real)(const char *, struct stat64 *);
    if (!real) real = dlsym(RTLD_NEXT, "stat64");
    STAT_POINT(path);
    return real(path, st);
}
int lstat64(const char *path, struct stat64 *st) {
    static int (*real)(const char *, struct stat64 *);
    if (!real) real = dlsym(RTLD_NEXT, "lstat64");
    STAT_POINT(path);
    return real(path, st);
}
int fstatat(int d, const char *path, struct stat *st, int f) {
    static int (*real)(int, const char *, struct stat *, int);
    if (!real) real = dlsym(RTLD_NEXT, "fstatat");
    STAT_POINT(path);
    return real(d, path, st, f);
}
int fstatat64(int d, const char *path, struct stat64 *st, int f) {
    static int (*real)(int, const char *, struct stat64 *, int);
    if (!real) real = dlsym(RTLD_NEXT, "fstatat64");
    STAT_POINT(path);
    return real(d, path, st, f);
}
int access(const char *path, int mode) {
    static int (*real)(const char *, int);
    if (!real) real = dlsym(RTLD_NEXT, "access");
    STAT_POINT(path);
    return real(path, mode);
}
int faccessat(int d, const char *path, int mode, int f) {
    static int (*real)(int, const char *, int, int);
    if (!real) real = dlsym(RTLD_NEXT, "faccessat");
    STAT_POINT(path);
    return real(d, path, mode, f);
}
