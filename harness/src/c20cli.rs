//! C20, second part — the headless renderers of rip-cli (`rip run --view raw|output|metrics`).
//!
//! rip-cli is a bin crate, so its renderers are driven through the REAL binary: the harness serves
//! the three endpoints `rip run --server` talks to (ensure thread, post message, session event
//! stream) and plays an arbitrary frame sequence as the session's SSE stream. Bounded exhaustive
//! enumeration of frame sequences x views x timestamp patterns; every run is one process.
//! Oracle: the process ends normally (no panic, no error exit), the same frames give the same
//! output (each case runs twice), and the raw view prints exactly the frames it was sent up to
//! and including the first session end.

use std::process::{Command, Stdio};
use std::sync::Arc;
use std::time::{Duration, Instant};

use axum::extract::{Path, State};
use axum::response::IntoResponse;
use axum::routing::{get, post};
use axum::{Json, Router};
use rayon::prelude::*;
use serde_json::{json, Value};

use crate::common::{Report, Tier, VERIF_DIR};

#[derive(Clone)]
struct Srv {
    /// case index -> SSE payloads
    cases: Arc<Vec<Vec<String>>>,
}

async fn ensure() -> impl IntoResponse {
    Json(json!({"thread_id": "t"}))
}

async fn post_message(Path(_id): Path<String>, Json(body): Json<Value>) -> impl IntoResponse {
    let content = body["content"].as_str().unwrap_or("0").to_string();
    Json(json!({"thread_id": "t", "message_id": "m", "session_id": content}))
}

async fn events(Path(sid): Path<String>, State(srv): State<Srv>) -> impl IntoResponse {
    let idx: usize = sid.parse().unwrap_or(usize::MAX);
    let mut body = String::new();
    if let Some(case) = srv.cases.get(idx) {
        for p in case {
            body.push_str("data: ");
            body.push_str(p);
            body.push_str("\n\n");
        }
    }
    ([("content-type", "text/event-stream"), ("cache-control", "no-cache")], body)
}

fn with_timestamps(payloads: &[Value], pattern: u8) -> Vec<String> {
    payloads
        .iter()
        .enumerate()
        .map(|(i, p)| {
            let mut v = p.clone();
            let ts: u64 = match pattern {
                0 => 1_000 + 10 * i as u64,                 // increasing
                1 => 1_000_000 - 1_000 * i as u64,          // decreasing
                _ => if i % 2 == 0 { u64::MAX } else { 0 }, // extremes
            };
            v["timestamp_ms"] = json!(ts);
            v.to_string()
        })
        .collect()
}

struct Outcome {
    ok: bool,
    code: Option<i32>,
    stdout: Vec<u8>,
    stderr: String,
    timed_out: bool,
}

fn run_rip(bin: &str, url: &str, idx: usize, view: &str) -> Outcome {
    let mut child = match Command::new(bin)
        .args(["run", &idx.to_string(), "--server", url, "--view", view])
        .env_clear()
        .env("PATH", std::env::var("PATH").unwrap_or_default())
        .env("HOME", "/nonexistent-home")
        .env("SSL_CERT_FILE", "/dev/null")
        .env("SSL_CERT_DIR", "/nonexistent")
        .env("NO_PROXY", "127.0.0.1")
        .stdin(Stdio::null())
        .stdout(Stdio::piped())
        .stderr(Stdio::piped())
        .spawn()
    {
        Ok(c) => c,
        Err(e) => crate::common::machinery_failure(&format!("cannot start {bin}: {e} (the C20 entry of ./vcheck builds it)")),
    };
    let start = Instant::now();
    let mut timed_out = false;
    loop {
        match child.try_wait() {
            Ok(Some(_)) => break,
            Ok(None) => {
                if start.elapsed() > Duration::from_secs(20) {
                    let _ = child.kill();
                    timed_out = true;
                    break;
                }
                std::thread::sleep(Duration::from_millis(2));
            }
            Err(_) => break,
        }
    }
    let out = child.wait_with_output().unwrap_or_else(|e| crate::common::machinery_failure(&format!("wait rip: {e}")));
    Outcome { ok: out.status.success(), code: out.status.code(), stdout: out.stdout, stderr: String::from_utf8_lossy(&out.stderr).to_string(), timed_out }
}

pub fn run(report: &Report, core: &[Value], full: &[Value], names_core: &[String], names_full: &[String], tier: Tier) {
    let bin = format!("{VERIF_DIR}/target/debug/rip");
    if !std::path::Path::new(&bin).exists() {
        crate::common::machinery_failure(&format!("{bin} is missing: ./vcheck C20 builds it (cargo build -p rip-cli)"));
    }
    // cases: every sequence of <=1 frame of the full alphabet and every sequence of 2 frames of the
    // core kinds at seq 0 (thorough: 2 of the full alphabet); the metrics view under three
    // timestamp patterns
    let mut seqs: Vec<(Vec<Value>, Vec<String>)> = vec![(vec![], vec![])];
    for (i, f) in full.iter().enumerate() {
        seqs.push((vec![f.clone()], vec![names_full[i].clone()]));
    }
    let (two, two_names): (&[Value], &[String]) = if tier == Tier::Thorough { (full, names_full) } else { (core, names_core) };
    for (i, a) in two.iter().enumerate() {
        for (j, b) in two.iter().enumerate() {
            seqs.push((vec![a.clone(), b.clone()], vec![two_names[i].clone(), two_names[j].clone()]));
        }
    }
    let mut cases: Vec<Vec<String>> = Vec::new();
    let mut meta: Vec<(usize, u8)> = Vec::new(); // (sequence index, timestamp pattern)
    for (si, (payloads, _)) in seqs.iter().enumerate() {
        for pattern in 0..3u8 {
            if payloads.is_empty() && pattern > 0 {
                continue;
            }
            cases.push(with_timestamps(payloads, pattern));
            meta.push((si, pattern));
        }
    }
    let srv = Srv { cases: Arc::new(cases.clone()) };
    let rt = tokio::runtime::Builder::new_multi_thread().worker_threads(4).enable_all().build().expect("rt");
    let listener = rt.block_on(tokio::net::TcpListener::bind("127.0.0.1:0")).expect("bind");
    let addr = listener.local_addr().expect("addr");
    let app = Router::new().route("/threads/ensure", post(ensure)).route("/threads/{id}/messages", post(post_message)).route("/sessions/{id}/events", get(events)).with_state(srv);
    rt.spawn(async move {
        let _ = axum::serve(listener, app).await;
    });
    let url = format!("http://{addr}");
    report.set_extra("headless_cases", json!(cases.len()));
    report.sample(json!({"harness": "c20.headless", "frames": seqs.get(5).map(|s| s.1.clone()), "views": ["raw", "output", "metrics"], "timestamps": ["increasing", "decreasing", "extremes"]}));
    let pool = rayon::ThreadPoolBuilder::new().num_threads(16).build().expect("pool");
    pool.install(|| {
        (0..cases.len()).into_par_iter().for_each(|ci| {
            if report.over_cap() {
                return;
            }
            let (si, pattern) = meta[ci];
            for view in ["raw", "output", "metrics"] {
                // timestamps only feed the metrics view: the other two get the increasing pattern
                if pattern > 0 && view != "metrics" {
                    continue;
                }
                let pattern_name = ["increasing", "decreasing", "extremes"][pattern as usize];
                let case = || json!({"harness": "c20.headless", "frames": seqs[si].1, "timestamp_pattern": pattern_name, "view": view, "payloads": cases[ci]});
                let a = run_rip(&bin, &url, ci, view);
                report.eval(Some(&("headless", ci, view)));
                report.count("headless_runs", 1);
                if a.timed_out {
                    report.violation(&format!("C20:headless:hang:{view}"), case(), "the renderer did not finish within 20 s after the stream ended");
                    continue;
                }
                if a.stderr.contains("panicked") {
                    let line = a.stderr.lines().find(|l| l.contains("panicked")).unwrap_or("").to_string();
                    let next = a.stderr.lines().skip_while(|l| !l.contains("panicked")).nth(1).unwrap_or("").to_string();
                    report.violation(&format!("C20:headless:panic:{view}"), case(), &format!("rip run --view {view} panicked: {line} {next}"));
                    continue;
                }
                if !a.ok {
                    report.violation(&format!("C20:headless:error_exit:{view}"), case(), &format!("rip run --view {view} exited with {:?} on well-formed frames: {}", a.code, a.stderr.chars().take(300).collect::<String>()));
                    continue;
                }
                let b = run_rip(&bin, &url, ci, view);
                if a.stdout != b.stdout {
                    report.violation(&format!("C20:headless:nondeterministic:{view}"), case(), "the same frames rendered differently in two runs");
                    continue;
                }
                if view == "raw" {
                    // exactly the frames sent, up to and including the first session end
                    let mut want = String::new();
                    for p in &cases[ci] {
                        want.push_str(p);
                        want.push('\n');
                        if p.contains("\"type\":\"session_ended\"") {
                            break;
                        }
                    }
                    if String::from_utf8_lossy(&a.stdout) != want {
                        report.violation("C20:headless:raw_view_differs", case(), &format!("raw view printed {:?}", String::from_utf8_lossy(&a.stdout).chars().take(300).collect::<String>()));
                    }
                }
            }
        });
    });
    drop(rt);
}
