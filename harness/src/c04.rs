//! C04 — caches are transparent: losing or corrupting them never changes an answer; every query
//! terminates.
//!
//! Bounded exhaustive enumeration of histories x cache faults x read capabilities with a
//! differential oracle and no expected values: the answer of a fresh authority on the store with
//! the fault applied must equal the answer of a fresh authority on the same store with the cache
//! directory removed (which is log replay by construction). Worker subprocesses run under a
//! watchdog: a query that does not come back is reported as non-termination.

use std::io::{BufRead, BufReader};
use std::path::{Path, PathBuf};
use std::process::{Command, Stdio};
use std::sync::mpsc;
use std::time::Duration;

use ripd::{CompactionAutoV1Request, CompactionCheckpointCumulativeV1Request, ContinuityRunLink};
use serde_json::{json, Value};

use crate::common::{machinery_failure, Opts, Report, Tier};
use crate::fixture::{new_rt, Fx};

const WATCHDOG_S: u64 = 25;

#[derive(Clone, Debug, PartialEq, Eq, Hash)]
enum HOp {
    Msg,
    Run,
    Side,
    Cursor(u8),
    SelPair,
    Ckpt,
    Auto,
    Fill(u32),
    BigMsg(u32), // KiB
    /// a frame on ANOTHER thread (first use: branch off the thread under test, which leaves the
    /// parent untouched; later: a message on that child): the log then ends with a foreign frame
    Other,
}

fn op_name(op: &HOp) -> String {
    match op {
        HOp::Msg => "msg".into(),
        HOp::Run => "run".into(),
        HOp::Side => "side".into(),
        HOp::Cursor(k) => format!("cursor{k}"),
        HOp::SelPair => "sel".into(),
        HOp::Ckpt => "ckpt".into(),
        HOp::Auto => "auto".into(),
        HOp::Fill(n) => format!("fill{n}"),
        HOp::BigMsg(k) => format!("big{k}k"),
        HOp::Other => "other".into(),
    }
}

fn parse_op(s: &str) -> HOp {
    match s {
        "msg" => HOp::Msg,
        "run" => HOp::Run,
        "side" => HOp::Side,
        "cursor0" => HOp::Cursor(0),
        "cursor1" => HOp::Cursor(1),
        "sel" => HOp::SelPair,
        "ckpt" => HOp::Ckpt,
        "auto" => HOp::Auto,
        "other" => HOp::Other,
        x if x.starts_with("fill") => HOp::Fill(x[4..].parse().unwrap_or(10)),
        x if x.starts_with("big") => HOp::BigMsg(x[3..x.len() - 1].parse().unwrap_or(9)),
        other => machinery_failure(&format!("unknown op {other}")),
    }
}

struct Tracker {
    thread: String,
    other: Option<String>,
    last_msg: Option<String>,
    last_sess: String,
    n: u64,
}

fn apply(fx: &Fx, t: &mut Tracker, op: &HOp) -> Result<(), String> {
    let store = fx.store();
    t.n += 1;
    match op {
        HOp::Msg => {
            t.last_msg = Some(store.append_message(&t.thread, "u".into(), "o".into(), format!("m{}", t.n))?);
        }
        HOp::BigMsg(kib) => {
            t.last_msg = Some(store.append_message(&t.thread, "u".into(), "o".into(), "y".repeat(*kib as usize * 1024))?);
        }
        HOp::Run => {
            let (m, s) = fx.answered_run(&t.thread, &format!("r{}", t.n))?;
            t.last_msg = Some(m);
            t.last_sess = s;
        }
        HOp::Side => {
            let m = t.last_msg.clone().unwrap_or_else(|| "none".into());
            fx.side_effect(&t.thread, &m, &t.last_sess, t.n)?;
        }
        HOp::Cursor(k) => {
            store.verif_append_provider_cursor_updated(&t.thread, "openresponses", Some("http://e".into()), Some(format!("model{k}")), Some(json!({"previous_response_id": format!("r{}", t.n)})), "set", None)?;
        }
        HOp::SelPair => {
            let Some(m) = t.last_msg.clone() else { return Ok(()) };
            store.verif_append_context_selection_decided(&t.thread, &t.last_sess, &m, "recent_messages_v1", vec![], Some(json!({"n": t.n})))?;
            store.verif_append_context_compiled(&t.thread, &t.last_sess, &"0".repeat(64), "recent_messages_v1", 1, Some(m))?;
        }
        HOp::Ckpt => {
            let Some(m) = t.last_msg.clone() else { return Ok(()) };
            store.compaction_checkpoint_cumulative_v1(
                &t.thread,
                CompactionCheckpointCumulativeV1Request { summary_markdown: Some(format!("s{}", t.n)), summary_artifact_id: None, to_message_id: Some(m), to_seq: None, stride_messages: None, actor_id: "u".into(), origin: "o".into() },
            )?;
        }
        HOp::Auto => {
            store.compaction_auto_v1(&t.thread, CompactionAutoV1Request { stride_messages: Some(2), max_new_checkpoints: Some(2), dry_run: Some(false), actor_id: "u".into(), origin: "o".into() })?;
        }
        HOp::Other => match t.other.clone() {
            None => {
                let (child, _, _) = store.branch(&t.thread, Some("other".into()), None, None, "u".into(), "o".into())?;
                t.other = Some(child);
            }
            Some(o) => {
                store.append_message(&o, "u".into(), "o".into(), format!("o{}", t.n))?;
            }
        },
        HOp::Fill(n) => {
            let m = t.last_msg.clone().unwrap_or_else(|| "none".into());
            for i in 0..*n {
                fx.side_effect(&t.thread, &m, &t.last_sess, i as u64)?;
            }
        }
    }
    Ok(())
}

/// All answers of a store for one thread: read capabilities + the compiled context for every
/// message as anchor (ids minted by the compile projected away).
pub fn all_answers(fx: &Fx, thread: &str, light: bool, max_anchors: usize) -> Vec<(String, Value)> {
    all_answers_ordered(fx, thread, light, max_anchors, false)
}

/// `replay_last`: ask the cache-backed queries and the compiled contexts BEFORE the replay (a
/// replay rebuilds unusable caches and would hide what the fast paths serve from them). The
/// result is in the same canonical order either way.
pub fn all_answers_ordered(fx: &Fx, thread: &str, light: bool, max_anchors: usize, replay_last: bool) -> Vec<(String, Value)> {
    all_answers_full(fx, thread, light, max_anchors, replay_last, false)
}

/// The truth side of the differentials: the cache directory is removed before EVERY query, so
/// each answer is computed from the log (a query may rebuild caches; the next one must not use them).
pub fn truth_answers(fx: &Fx, thread: &str, light: bool, max_anchors: usize) -> Vec<(String, Value)> {
    all_answers_full(fx, thread, light, max_anchors, false, true)
}

thread_local! {
    /// set by the C04 worker: called before every single query so that the watchdog measures one
    /// query, not a whole list (the cache-less truth side rebuilds the caches for each of them)
    static TICK: std::cell::Cell<Option<fn()>> = const { std::cell::Cell::new(None) };
}

fn all_answers_full(fx: &Fx, thread: &str, light: bool, max_anchors: usize, replay_last: bool, cacheless: bool) -> Vec<(String, Value)> {
    let store = fx.store();
    let pre = || {
        if let Some(t) = TICK.with(|t| t.get()) {
            t();
        }
        if cacheless {
            fx.drop_caches();
        }
    };
    let mut out = Vec::new();
    if !replay_last {
        pre();
        out.push(crate::queries::replay_answer(&store, thread));
    }
    out.extend(crate::queries::read_answers_without_replay_pre(&store, thread, light, &pre));
    let msgs: Vec<String> = fx
        .truth(rip_kernel::StreamKind::Continuity, thread)
        .iter()
        .filter(|e| crate::fixture::is_message(e))
        .map(|e| e.id.clone())
        .collect();
    let picks: Vec<usize> = if msgs.len() <= max_anchors {
        (0..msgs.len()).collect()
    } else {
        let mut p = vec![0, msgs.len() / 2, msgs.len() - 1];
        p.dedup();
        p
    };
    for i in picks {
        pre();
        let link = ContinuityRunLink { continuity_id: thread.to_string(), message_id: msgs[i].clone(), actor_id: "u".into(), origin: "o".into() };
        let v = match fx.engine.verif_compile_context(&link, "run-x") {
            Ok(mut v) => {
                if let Some(o) = v.as_object_mut() {
                    o.remove("bundle_artifact_id");
                }
                json!({"ok": v})
            }
            Err(e) => json!({"err": e}),
        };
        out.push((format!("compiled_context(anchor=message#{i})"), v));
    }
    if replay_last {
        pre();
        out.insert(0, crate::queries::replay_answer(&store, thread));
    }
    out
}

/// The read part of the capabilities that also write: the rotation target of
/// `provider_cursor_rotate_v1` and the cut that branch / handoff resolve. They append (branch and
/// handoff to a NEW thread, a successful rotation to this one), so they run on a store of their
/// own, the only rotation that can append last. Minted ids are replaced by presence flags.
fn resolution_answers(fx: &Fx, thread: &str, cacheless: bool) -> Vec<(String, Value)> {
    let store = fx.store();
    let pre = || {
        if let Some(t) = TICK.with(|t| t.get()) {
            t();
        }
        if cacheless {
            fx.drop_caches();
        }
    };
    let events = fx.truth(rip_kernel::StreamKind::Continuity, thread);
    let msgs: Vec<String> = events.iter().filter(|e| crate::fixture::is_message(e)).map(|e| e.id.clone()).collect();
    let cut = |r: Result<(String, u64, Option<String>), String>| match r {
        Ok((_child, seq, mid)) => json!({"ok": {"cut_seq": seq, "cut_message_id": mid}}),
        Err(e) => json!({"err": e}),
    };
    let rot = |r: Result<ripd::ProviderCursorRotateV1Response, String>| match r {
        Ok(r) => json!({"ok": {"rotated": r.rotated, "provider": r.provider, "endpoint": r.endpoint, "model": r.model, "cursor_event": r.cursor_event_id.is_some()}}),
        Err(e) => json!({"err": e}),
    };
    let req = |provider: Option<&str>| ripd::ProviderCursorRotateV1Request { provider: provider.map(|s| s.to_string()), endpoint: None, model: None, reason: Some("r".into()), actor_id: "u".into(), origin: "o".into() };
    let mut out: Vec<(String, Value)> = Vec::new();
    pre();
    out.push(("rotation_target(no_such_provider)".into(), rot(store.provider_cursor_rotate_v1(thread, req(Some("no-such-provider"))))));
    pre();
    out.push(("branch_cut(head)".into(), cut(store.branch(thread, None, None, None, "u".into(), "o".into()))));
    if let Some(first) = msgs.first() {
        pre();
        out.push(("branch_cut(first_message)".into(), cut(store.branch(thread, None, Some(first.clone()), None, "u".into(), "o".into()))));
        pre();
        out.push(("handoff_cut(first_message)".into(), cut(store.handoff(thread, None, (Some("s".into()), None), Some(first.clone()), None, ("u".into(), "o".into())))));
    }
    if let Some(last) = msgs.last() {
        pre();
        out.push(("branch_cut(last_message)".into(), cut(store.branch(thread, None, Some(last.clone()), None, "u".into(), "o".into()))));
    }
    let head = events.last().map(|e| e.seq).unwrap_or(0);
    for (label, seq) in [("mid", head / 2), ("head", head), ("beyond_head", head + 1)] {
        pre();
        out.push((format!("branch_cut(from_seq={label})"), cut(store.branch(thread, None, None, Some(seq), "u".into(), "o".into()))));
    }
    pre();
    out.push(("handoff_cut(head)".into(), cut(store.handoff(thread, None, (Some("s".into()), None), None, None, ("u".into(), "o".into())))));
    pre();
    out.push(("rotation_target(any)".into(), rot(store.provider_cursor_rotate_v1(thread, req(None)))));
    out
}

#[derive(Clone, Debug)]
enum Fault {
    Delete,
    Truncate0,
    Truncate1,
    TruncateMidLast,
    TruncateLastLine,
    TruncateHalf,
    /// the file without its FIRST line (a well-formed suffix: what a front rotation would leave)
    DropFirstLine,
    Garbage,
    Rollback(usize), // to the content after op j
}

fn fault_name(f: &Fault) -> String {
    match f {
        Fault::Delete => "delete".into(),
        Fault::Truncate0 => "truncate_to_0".into(),
        Fault::Truncate1 => "truncate_to_1".into(),
        Fault::TruncateMidLast => "truncate_mid_last_record".into(),
        Fault::TruncateLastLine => "drop_last_line".into(),
        Fault::TruncateHalf => "truncate_half".into(),
        Fault::DropFirstLine => "drop_first_line".into(),
        Fault::Garbage => "garbage_same_length".into(),
        Fault::Rollback(j) => format!("rollback_to_after_op{j}"),
    }
}

fn family(name: &str) -> String {
    // "<uuid>.mr.v1.jsonl" -> ".mr.v1.jsonl"
    match name.find('.') {
        Some(i) => name[i..].to_string(),
        None => name.to_string(),
    }
}

fn apply_fault(path: &Path, f: &Fault, snapshots: &[std::collections::BTreeMap<String, Vec<u8>>]) -> bool {
    let Ok(bytes) = std::fs::read(path) else { return false };
    let name = path.file_name().unwrap().to_string_lossy().to_string();
    let new: Option<Vec<u8>> = match f {
        Fault::Delete => {
            let _ = std::fs::remove_file(path);
            return true;
        }
        Fault::Truncate0 => Some(vec![]),
        Fault::Truncate1 => Some(bytes[..1.min(bytes.len())].to_vec()),
        Fault::TruncateMidLast => {
            if bytes.len() < 8 {
                return false;
            }
            Some(bytes[..bytes.len() - 5].to_vec())
        }
        Fault::TruncateLastLine => {
            if !name.ends_with(".jsonl") {
                return false;
            }
            let body = &bytes[..bytes.len().saturating_sub(1)];
            match body.iter().rposition(|b| *b == b'\n') {
                Some(i) => Some(bytes[..=i].to_vec()),
                None => return false,
            }
        }
        Fault::TruncateHalf => Some(bytes[..bytes.len() / 2].to_vec()),
        Fault::DropFirstLine => {
            if !name.ends_with(".jsonl") {
                return false;
            }
            match bytes.iter().position(|b| *b == b'\n') {
                Some(i) if i + 1 < bytes.len() => Some(bytes[i + 1..].to_vec()),
                _ => return false,
            }
        }
        Fault::Garbage => Some(bytes.iter().enumerate().map(|(i, _)| b"#garbage\n"[i % 9]).collect()),
        Fault::Rollback(j) => match snapshots.get(*j).and_then(|s| s.get(&name)) {
            Some(old) if *old != bytes => Some(old.clone()),
            _ => return false,
        },
    };
    match new {
        Some(n) => {
            if n == bytes {
                return false;
            }
            std::fs::write(path, n).is_ok()
        }
        None => false,
    }
}

fn cache_snapshot(fx: &Fx, thread: &str) -> std::collections::BTreeMap<String, Vec<u8>> {
    let mut m = std::collections::BTreeMap::new();
    for p in crate::fixture::cache_files(&fx.cache_dir()) {
        let name = p.file_name().unwrap().to_string_lossy().to_string();
        if name.starts_with(thread) {
            if let Ok(b) = std::fs::read(&p) {
                m.insert(name, b);
            }
        }
    }
    m
}

thread_local! {
    static LAST_BEGIN: std::cell::RefCell<Value> = const { std::cell::RefCell::new(Value::Null) };
}

/// Re-announces the current step (one line per query keeps the watchdog per query).
fn tick() {
    let v = LAST_BEGIN.with(|l| l.borrow().clone());
    if !v.is_null() {
        println!("{v}");
        use std::io::Write;
        let _ = std::io::stdout().flush();
    }
}

fn announce(v: Value) {
    if v["t"] == "begin" {
        LAST_BEGIN.with(|l| *l.borrow_mut() = v.clone());
    }
    println!("{v}");
    use std::io::Write;
    let _ = std::io::stdout().flush();
}

/// Reports every capability whose answer differs from the truth and returns the differing query
/// kinds. `attributed` (fault pairs only): the kinds that already differ under one of the pair's
/// faults alone -- those are the single-fault result again and are counted, not reported; a kind
/// that differs ONLY under the combination is reported under its own `pair_only` signature.
fn compare(report: &Report, hist: &[HOp], fault_desc: &Value, phase: &str, tail: &str, found: &[(String, Value)], truth: &[(String, Value)]) -> std::collections::BTreeSet<String> {
    compare_attr(report, hist, fault_desc, phase, tail, found, truth, None)
}

#[allow(clippy::too_many_arguments)]
fn compare_attr(
    report: &Report,
    hist: &[HOp],
    fault_desc: &Value,
    phase: &str,
    tail: &str,
    found: &[(String, Value)],
    truth: &[(String, Value)],
    attributed: Option<&std::collections::BTreeSet<String>>,
) -> std::collections::BTreeSet<String> {
    let mut seen = std::collections::BTreeSet::new();
    let mut kinds = std::collections::BTreeSet::new();
    for ((name, a), (_, b)) in found.iter().zip(truth.iter()) {
        if a != b {
            let q = name.split('(').next().unwrap_or(name).to_string();
            kinds.insert(q.clone());
            if let Some(att) = attributed {
                if att.contains(&q) {
                    report.count("pair_differences_already_present_under_one_fault_alone", 1);
                    continue;
                }
                let fam = fault_desc["file"].as_str().unwrap_or("none").to_string();
                let fault = fault_desc["fault"].as_str().unwrap_or("none").to_string();
                let sig = format!("C04:pair_only:{q}:{fam}:{fault}:{tail}:{phase}");
                if seen.insert(sig.clone()) {
                    report.violation(
                        &sig,
                        json!({"engine": "H-histories", "harness": "c04.faults", "history": hist.iter().map(op_name).collect::<Vec<_>>(), "fault": fault_desc, "phase": phase, "query": name, "tail": tail}),
                        &format!("{name} is right under each fault alone and wrong under both: with the faults = {} ; with the caches removed = {}", crate::common::compact(a, 400), crate::common::compact(b, 400)),
                    );
                }
                continue;
            }
            let fam = fault_desc["file"].as_str().unwrap_or("none").to_string();
            let fault = fault_desc["fault"].as_str().unwrap_or("none").to_string();
            let class = if a.get("err").is_some() && b.get("ok").is_some() { "error_instead_of_answer" } else { "wrong_answer" };
            // one report per (query kind) and case: every differing capability is attributed
            let sig = format!("C04:{class}:{q}:{fam}:{}:{tail}:{phase}", fault.split("_op").next().unwrap_or(&fault));
            if !seen.insert(sig.clone()) {
                continue;
            }
            report.violation(
                &sig,
                json!({"engine": "H-histories", "harness": "c04.faults", "history": hist.iter().map(op_name).collect::<Vec<_>>(), "fault": fault_desc, "phase": phase, "query": name, "tail": tail}),
                &format!("{name}: with the fault = {} ; with the caches removed = {}", crate::common::compact(a, 400), crate::common::compact(b, 400)),
            );
        }
    }
    kinds
}

/// What the open-time recovery can see: the kind of the thread's last frame, and whether the
/// log's last continuity frame belongs to another thread (then recovery does not look at this one).
fn tail_kind(fx: &Fx, thread: &str, hist: &[HOp]) -> String {
    let events = fx.truth(rip_kernel::StreamKind::Continuity, thread);
    let k = match events.last().map(|e| &e.kind) {
        Some(rip_kernel::EventKind::ContinuityMessageAppended { .. }) => "message",
        Some(rip_kernel::EventKind::ContinuityRunEnded { .. }) => "run_ended",
        Some(rip_kernel::EventKind::ContinuityCompactionCheckpointCreated { .. }) => "checkpoint",
        _ => "other",
    };
    let _ = hist;
    let foreign = fx
        .truth_all()
        .ok()
        .and_then(|all| all.iter().rev().find(|e| e.stream_kind() == rip_kernel::StreamKind::Continuity).map(|e| e.stream_id() != thread))
        .unwrap_or(false);
    format!("tail={k}{}", if foreign { "+foreign_last" } else { "" })
}

fn check_history(report: &Report, rt: &std::sync::Arc<tokio::runtime::Runtime>, hist: &[HOp], pairs: bool, light: bool) {
    let hist_names: Vec<String> = hist.iter().map(op_name).collect();
    announce(json!({"t": "begin", "what": "build", "history": hist_names}));
    let fx = Fx::new(rt.clone());
    let thread = fx.store().ensure_default().expect("thread");
    let mut t = Tracker { thread: thread.clone(), other: None, last_msg: None, last_sess: "sess-none".into(), n: 0 };
    let mut snapshots = Vec::new();
    for op in hist {
        if let Err(e) = apply(&fx, &mut t, op) {
            report.info(format!("history {hist_names:?}: op {} failed: {e}", op_name(op)));
        }
        snapshots.push(cache_snapshot(&fx, &thread));
    }
    let tail = tail_kind(&fx, &thread, hist);
    let heavy = is_heavy(hist);
    let max_anchors = if heavy { 3 } else { 6 };
    // truth: same store, caches removed, fresh authority
    announce(json!({"t": "begin", "what": "truth", "history": hist_names}));
    let truth_fx = fx.copy(false);
    let truth = truth_answers(&truth_fx, &thread, light, max_anchors);
    drop(truth_fx);
    // no fault: warm authority and restarted authority
    announce(json!({"t": "begin", "what": "no_fault_warm", "history": hist_names}));
    let found = all_answers(&fx, &thread, light, max_anchors);
    report.eval(Some(&(&hist_names, "none", "warm")));
    compare(report, hist, &json!({"file": "none", "fault": "none"}), "warm_authority", &tail, &found, &truth);
    announce(json!({"t": "begin", "what": "no_fault_restart", "history": hist_names}));
    let re = fx.copy(true);
    let found = all_answers_ordered(&re, &thread, light, max_anchors, true);
    report.eval(Some(&(&hist_names, "none", "restart")));
    compare(report, hist, &json!({"file": "none", "fault": "none"}), "restarted_authority", &tail, &found, &truth);
    drop(re);
    // the capabilities that also write (rotation target, branch / handoff cut): truth once per
    // history on a cache-less copy, then a restarted authority with every cache in place
    announce(json!({"t": "begin", "what": "resolution_truth", "history": hist_names}));
    let res_truth_fx = fx.copy(false);
    let res_truth = resolution_answers(&res_truth_fx, &thread, true);
    drop(res_truth_fx);
    announce(json!({"t": "begin", "what": "resolution_no_fault", "history": hist_names}));
    let re = fx.copy(true);
    let found = resolution_answers(&re, &thread, false);
    report.eval(Some(&(&hist_names, "none", "resolution")));
    compare(report, hist, &json!({"file": "none", "fault": "none"}), "restarted_authority", &tail, &found, &res_truth);
    drop(re);
    // a thread of many MiB: every faulted copy costs seconds; the no-fault differential (warm and
    // restarted authority against the cache-less truth) is what such a thread is for
    if hist.iter().map(|o| if let HOp::BigMsg(k) = o { *k as u64 } else { 0 }).sum::<u64>() > 5000 {
        report.count("histories_with_the_no_fault_differential_only", 1);
        return;
    }
    let files: Vec<String> = snapshots.last().map(|s| s.keys().cloned().collect()).unwrap_or_default();
    let mut faults: Vec<Fault> = vec![Fault::Delete, Fault::Truncate0, Fault::Truncate1, Fault::TruncateMidLast, Fault::TruncateLastLine, Fault::TruncateHalf, Fault::DropFirstLine, Fault::Garbage];
    for j in 0..hist.len().saturating_sub(1) {
        faults.push(Fault::Rollback(j));
    }
    if heavy {
        faults = vec![Fault::Delete, Fault::TruncateMidLast, Fault::TruncateLastLine];
    }
    let mut fault_sets: Vec<Vec<(String, Fault)>> = Vec::new();
    for f in &files {
        for fault in &faults {
            fault_sets.push(vec![(f.clone(), fault.clone())]);
        }
    }
    if pairs && !heavy {
        let light_faults = [Fault::Delete, Fault::TruncateLastLine, Fault::Garbage];
        for (i, a) in files.iter().enumerate() {
            for b in &files[i + 1..] {
                for fa in &light_faults {
                    for fb in &light_faults {
                        fault_sets.push(vec![(a.clone(), fa.clone()), (b.clone(), fb.clone())]);
                    }
                }
            }
        }
        // everything except X
        for keep in &files {
            fault_sets.push(files.iter().filter(|f| *f != keep).map(|f| (f.clone(), Fault::Delete)).collect());
        }
    }
    // the whole family rolled back to its content after an earlier op (a restored snapshot, or every
    // cache write since then lost): every history, with the append phase
    if !heavy {
        for j in 0..hist.len().saturating_sub(1) {
            fault_sets.push(files.iter().map(|f| (f.clone(), Fault::Rollback(j))).collect());
        }
    }
    // query kinds that differ under one fault alone, per (file, fault, phase): the attribution table
    let mut single_diffs: std::collections::HashMap<(String, String, &'static str), std::collections::BTreeSet<String>> = std::collections::HashMap::new();
    for set in fault_sets {
        if report.over_cap() {
            return;
        }
        let family_rollback = set.len() > 2 && set.iter().all(|(_, f)| matches!(f, Fault::Rollback(_)));
        let desc = if family_rollback {
            json!({"file": "whole_family", "fault": fault_name(&set[0].1)})
        } else {
            json!({
                "file": set.iter().map(|(f, _)| family(f)).collect::<Vec<_>>().join("+"),
                "fault": set.iter().map(|(_, f)| fault_name(f)).collect::<Vec<_>>().join("+"),
            })
        };
        let attributed = |table: &std::collections::HashMap<(String, String, &'static str), std::collections::BTreeSet<String>>, phase: &'static str| {
            let mut att = std::collections::BTreeSet::new();
            for (file, fault) in &set {
                if let Some(k) = table.get(&(file.clone(), fault_name(fault), phase)) {
                    att.extend(k.iter().cloned());
                }
            }
            att
        };
        // faulted copy (closed store), then a fresh authority on it
        let dir = crate::common::scratch_dir("c04f");
        let data = dir.path().join("data");
        let root = dir.path().join("ws");
        let _ = crate::common::copy_dir(&fx.data, &data);
        let _ = crate::common::copy_dir(&fx.root, &root);
        let mut applied = false;
        for (file, fault) in &set {
            applied |= apply_fault(&data.join("continuity_streams").join(file), fault, &snapshots);
        }
        if !applied {
            continue;
        }
        announce(json!({"t": "begin", "what": "fault", "history": hist_names, "fault": desc}));
        let faulted = Fx::open(dir, data, root, rt.clone());
        let found = all_answers_ordered(&faulted, &thread, light, max_anchors, true);
        report.eval(Some(&(&hist_names, desc.to_string(), "restart")));
        report.count("fault_cases", 1);
        if set.len() > 1 {
            report.count(if family_rollback { "family_rollback_cases" } else { "fault_pair_cases" }, 1);
            compare_attr(report, hist, &desc, "after_fault", &tail, &found, &truth, Some(&attributed(&single_diffs, "after_fault")));
            if !family_rollback {
                continue;
            }
        } else {
            let kinds = compare(report, hist, &desc, "after_fault", &tail, &found, &truth);
            single_diffs.insert((set[0].0.clone(), fault_name(&set[0].1), "after_fault"), kinds);
        }
        // quick tier, histories of 3 ops: the two extra phases (resolution, append first) only for the
        // faults that leave a well-formed file (the others are rejected on sight; covered at <= 2 ops)
        let well_formed = set.iter().all(|(_, f)| matches!(f, Fault::Delete | Fault::TruncateLastLine | Fault::DropFirstLine | Fault::Rollback(_)));
        let extra_phases = !light || hist.len() != 3 || well_formed;
        // rotation target and branch / handoff cuts as the first calls on a fresh faulted copy
        if extra_phases {
            announce(json!({"t": "begin", "what": "fault+resolution", "history": hist_names, "fault": desc}));
            let dir = crate::common::scratch_dir("c04r");
            let data = dir.path().join("data");
            let root = dir.path().join("ws");
            let _ = crate::common::copy_dir(&fx.data, &data);
            let _ = crate::common::copy_dir(&fx.root, &root);
            for (file, fault) in &set {
                apply_fault(&data.join("continuity_streams").join(file), fault, &snapshots);
            }
            let rfx = Fx::open(dir, data, root, rt.clone());
            let found = resolution_answers(&rfx, &thread, false);
            report.eval(Some(&(&hist_names, desc.to_string(), "resolution")));
            report.count("resolution_cases", 1);
            if set.len() > 1 {
                compare_attr(report, hist, &desc, "after_fault", &tail, &found, &res_truth, Some(&attributed(&single_diffs, "resolution")));
            } else {
                let kinds = compare(report, hist, &desc, "after_fault", &tail, &found, &res_truth);
                single_diffs.insert((set[0].0.clone(), fault_name(&set[0].1), "resolution"), kinds);
            }
        }
        if heavy {
            continue;
        }
        // one more append on the same (now warm) authority, then compare again + numbering
        announce(json!({"t": "begin", "what": "fault+append", "history": hist_names, "fault": desc}));
        if let Err(e) = faulted.store().append_message(&thread, "u".into(), "o".into(), "after-fault".into()) {
            report.violation(
                &format!("C04:append_after_fault_failed:{}", desc["file"].as_str().unwrap_or("")),
                json!({"history": hist_names, "fault": desc}),
                &format!("append after the fault failed: {e}"),
            );
            continue;
        }
        if let Err(e) = faulted.validated() {
            report.violation(
                &format!("C04:numbering_poisoned_by_cache:{}:{}", desc["file"].as_str().unwrap_or(""), desc["fault"].as_str().unwrap_or("").split("_op").next().unwrap_or("")),
                json!({"engine": "H-histories", "harness": "c04.faults", "history": hist_names, "fault": desc, "phase": "append_after_fault"}),
                &format!("after the fault and one append, validated replay fails: {e}"),
            );
            continue;
        }
        let truth2_fx = faulted.copy(false);
        let truth2 = truth_answers(&truth2_fx, &thread, true, 3);
        let found2 = all_answers_ordered(&faulted, &thread, true, 3, true);
        report.eval(Some(&(&hist_names, desc.to_string(), "append")));
        if set.len() > 1 {
            compare_attr(report, hist, &desc, "after_fault_and_append", &tail, &found2, &truth2, Some(&attributed(&single_diffs, "after_fault_and_append")));
        } else {
            let kinds = compare(report, hist, &desc, "after_fault_and_append", &tail, &found2, &truth2);
            single_diffs.insert((set[0].0.clone(), fault_name(&set[0].1), "after_fault_and_append"), kinds);
        }
        drop(faulted);
        if !extra_phases {
            continue;
        }
        // the other order: the append is the FIRST thing the fresh authority does on the faulted
        // store (no read has had a chance to repair or warm anything), then the queries
        announce(json!({"t": "begin", "what": "fault+append_first", "history": hist_names, "fault": desc}));
        let dir = crate::common::scratch_dir("c04g");
        let data = dir.path().join("data");
        let root = dir.path().join("ws");
        let _ = crate::common::copy_dir(&fx.data, &data);
        let _ = crate::common::copy_dir(&fx.root, &root);
        for (file, fault) in &set {
            apply_fault(&data.join("continuity_streams").join(file), fault, &snapshots);
        }
        let faulted = Fx::open(dir, data, root, rt.clone());
        if let Err(e) = faulted.store().append_message(&thread, "u".into(), "o".into(), "after-fault".into()) {
            report.violation(
                &format!("C04:append_after_fault_failed:{}", desc["file"].as_str().unwrap_or("")),
                json!({"history": hist_names, "fault": desc, "phase": "append_first"}),
                &format!("append as the first call after the fault failed: {e}"),
            );
            continue;
        }
        if let Err(e) = faulted.validated() {
            report.violation(
                &format!("C04:numbering_poisoned_by_cache:{}:{}", desc["file"].as_str().unwrap_or(""), desc["fault"].as_str().unwrap_or("").split("_op").next().unwrap_or("")),
                json!({"engine": "H-histories", "harness": "c04.faults", "history": hist_names, "fault": desc, "phase": "append_first"}),
                &format!("after the fault and one append (first call), validated replay fails: {e}"),
            );
            continue;
        }
        let truth3_fx = faulted.copy(false);
        let truth3 = truth_answers(&truth3_fx, &thread, true, 3);
        let found3 = all_answers_ordered(&faulted, &thread, true, 3, true);
        report.eval(Some(&(&hist_names, desc.to_string(), "append_first")));
        report.count("append_first_cases", 1);
        if set.len() > 1 {
            compare_attr(report, hist, &desc, "after_fault_append_first", &tail, &found3, &truth3, Some(&attributed(&single_diffs, "after_fault_append_first")));
        } else {
            let kinds = compare(report, hist, &desc, "after_fault_append_first", &tail, &found3, &truth3);
            single_diffs.insert((set[0].0.clone(), fault_name(&set[0].1), "after_fault_append_first"), kinds);
        }
        drop(faulted);
        // the fault under a RUNNING authority (caches may be lost or replaced at any time): a warm
        // authority - it has appended to the thread, its counter is cached - then the fault on
        // its live files, queries, one more append, queries. Single faults only; quick tier:
        // delete / empty only, histories of 3 ops left to the thorough tier.
        let warm_fault = set.len() == 1 && (!light || ((hist.len() != 3 || pairs) && matches!(set[0].1, Fault::Delete | Fault::Truncate0)));
        if !warm_fault {
            continue;
        }
        announce(json!({"t": "begin", "what": "warm_fault", "history": hist_names, "fault": desc}));
        let warm = fx.copy(true);
        if warm.store().append_message(&thread, "u".into(), "o".into(), "warm-up".into()).is_err() {
            continue;
        }
        // the roll-back targets are the history's snapshots; the other faults act on the live content
        if !apply_fault(&warm.data.join("continuity_streams").join(&set[0].0), &set[0].1, &snapshots) {
            continue;
        }
        let truth4_fx = warm.copy(false);
        let truth4 = truth_answers(&truth4_fx, &thread, true, 3);
        drop(truth4_fx);
        let found4 = all_answers_ordered(&warm, &thread, true, 3, true);
        report.eval(Some(&(&hist_names, desc.to_string(), "warm_fault")));
        report.count("warm_fault_cases", 1);
        let kinds = compare(report, hist, &desc, "warm_fault", "tail=message", &found4, &truth4);
        single_diffs.insert((set[0].0.clone(), fault_name(&set[0].1), "warm_fault"), kinds);
        // a second store for the append: the queries above may have repaired what the append would meet
        let warm = fx.copy(true);
        if warm.store().append_message(&thread, "u".into(), "o".into(), "warm-up".into()).is_err() {
            continue;
        }
        apply_fault(&warm.data.join("continuity_streams").join(&set[0].0), &set[0].1, &snapshots);
        if let Err(e) = warm.store().append_message(&thread, "u".into(), "o".into(), "after-warm-fault".into()) {
            report.violation(&format!("C04:append_after_fault_failed:{}", desc["file"].as_str().unwrap_or("")), json!({"history": hist_names, "fault": desc, "phase": "warm_fault"}), &format!("append after the fault under a running authority failed: {e}"));
            continue;
        }
        if let Err(e) = warm.validated() {
            report.violation(
                &format!("C04:numbering_poisoned_by_cache:{}:{}", desc["file"].as_str().unwrap_or(""), desc["fault"].as_str().unwrap_or("").split("_op").next().unwrap_or("")),
                json!({"engine": "H-histories", "harness": "c04.faults", "history": hist_names, "fault": desc, "phase": "warm_fault_and_append"}),
                &format!("after the fault under a running authority and one append, validated replay fails: {e}"),
            );
            continue;
        }
        let truth5_fx = warm.copy(false);
        let truth5 = truth_answers(&truth5_fx, &thread, true, 3);
        drop(truth5_fx);
        let found5 = all_answers_ordered(&warm, &thread, true, 3, true);
        report.eval(Some(&(&hist_names, desc.to_string(), "warm_fault_and_append")));
        compare(report, hist, &desc, "warm_fault_and_append", "tail=message", &found5, &truth5);
    }
    // PAIRS of faults under a running authority: two members lost or emptied at once (a member
    // whose loss is covered by a fall-back to another member: the pair takes both away). What one
    // of the two faults causes alone is that single-fault result again; only what the combination
    // adds is reported (`pair_only`).
    if pairs && !heavy {
        let lost = [Fault::Delete, Fault::Truncate0];
        for (i, a) in files.iter().enumerate() {
            for b in &files[i + 1..] {
                for fa in &lost {
                    for fb in &lost {
                        if report.over_cap() {
                            return;
                        }
                        let set = vec![(a.clone(), fa.clone()), (b.clone(), fb.clone())];
                        let desc = json!({
                            "file": set.iter().map(|(f, _)| family(f)).collect::<Vec<_>>().join("+"),
                            "fault": set.iter().map(|(_, f)| fault_name(f)).collect::<Vec<_>>().join("+"),
                        });
                        announce(json!({"t": "begin", "what": "warm_fault_pair", "history": hist_names, "fault": desc}));
                        let warm = fx.copy(true);
                        if warm.store().append_message(&thread, "u".into(), "o".into(), "warm-up".into()).is_err() {
                            continue;
                        }
                        let mut applied = true;
                        for (file, fault) in &set {
                            applied &= apply_fault(&warm.data.join("continuity_streams").join(file), fault, &snapshots);
                        }
                        if !applied {
                            continue;
                        }
                        let truth_fx = warm.copy(false);
                        let truth6 = truth_answers(&truth_fx, &thread, true, 3);
                        drop(truth_fx);
                        let found6 = all_answers_ordered(&warm, &thread, true, 3, true);
                        report.eval(Some(&(&hist_names, desc.to_string(), "warm_fault_pair")));
                        report.count("warm_fault_pair_cases", 1);
                        let mut att = std::collections::BTreeSet::new();
                        for (file, fault) in &set {
                            if let Some(k) = single_diffs.get(&(file.clone(), fault_name(fault), "warm_fault")) {
                                att.extend(k.iter().cloned());
                            }
                        }
                        compare_attr(report, hist, &desc, "warm_fault", "tail=message", &found6, &truth6, Some(&att));
                    }
                }
            }
        }
    }
}

/// Threads whose every faulted copy is expensive: delete / cut-at-the-end faults only, no append phase.
fn is_heavy(h: &[HOp]) -> bool {
    h.iter().any(|o| matches!(o, HOp::Fill(n) if *n > 1000)) || h.iter().map(|o| if let HOp::BigMsg(k) = o { *k as u64 } else { 0 }).sum::<u64>() > 500
}

fn history_list(tier: Tier) -> Vec<Vec<HOp>> {
    let base: Vec<HOp> = match tier {
        // the second cursor key only in thorough (it doubles nothing but the cursor-status cases)
        Tier::Quick => vec![HOp::Msg, HOp::Run, HOp::Side, HOp::Cursor(0), HOp::SelPair, HOp::Ckpt, HOp::Auto, HOp::Other],
        Tier::Thorough => vec![HOp::Msg, HOp::Run, HOp::Side, HOp::Cursor(0), HOp::Cursor(1), HOp::SelPair, HOp::Ckpt, HOp::Auto, HOp::Other],
    };
    let depth = tier.pick(3, 4);
    let mut out: Vec<Vec<HOp>> = Vec::new();
    let mut frontier: Vec<Vec<HOp>> = vec![vec![]];
    for _ in 0..depth {
        let mut next = Vec::new();
        for h in &frontier {
            for op in base.iter() {
                let mut t = h.clone();
                t.push(op.clone());
                next.push(t);
            }
        }
        out.extend(next.iter().cloned());
        frontier = next;
    }
    // quick keeps depth 3 only for histories that contain a message-creating op early (others are
    // covered at depth 2); thorough keeps everything
    if tier == Tier::Quick {
        out.retain(|h| h.len() < 3 || matches!(h[0], HOp::Msg | HOp::Run));
    }
    // window-crossing prefixes with every depth<=1 (quick) / <=2 (thorough) suffix
    let prefixes: Vec<Vec<HOp>> = match tier {
        Tier::Quick => vec![vec![HOp::Run, HOp::Cursor(0), HOp::Fill(600)], vec![HOp::Run, HOp::Cursor(0), HOp::SelPair, HOp::Fill(10_001)], vec![HOp::Run, HOp::BigMsg(300)], vec![HOp::Msg; 18], vec![HOp::BigMsg(20); 40], vec![HOp::BigMsg(600); 18]],
        Tier::Thorough => vec![
            vec![HOp::Run, HOp::Cursor(0), HOp::Fill(600)],
            vec![HOp::Run, HOp::Cursor(0), HOp::SelPair, HOp::Fill(10_001)],
            vec![HOp::Run, HOp::BigMsg(300)],
            vec![HOp::Run, HOp::Cursor(0), HOp::BigMsg(3072), HOp::BigMsg(3072), HOp::BigMsg(3072)],
            vec![HOp::Msg; 18],
            vec![HOp::BigMsg(20); 40],
            // the 16 newest messages take more than 8 MiB of the messages+runs sidecar
            vec![HOp::BigMsg(600); 18],
        ],
    };
    for p in prefixes {
        out.push(p.clone());
        let heavy = is_heavy(&p);
        if heavy && tier == Tier::Quick {
            continue;
        }
        for a in base.iter() {
            let mut h = p.clone();
            h.push(a.clone());
            out.push(h.clone());
            if tier == Tier::Thorough && !heavy {
                for b in base.iter() {
                    let mut h2 = h.clone();
                    h2.push(b.clone());
                    out.push(h2);
                }
            }
        }
    }
    out
}

fn worker(opts: Opts) -> i32 {
    TICK.with(|t| t.set(Some(tick)));
    let report = Report::new("C04", "fault_enumeration", opts.clone());
    let shard: usize = opts.extra.iter().find_map(|a| a.strip_prefix("shard=").and_then(|s| s.parse().ok())).unwrap_or(0);
    let of: usize = opts.extra.iter().find_map(|a| a.strip_prefix("of=").and_then(|s| s.parse().ok())).unwrap_or(1);
    let only: Option<Vec<HOp>> = opts.extra.iter().find_map(|a| a.strip_prefix("history=").map(|s| s.split(',').filter(|x| !x.is_empty()).map(parse_op).collect()));
    let rt = new_rt();
    let tier = report.tier();
    let list = match only {
        Some(h) => vec![h],
        None => history_list(tier),
    };
    for (i, h) in list.iter().enumerate() {
        if i % of != shard {
            continue;
        }
        if report.over_cap() {
            break;
        }
        // pairs of faults (and "every file but one deleted"): thorough, histories of <= 3 operations
        // (quick: of 1 operation). A difference that one of the two faults causes alone is that
        // single-fault result again (reported or listed there); only what the combination adds is new.
        // quick: also two short histories that hold a checkpoint (a derived member whose loss is
        // covered by a fall-back to another member: the pair takes both away)
        let with_checkpoint: [Vec<HOp>; 2] = [vec![HOp::Msg, HOp::Msg, HOp::Ckpt], vec![HOp::Run, HOp::Ckpt]];
        let pairs = h.len() <= tier.pick(1, 3) || with_checkpoint.contains(h);
        check_history(&report, &rt, h, pairs, tier == Tier::Quick);
        if shard == 0 && i < 3 * of {
            report.sample(json!({"history": h.iter().map(op_name).collect::<Vec<_>>(), "faults": "every single fault on every cache file of the thread, then one append"}));
        }
    }
    report.finish()
}

/// Runs one worker under the watchdog. Returns false when it had to be killed.
fn run_watched(report: &Report, args: Vec<String>) {
    let exe = std::env::current_exe().expect("exe");
    let mut child = Command::new(exe)
        .args(&args)
        .env("VC_WORKER", "1")
        .env("VERIF_TIER", report.opts.tier.as_str())
        .stdin(Stdio::null())
        .stdout(Stdio::piped())
        .stderr(Stdio::piped())
        .spawn()
        .unwrap_or_else(|e| machinery_failure(&format!("spawn c04 worker: {e}")));
    let stdout = child.stdout.take().unwrap();
    let (tx, rx) = mpsc::channel::<String>();
    std::thread::spawn(move || {
        for line in BufReader::new(stdout).lines().map_while(Result::ok) {
            if tx.send(line).is_err() {
                break;
            }
        }
    });
    let mut last_begin = Value::Null;
    let mut collected = String::new();
    let mut hung = false;
    loop {
        match rx.recv_timeout(Duration::from_secs(WATCHDOG_S)) {
            Ok(line) => {
                if let Ok(v) = serde_json::from_str::<Value>(&line) {
                    if v["t"] == "begin" {
                        last_begin = v;
                        continue;
                    }
                }
                collected.push_str(&line);
                collected.push('\n');
            }
            Err(mpsc::RecvTimeoutError::Timeout) => {
                hung = true;
                let _ = child.kill();
                break;
            }
            Err(mpsc::RecvTimeoutError::Disconnected) => break,
        }
    }
    let _ = child.wait();
    let saw_summary = report.absorb_worker_output(&collected);
    if hung {
        // confirm on its own, with four times the budget: under heavy machine load a legitimate
        // step can exceed the watchdog; a query that loops forever does so again
        let hist = last_begin["history"].as_array().map(|a| a.iter().filter_map(|v| v.as_str()).collect::<Vec<_>>().join(",")).unwrap_or_default();
        if !hist.is_empty() && !args.iter().any(|a| a.starts_with("history=")) {
            let exe = std::env::current_exe().expect("exe");
            let mut confirm = Command::new(exe)
                .args(["c04", "--tier", report.opts.tier.as_str(), &format!("history={hist}")])
                .env("VC_WORKER", "1")
                .env("VERIF_TIER", report.opts.tier.as_str())
                .stdin(Stdio::null())
                .stdout(Stdio::null())
                .stderr(Stdio::null())
                .spawn()
                .unwrap_or_else(|e| machinery_failure(&format!("spawn c04 confirmation worker: {e}")));
            let heavy = hist.contains("big") || hist.contains("fill1");
            // (the slowest legitimate heavy history of the quick tier takes about a minute when run alone)
            let until = std::time::Instant::now() + Duration::from_secs(4 * WATCHDOG_S + 60 + if heavy { report.tier().pick(180, 900) as u64 } else { 0 });
            let mut finished = false;
            while std::time::Instant::now() < until {
                if let Ok(Some(_)) = confirm.try_wait() {
                    finished = true;
                    break;
                }
                std::thread::sleep(Duration::from_millis(200));
            }
            if finished {
                report.count("watchdog_fired_under_load_but_the_history_terminates_on_its_own", 1);
                report.not_exhaustive("a worker exceeded the watchdog under load (its history terminates when run alone); the rest of its shard was not explored");
                return;
            }
            let _ = confirm.kill();
            let _ = confirm.wait();
        }
        let what = last_begin["what"].as_str().unwrap_or("?").to_string();
        let fam = last_begin["fault"]["file"].as_str().unwrap_or("none").to_string();
        let has_big = last_begin["history"].as_array().map(|a| a.iter().any(|x| x.as_str().map(|s| s.starts_with("fill1")).unwrap_or(false))).unwrap_or(false);
        report.violation(
            &format!("C04:non_termination:{what}:{fam}:{}", if has_big { "thread_longer_than_tail_window" } else { "short_thread" }),
            json!({"engine": "H-histories", "harness": "c04.faults", "watchdog_s": WATCHDOG_S, "last_announced": last_begin}),
            &format!("a query did not return within {WATCHDOG_S} s (worker killed); last announced step: {last_begin}"),
        );
        report.not_exhaustive("a worker was killed by the watchdog; the rest of its shard was not explored");
    } else if !saw_summary {
        machinery_failure(&format!("c04 worker {args:?} ended without a summary"));
    }
}

fn race_jobs(report: &Report) {
    use crate::race::{job, Pre, Reader, Writer, PRES, READERS_C04, WRITERS};
    let tier = report.tier();
    let t = tier.as_str();
    let cap = report.opts.wall_cap_s;
    let mut jobs = Vec::new();
    if tier == Tier::Quick {
        for r in [Reader::Replay, Reader::CutPoints, Reader::CursorStatus] {
            jobs.push(job(t, "c04", cap, Pre::OpenTurn, r, Writer::Message, 1));
        }
        jobs.push(job(t, "c04", cap, Pre::OpenTurnNoCaches, Reader::CutPoints, Writer::Message, 1));
    } else {
        for pre in PRES {
            for r in READERS_C04 {
                for w in WRITERS {
                    jobs.push(job(t, "c04", cap, pre, r, w, 1));
                }
            }
        }
        jobs.push(job(t, "c04", cap, Pre::OpenTurnNoCaches, Reader::Replay, Writer::Message, 2));
    }
    report.set_extra("race_configs", json!(jobs.len()));
    crate::common::run_workers(report, jobs, if tier == Tier::Quick { 4 } else { 16 }, &crate::race::shim_env());
}

pub fn run(opts: Opts) -> i32 {
    if let Some(spec) = opts.extra.iter().find_map(|a| a.strip_prefix("race=")) {
        let spec = spec.to_string();
        return crate::race::worker(opts, "C04", "fault_enumeration", &spec);
    }
    if std::env::var("VC_WORKER").is_ok() {
        return worker(opts);
    }
    let report = Report::new("C04", "fault_enumeration", opts.clone());
    report.set_rule(
        "histories = every sequence of <=3 (quick, depth 3 only after a leading message/run) / <=4 (thorough) ops from {message, answered \
         stub run, side effects, cursor set (2 keys), selection+compiled pair, manual checkpoint, auto compaction, a frame on another thread (so that the log ends with a foreign frame)}, plus window-crossing \
         prefixes (600 and 10 001 dense side-effect frames, a 300 KiB message, 3 x 3 MiB messages (thorough), 18 messages, 40 x 20 KiB messages: a messages+runs sidecar larger than the first tail windows) with suffixes; for every \
         history: no fault (warm and restarted authority) and EVERY single fault {delete, truncate to 0 / 1 byte / inside the last record / \
         at the last line boundary / half, without its first line, garbage of equal length, roll back to the content after each earlier op} on EVERY cache file of \
         the thread a fresh authority, all read \
         capabilities + the compiled context for every message anchor, then one append and all of it again plus validated replay; a case \
         is distinct by (history, fault set, phase)",
    );
    report.assume("truth side of the differential = a fresh authority on a copy of the same store whose continuity_streams/ directory is removed before EVERY query (each answer is computed from the log; caches a query rebuilds are never read)");
    report.assume("every worker runs under a 25 s watchdog per announced step (slowest legitimate step measured < 3 s); the watchdog is per query; a query that exceeds it is confirmed by re-running its history alone (160 s, 1060 s for window-crossing threads) before it is reported as non-termination");
    if let Some(path) = &opts.replay {
        let case = crate::common::load_replay_case(path);
        let hist = case["history"].as_array().or(case["last_announced"]["history"].as_array()).map(|a| a.iter().filter_map(|v| v.as_str()).collect::<Vec<_>>().join(",")).unwrap_or_default();
        run_watched(&report, vec!["c04".into(), "--tier".into(), report.tier().as_str().into(), format!("history={hist}")]);
        return report.finish();
    }
    let shards = 16usize;
    std::thread::scope(|scope| {
        // engine S at system-call granularity, alongside the fault enumeration: every read
        // capability racing ONE concurrent append
        {
            let report = &report;
            scope.spawn(move || race_jobs(report));
        }
        for s in 0..shards {
            let report = &report;
            scope.spawn(move || {
                run_watched(
                    report,
                    vec![
                        "c04".into(),
                        "--tier".into(),
                        report.tier().as_str().into(),
                        "--wall-cap".into(),
                        format!("{}", report.opts.wall_cap_s),
                        format!("shard={s}"),
                        format!("of={shards}"),
                    ],
                );
            });
        }
    });
    report.set_extra("histories", json!(history_list(report.tier()).len()));
    report.finish()
}

#[allow(dead_code)]
fn _unused(_: PathBuf) {}
