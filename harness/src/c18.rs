//! C18 — a store never has two authorities; a live authority's lock is never taken.
//!
//! Engine S: servers and clients run the recovery protocols over the REAL lock primitives
//! (try_acquire, read_authority_meta, read_authority_lock_record, pid_liveness,
//! try_cleanup_stale_authority_files, try_cleanup_corrupt_lock_file, write_meta, guard drop) from
//! every leftover state, explored over all interleavings at the file-system step hooks up to a
//! preemption bound. Seams give every actor its own pid and make liveness / reachability a function
//! of the harness' actor table. Scenarios: contenders on leftovers of a dead owner (incl. a
//! half-written lock), a live holder that stays, a holder that releases while others start, a
//! server that dies at every one of its hooks, and clients that attach / clean up / spawn servers.

use std::mem::ManuallyDrop;
use std::path::PathBuf;
use std::sync::atomic::{AtomicBool, AtomicUsize, Ordering};
use std::sync::{Arc, Mutex};

use rayon::prelude::*;
use ripd::{
    pid_liveness, read_authority_lock_record, read_authority_meta, try_cleanup_corrupt_lock_file, try_cleanup_stale_authority_files,
    AuthorityLockGuard, AuthorityLockRecord, AuthorityMeta, PidLiveness,
};
use serde_json::{json, Value};

use crate::common::{scratch_dir, Opts, Report, Tier};
use crate::sched::{explore, ActorBody, ActorCtx, ActorEnv, Exec};

const DEAD_PID: u32 = 999;
const OLDER_DEAD_PID: u32 = 998;
const BASE_PID: u32 = 1000;
const ROOT: &str = "/workspace";
/// Logical time = number of 20 ms retry sleeps an actor has taken. The real constants are 1 s grace
/// (50 sleeps), 2 s server deadline, 8 s client deadline, 500 ms spawn cooldown; the model keeps
/// their order (grace < server deadline < client deadline, one spawn per client within the horizon).
/// one retry sleep of the real server loop, on the actor's clock
const CLOCK_STEP: std::time::Duration = std::time::Duration::from_millis(700);
const GRACE: u32 = 1;
const CLIENT_DEADLINE: u32 = 4;

#[derive(Clone, Copy, Debug, PartialEq, Eq, Hash)]
enum Leftover {
    Empty,
    DeadLock,
    DeadLockAndMeta,
    DeadMetaOnly,
    /// the previous owner died between creating lock.json and writing it (empty file)
    HalfLock,
    /// ... or in the middle of the record (torn JSON)
    TornLock,
    /// torn lock of a dead owner next to the meta of an even older dead owner
    TornLockAndDeadMeta,
    /// well-formed lock of a dead owner N next to the meta of an OLDER dead owner O (N acquired
    /// after a corrupt-lock cleanup that left O's meta, and died before writing its own)
    DeadLockAndOlderDeadMeta,
}

const LEFTOVERS: [Leftover; 8] = [
    Leftover::Empty,
    Leftover::DeadLock,
    Leftover::DeadLockAndMeta,
    Leftover::DeadMetaOnly,
    Leftover::HalfLock,
    Leftover::TornLock,
    Leftover::TornLockAndDeadMeta,
    Leftover::DeadLockAndOlderDeadMeta,
];

#[derive(Clone, Copy, Debug, PartialEq, Eq, Hash)]
enum Scenario {
    /// n servers start at once on a leftover of a dead owner
    Contend { leftover: Leftover, servers: usize },
    /// server 0 holds the role for the whole execution (reachable or hung); n more servers start
    LiveHolder { reachable: bool, foreign: bool, servers: usize },
    /// server 0 holds the role and shuts down (guard drop) while n more servers start
    Releasing { servers: usize },
    /// server 0 starts on an empty store and dies immediately before the effect after its k-th hook
    /// (anywhere in acquire / meta write); n more servers start
    Crashing { at_hook: usize, servers: usize },
    /// n clients (each may spawn its own server) on a leftover, plus `servers` independent servers
    Clients { leftover: Leftover, clients: usize, servers: usize },
}

#[derive(Clone, Debug, PartialEq)]
enum Ev {
    Acquired,
    Releasing,
    Attached(u32),
}

struct Shared {
    data: PathBuf,
    n: usize,
    /// role events in the order they happened: (actor, event, step index)
    events: Mutex<Vec<(usize, Ev, usize)>>,
    dead: Vec<Arc<AtomicBool>>,
    /// actor serves its endpoint (set after the meta write, cleared when it starts to release)
    serving: Vec<AtomicBool>,
    /// false = the holder's endpoint never answers (hung server)
    answers: Vec<AtomicBool>,
    /// actor 0 (the pre-existing holder) runs under another uid: `kill(pid, 0)` answers EPERM
    holder_foreign: bool,
    spawned: Vec<AtomicBool>,
    clients_left: AtomicUsize,
    guards: Mutex<Vec<AuthorityLockGuard>>,
    gave_up: Mutex<Vec<(usize, String)>>,
}

impl Shared {
    fn alive(&self, pid: u32) -> bool {
        if pid < BASE_PID {
            return false;
        }
        let i = (pid - BASE_PID) as usize;
        i < self.n && !self.dead[i].load(Ordering::SeqCst)
    }
    fn ping(&self, pid: u32) -> bool {
        if !self.alive(pid) {
            return false;
        }
        let i = (pid - BASE_PID) as usize;
        self.serving[i].load(Ordering::SeqCst) && self.answers[i].load(Ordering::SeqCst)
    }
}

struct Env {
    pid: u32,
    shared: Arc<Shared>,
    /// retry sleeps of the real server loop so far: this actor's clock
    sleeps: AtomicUsize,
}

impl Env {
    fn new(pid: u32, shared: Arc<Shared>) -> Self {
        Env { pid, shared, sleeps: AtomicUsize::new(0) }
    }
}

impl ActorEnv for Env {
    fn pid(&self) -> Option<u32> {
        Some(self.pid)
    }
    /// Reachability of an advertised endpoint (`http://pid-<n>` is actor n's; a dead owner's
    /// leftover endpoint never answers).
    fn ping(&self, endpoint: &str) -> Option<bool> {
        Some(match endpoint.strip_prefix("http://pid-").and_then(|p| p.parse::<u32>().ok()) {
            Some(pid) => self.shared.ping(pid),
            None => false,
        })
    }
    fn clock_offset(&self) -> Option<std::time::Duration> {
        Some(CLOCK_STEP * self.sleeps.load(Ordering::SeqCst) as u32)
    }
    fn on_sleep(&self) -> bool {
        self.sleeps.fetch_add(1, Ordering::SeqCst);
        true
    }
    /// The liveness probe is answered at the level of `kill(pid, 0)`: delivered, ESRCH for a dead
    /// pid, EPERM for a live process of another user. `pid_liveness`'s classification runs for real.
    fn kill_errno(&self, pid: u32) -> Option<i32> {
        const EPERM: i32 = 1;
        const ESRCH: i32 = 3;
        Some(if !self.shared.alive(pid) {
            ESRCH
        } else if self.shared.holder_foreign && pid == BASE_PID {
            EPERM
        } else {
            0
        })
    }
}

struct World {
    _dir: tempfile::TempDir,
    shared: Arc<Shared>,
}

/// Time is not gated on anything: the lock record is published atomically, so an unreadable lock
/// is never a live acquirer's, and the grace period may elapse at any moment of any schedule.
fn grace_may_elapse(_ctx: Option<&ActorCtx>) -> bool {
    true
}

fn sleep(ctx: Option<&ActorCtx>, now: &mut u32) {
    if let Some(ctx) = ctx {
        ctx.yield_now("auth.retry_sleep");
    }
    *now += 1;
}

/// The server's recovery loop: the REAL `acquire_authority_lock_with_recovery` of server.rs
/// (exported under the guard). Its environment is seams: reachability of an advertised endpoint
/// (`ping`), liveness at the level of `kill(pid, 0)`, the monotonic clock and the 20 ms retry
/// sleep - every sleep advances this actor's clock by CLOCK_STEP and is a scheduling point, so
/// the loop's own grace period (> 1 s) elapses after two sleeps and its deadline (2 s) after
/// three; nothing else constrains when they elapse. The future never waits for anything but
/// the sleep seam, so it is polled in place.
fn server_loop(_ctx: Option<&ActorCtx>, w: &Shared) -> Result<AuthorityLockGuard, String> {
    poll_in_place(ripd::verif_export::acquire_authority_lock_with_recovery(&w.data, std::path::Path::new(ROOT)))
}

fn poll_in_place<F: std::future::Future>(fut: F) -> F::Output {
    struct Noop;
    impl std::task::Wake for Noop {
        fn wake(self: Arc<Self>) {}
    }
    let waker = std::task::Waker::from(Arc::new(Noop));
    let mut cx = std::task::Context::from_waker(&waker);
    let mut fut = Box::pin(fut);
    match fut.as_mut().poll(&mut cx) {
        std::task::Poll::Ready(v) => v,
        std::task::Poll::Pending => crate::common::machinery_failure("c18: the server recovery loop waited for something that is not a seam"),
    }
}

/// The client's `ensure_local_authority_with_paths` (rip-cli is a bin crate), restated branch by
/// branch. `spawn` starts this client's server process (at most one within the horizon: the real
/// spawn cooldown is 500 ms).
fn client_loop(ctx: &ActorCtx, w: &Shared, spawn: &dyn Fn()) -> Result<u32, String> {
    let mut invalid_since: Option<u32> = None;
    let mut now = 0u32;
    let mut spawned = false;
    loop {
        let meta = read_authority_meta(&w.data)?;
        if let Some(meta) = meta {
            invalid_since = None;
            if meta.workspace_root != ROOT {
                return Err("workspace mismatch".into());
            }
            if w.ping(meta.pid) {
                return Ok(meta.pid);
            }
            if matches!(pid_liveness(meta.pid), PidLiveness::Dead) {
                let cleaned = try_cleanup_stale_authority_files(&w.data, meta.pid, meta.started_at_ms)?;
                if cleaned {
                    continue;
                }
            }
        } else if ripd::authority_lock_path(&w.data).exists() {
            match read_authority_lock_record(&w.data) {
                Ok(Some(lock)) => {
                    if lock.workspace_root != ROOT {
                        return Err("workspace mismatch".into());
                    }
                    invalid_since = None;
                    if matches!(pid_liveness(lock.pid), PidLiveness::Dead) {
                        let cleaned = try_cleanup_stale_authority_files(&w.data, lock.pid, lock.started_at_ms)?;
                        if cleaned {
                            continue;
                        }
                    }
                }
                Ok(None) => {}
                Err(err) => {
                    let since = *invalid_since.get_or_insert(now);
                    if err.contains("lock json invalid") && now - since >= GRACE && grace_may_elapse(Some(ctx)) {
                        let cleaned = try_cleanup_corrupt_lock_file(&w.data)?;
                        if cleaned {
                            invalid_since = None;
                            continue;
                        }
                    }
                }
            }
        } else {
            invalid_since = None;
            if !spawned {
                spawn();
                spawned = true;
                continue;
            }
        }
        if now >= CLIENT_DEADLINE {
            return Err("timed out waiting for local authority".into());
        }
        sleep(Some(ctx), &mut now);
    }
}

fn write_leftover(data: &PathBuf, leftover: Leftover) {
    let lock = AuthorityLockRecord { pid: DEAD_PID, started_at_ms: 1, workspace_root: ROOT.into() };
    let meta = AuthorityMeta { endpoint: "http://dead".into(), pid: DEAD_PID, started_at_ms: 1, workspace_root: ROOT.into() };
    let lock_line = format!("{}\n", serde_json::to_string(&lock).unwrap());
    let lock_path = ripd::authority_lock_path(data);
    let meta_path = ripd::authority_meta_path(data);
    match leftover {
        Leftover::Empty => {}
        Leftover::DeadLock => std::fs::write(lock_path, lock_line).unwrap(),
        Leftover::DeadLockAndMeta => {
            std::fs::write(lock_path, lock_line).unwrap();
            std::fs::write(meta_path, serde_json::to_string(&meta).unwrap()).unwrap();
        }
        Leftover::DeadMetaOnly => std::fs::write(meta_path, serde_json::to_string(&meta).unwrap()).unwrap(),
        Leftover::HalfLock => std::fs::write(lock_path, "").unwrap(),
        Leftover::TornLock => std::fs::write(lock_path, &lock_line[..lock_line.len() / 2]).unwrap(),
        Leftover::TornLockAndDeadMeta => {
            std::fs::write(lock_path, &lock_line[..lock_line.len() / 2]).unwrap();
            std::fs::write(meta_path, serde_json::to_string(&meta).unwrap()).unwrap();
        }
        Leftover::DeadLockAndOlderDeadMeta => {
            std::fs::write(lock_path, lock_line).unwrap();
            let older = AuthorityMeta { endpoint: "http://older-dead".into(), pid: OLDER_DEAD_PID, started_at_ms: 0, workspace_root: ROOT.into() };
            std::fs::write(meta_path, serde_json::to_string(&older).unwrap()).unwrap();
        }
    }
}

/// Server body: recovery loop, then (on success) record the role, advertise the endpoint, serve.
/// `release` = shut down right after serving (guard drop with its two file removals).
fn server_body(ctx: &ActorCtx, w: &Arc<Shared>, id: usize, release: bool) {
    match server_loop(Some(ctx), w) {
        Ok(guard) => {
            // a crash inside write_meta must not run the guard's Drop (a dead process removes nothing)
            let guard = ManuallyDrop::new(guard);
            w.events.lock().unwrap().push((id, Ev::Acquired, ctx.step_index()));
            let _ = guard.write_meta(format!("http://pid-{}", BASE_PID + id as u32));
            w.serving[id].store(true, Ordering::SeqCst);
            let guard = ManuallyDrop::into_inner(guard);
            if release {
                ctx.yield_now("auth.serve");
                w.serving[id].store(false, Ordering::SeqCst);
                w.events.lock().unwrap().push((id, Ev::Releasing, ctx.step_index()));
                drop(guard);
            } else {
                w.guards.lock().unwrap().push(guard);
            }
        }
        Err(e) => w.gave_up.lock().unwrap().push((id, e)),
    }
}

fn make_world(sc: Scenario) -> (World, Vec<ActorBody>) {
    let dir = scratch_dir("c18");
    let data = dir.path().join("data");
    std::fs::create_dir_all(ripd::authority_dir(&data)).unwrap();
    // actor table: (kind, ...) per scenario
    #[derive(Clone, Copy)]
    enum Kind {
        Server { release: bool, crash_at: Option<usize>, wait_spawn: bool },
        /// already holds the role when the execution starts
        Holder { release: bool },
        Client { server: usize },
    }
    let mut kinds: Vec<Kind> = Vec::new();
    let mut leftover = Leftover::Empty;
    let mut holder_answers = true;
    let mut holder_foreign = false;
    match sc {
        Scenario::Contend { leftover: l, servers } => {
            leftover = l;
            for _ in 0..servers {
                kinds.push(Kind::Server { release: false, crash_at: None, wait_spawn: false });
            }
        }
        Scenario::LiveHolder { reachable, foreign, servers } => {
            holder_answers = reachable;
            holder_foreign = foreign;
            kinds.push(Kind::Holder { release: false });
            for _ in 0..servers {
                kinds.push(Kind::Server { release: false, crash_at: None, wait_spawn: false });
            }
        }
        Scenario::Releasing { servers } => {
            kinds.push(Kind::Holder { release: true });
            for _ in 0..servers {
                kinds.push(Kind::Server { release: false, crash_at: None, wait_spawn: false });
            }
        }
        Scenario::Crashing { at_hook, servers } => {
            kinds.push(Kind::Server { release: false, crash_at: Some(at_hook), wait_spawn: false });
            for _ in 0..servers {
                kinds.push(Kind::Server { release: false, crash_at: None, wait_spawn: false });
            }
        }
        Scenario::Clients { leftover: l, clients, servers } => {
            leftover = l;
            for c in 0..clients {
                kinds.push(Kind::Client { server: clients + c });
            }
            for _ in 0..clients {
                kinds.push(Kind::Server { release: false, crash_at: None, wait_spawn: true });
            }
            for _ in 0..servers {
                kinds.push(Kind::Server { release: false, crash_at: None, wait_spawn: false });
            }
        }
    }
    write_leftover(&data, leftover);
    let n = kinds.len();
    let n_clients = kinds.iter().filter(|k| matches!(k, Kind::Client { .. })).count();
    let shared = Arc::new(Shared {
        data: data.clone(),
        n,
        events: Mutex::new(Vec::new()),
        dead: (0..n).map(|_| Arc::new(AtomicBool::new(false))).collect(),
        serving: (0..n).map(|_| AtomicBool::new(false)).collect(),
        answers: (0..n).map(|i| AtomicBool::new(i != 0 || holder_answers)).collect(),
        holder_foreign,
        spawned: (0..n).map(|_| AtomicBool::new(false)).collect(),
        clients_left: AtomicUsize::new(n_clients),
        guards: Mutex::new(Vec::new()),
        gave_up: Mutex::new(Vec::new()),
    });
    // a holder that exists before the execution starts acquires here (sequentially, seams on)
    let mut pre_guard: Option<AuthorityLockGuard> = None;
    if matches!(kinds.first(), Some(Kind::Holder { .. })) {
        crate::sched::set_thread_env(Some(Box::new(Env::new(BASE_PID, shared.clone()))));
        let g = AuthorityLockGuard::try_acquire(&data, ROOT).expect("holder acquires an empty store");
        g.write_meta(format!("http://pid-{BASE_PID}")).expect("holder meta");
        crate::sched::set_thread_env(None);
        shared.serving[0].store(true, Ordering::SeqCst);
        shared.events.lock().unwrap().push((0, Ev::Acquired, 0));
        pre_guard = Some(g);
    }
    let mut actors: Vec<ActorBody> = Vec::new();
    for (id, kind) in kinds.into_iter().enumerate() {
        let w = shared.clone();
        let pid = BASE_PID + id as u32;
        let pre = if id == 0 { pre_guard.take() } else { None };
        actors.push(Box::new(move |ctx: &ActorCtx| {
            ctx.set_env(Box::new(Env::new(pid, w.clone())));
            match kind {
                Kind::Holder { release } => {
                    let guard = pre.expect("holder guard");
                    if release {
                        ctx.yield_now("auth.serve");
                        w.serving[id].store(false, Ordering::SeqCst);
                        w.events.lock().unwrap().push((id, Ev::Releasing, ctx.step_index()));
                        drop(guard);
                    } else {
                        w.guards.lock().unwrap().push(guard);
                    }
                }
                Kind::Server { release, crash_at, wait_spawn } => {
                    if wait_spawn {
                        let w2 = w.clone();
                        ctx.yield_until("auth.spawned", &move || w2.spawned[id].load(Ordering::SeqCst) || w2.clients_left.load(Ordering::SeqCst) == 0);
                        if !w.spawned[id].load(Ordering::SeqCst) {
                            return; // its client never needed it
                        }
                    }
                    if let Some(k) = crash_at {
                        ctx.crash_at_hook(k, w.dead[id].clone());
                    }
                    server_body(ctx, &w, id, release);
                }
                Kind::Client { server } => {
                    let w2 = w.clone();
                    let res = client_loop(ctx, &w, &move || w2.spawned[server].store(true, Ordering::SeqCst));
                    match res {
                        Ok(pid) => w.events.lock().unwrap().push((id, Ev::Attached(pid), ctx.step_index())),
                        Err(e) => w.gave_up.lock().unwrap().push((id, e)),
                    }
                    w.clients_left.fetch_sub(1, Ordering::SeqCst);
                }
            }
        }));
    }
    (World { _dir: dir, shared }, actors)
}

fn scenario_label(sc: Scenario) -> String {
    match sc {
        Scenario::Contend { leftover, servers } => format!("{leftover:?}x{servers}"),
        Scenario::LiveHolder { reachable, foreign, servers } => format!("LiveHolder({}{})x{servers}", if reachable { "reachable" } else { "hung" }, if foreign { ",other_uid" } else { "" }),
        Scenario::Releasing { servers } => format!("Releasingx{servers}"),
        Scenario::Crashing { at_hook, servers } => format!("CrashAtHook{at_hook}x{servers}"),
        Scenario::Clients { leftover, clients, servers } => format!("Clients{clients}+{servers}:{leftover:?}"),
    }
}

fn scenario_json(sc: Scenario) -> Value {
    match sc {
        Scenario::Contend { leftover, servers } => json!({"kind": "contend", "leftover": format!("{leftover:?}"), "servers": servers}),
        Scenario::LiveHolder { reachable, foreign, servers } => json!({"kind": "live_holder", "reachable": reachable, "foreign": foreign, "servers": servers}),
        Scenario::Releasing { servers } => json!({"kind": "releasing", "servers": servers}),
        Scenario::Crashing { at_hook, servers } => json!({"kind": "crashing", "at_hook": at_hook, "servers": servers}),
        Scenario::Clients { leftover, clients, servers } => json!({"kind": "clients", "leftover": format!("{leftover:?}"), "clients": clients, "servers": servers}),
    }
}

fn parse_leftover(s: &str) -> Leftover {
    LEFTOVERS.iter().copied().find(|l| format!("{l:?}") == s).unwrap_or(Leftover::Empty)
}

fn scenario_from_json(v: &Value) -> Scenario {
    let servers = v["servers"].as_u64().unwrap_or(2) as usize;
    match v["kind"].as_str().unwrap_or("contend") {
        "live_holder" => Scenario::LiveHolder { reachable: v["reachable"].as_bool().unwrap_or(true), foreign: v["foreign"].as_bool().unwrap_or(false), servers },
        "releasing" => Scenario::Releasing { servers },
        "crashing" => Scenario::Crashing { at_hook: v["at_hook"].as_u64().unwrap_or(0) as usize, servers },
        "clients" => Scenario::Clients { leftover: parse_leftover(v["leftover"].as_str().unwrap_or("")), clients: v["clients"].as_u64().unwrap_or(2) as usize, servers },
        _ => Scenario::Contend { leftover: parse_leftover(v["leftover"].as_str().unwrap_or("")), servers },
    }
}

/// The step at which actor `a` died: its (k+1)-th `point` hook (the retry sleep and the harness'
/// own yields are not `point` hooks) or, at system-call granularity, its (k+1)-th system call.
fn death_step(exec: &Exec, a: usize, k: usize, sys: bool) -> Option<usize> {
    exec.steps
        .iter()
        .enumerate()
        .filter(|(_, s)| {
            s.actor == a
                && if sys { s.name.starts_with("fs.") } else { s.name.starts_with("auth.") && !matches!(s.name.as_str(), "auth.retry_sleep" | "auth.serve" | "auth.spawned") }
        })
        .nth(k)
        .map(|(i, _)| i)
}

/// A source hook, as a scheduling step (hook granularity) or as a mark (system-call granularity).
fn is_hook(s: &crate::sched::Step, hook: &str) -> bool {
    s.name == hook || (s.name.len() == hook.len() + 1 && s.name.starts_with('@') && &s.name[1..] == hook)
}

/// Another actor (one that ends up with the role) linked its lock.json into place between `b`'s
/// (re-)validation `check` and the rename that follows its `rename` hook.
fn create_inside_window(exec: &Exec, check: &str, rename: &str, victims: &[usize], sys: bool) -> bool {
    let st = &exec.steps;
    for j in 0..st.len() {
        if !is_hook(&st[j], rename) {
            continue;
        }
        let b = st[j].actor;
        let Some(i) = (0..j).rev().find(|&i| st[i].actor == b && is_hook(&st[i], check)) else { continue };
        // the rename itself: at system-call granularity it is b's next rename call after the mark
        let end = if sys { (j + 1..st.len()).find(|&m| st[m].actor == b && st[m].name.starts_with("fs.rename")).unwrap_or(st.len()) } else { j };
        for m in i + 1..end {
            if st[m].actor == b || !victims.contains(&st[m].actor) {
                continue;
            }
            if sys {
                // the link call itself lies in the window; it succeeded iff that actor's next mark
                // is the one behind the link
                if st[m].name.starts_with("fs.linkat") && st[m + 1..].iter().find(|s| s.actor == st[m].actor && s.name.starts_with('@')).map(|s| is_hook(s, "auth.acquire.created")).unwrap_or(false) {
                    return true;
                }
            } else if st[m].name == "auth.acquire.create" {
                // the link succeeded iff that actor's next step is the hook behind it
                if st[m + 1..].iter().find(|s| s.actor == st[m].actor).map(|s| s.name == "auth.acquire.created").unwrap_or(false) {
                    return true;
                }
            }
        }
    }
    false
}

fn check_exec(report: &Report, sc: Scenario, world: &World, exec: &Exec, sys: bool) {
    let w = &world.shared;
    let case = || {
        json!({
            "engine": "S",
            "harness": "c18.authority",
            "granularity": if sys { "system calls" } else { "source hooks" },
            "scenario": scenario_json(sc),
            "choice_points_only": exec.decisions.iter().filter(|d| d.enabled.len() > 1).map(|d| d.chosen).collect::<Vec<_>>(),
            "schedule": exec.schedule_string(),
            "preemptions": exec.preemptions,
        })
    };
    let label = format!("{}{}", scenario_label(sc), if sys { "@syscalls" } else { "" });
    if exec.deadlock || !exec.panicked.is_empty() {
        report.violation(&format!("C18:deadlock_or_panic:{label}"), case(), &format!("deadlock={} panicked={:?}", exec.deadlock, exec.panicked));
        return;
    }
    // role intervals [acquired, released-or-died)
    let events = w.events.lock().unwrap().clone();
    let mut intervals: Vec<(usize, usize, usize)> = Vec::new(); // (actor, from, to)
    for (a, ev, at) in &events {
        if *ev != Ev::Acquired {
            continue;
        }
        let mut end = usize::MAX;
        if let Some((_, _, r)) = events.iter().find(|(b, e, _)| b == a && *e == Ev::Releasing) {
            end = *r;
        }
        if let Scenario::Crashing { at_hook, .. } = sc {
            if *a == 0 && w.dead[0].load(Ordering::SeqCst) {
                if let Some(d) = death_step(exec, 0, at_hook, sys) {
                    end = end.min(d);
                }
            }
        }
        intervals.push((*a, *at, end));
    }
    let role_actors: Vec<usize> = intervals.iter().map(|iv| iv.0).collect();
    // How a lock was lost, if it was: the two known time-of-check / time-of-use windows (a lock is
    // re-validated, another actor cleans up and acquires, the re-validated lock is renamed) are
    // told apart from every other way of getting there.
    let class = if create_inside_window(exec, "auth.stale.reread", "auth.stale.rename", &role_actors, sys) {
        "stale_cleanup_toctou"
    } else if create_inside_window(exec, "auth.corrupt.check", "auth.corrupt.rename", &role_actors, sys) {
        "corrupt_cleanup_toctou"
    } else if exec.steps.iter().any(|s| is_hook(s, "auth.corrupt.rename")) {
        "via_corrupt_cleanup"
    } else if exec.steps.iter().any(|s| is_hook(s, "auth.stale.rename")) {
        "via_stale_cleanup"
    } else {
        "acquire"
    };
    for (i, x) in intervals.iter().enumerate() {
        for y in &intervals[i + 1..] {
            if x.1 < y.2 && y.1 < x.2 {
                report.violation(
                    &format!("C18:{class}:two_authorities:{label}"),
                    case(),
                    &format!("pids {} and {} hold the authority role at the same time (role intervals in steps: {:?})", BASE_PID + x.0 as u32, BASE_PID + y.0 as u32, intervals),
                );
                return;
            }
        }
    }
    // at the end: the live holder's files are its own; nobody else's files were taken
    let live: Vec<usize> = intervals.iter().filter(|iv| iv.2 == usize::MAX).map(|iv| iv.0).collect();
    if let [h] = live[..] {
        let pid = BASE_PID + h as u32;
        match read_authority_lock_record(&w.data) {
            Ok(Some(rec)) if rec.pid == pid => {}
            other => report.violation(&format!("C18:{class}:live_lock_taken:{label}"), case(), &format!("pid {pid} holds the role but lock.json is {:?}", other.map(|o| o.map(|r| r.pid)))),
        }
        match read_authority_meta(&w.data) {
            Ok(Some(m)) if m.pid == pid => {}
            other => report.violation(&format!("C18:{class}:live_meta_taken:{label}"), case(), &format!("pid {pid} serves but meta.json is {:?}", other.map(|o| o.map(|r| r.pid)))),
        }
    }
    // a client only ever attaches to the actor that held the role at that moment
    for (c, ev, at) in &events {
        if let Ev::Attached(pid) = ev {
            let a = (*pid - BASE_PID) as usize;
            if !intervals.iter().any(|iv| iv.0 == a && iv.1 <= *at && *at <= iv.2) {
                report.violation(&format!("C18:client_attached_to_non_authority:{label}"), case(), &format!("client {c} attached to pid {pid} at step {at}; role intervals {:?}", intervals));
            }
        }
    }
    // contenders on a dead owner's leftovers: somebody must end up with the store
    if let Scenario::Contend { .. } = sc {
        if live.is_empty() {
            let why: Vec<String> = w.gave_up.lock().unwrap().iter().map(|(p, e)| format!("{p}: {e}")).collect();
            report.violation(&format!("C18:store_not_recovered:{label}"), case(), &format!("no contender acquired the store: {:?}", why));
        }
    }
    // from every final state a fresh, single contender either defers to the live holder (and leaves
    // its files alone) or recovers the store
    let before_lock = std::fs::read(ripd::authority_lock_path(&w.data)).ok();
    let before_meta = std::fs::read(ripd::authority_meta_path(&w.data)).ok();
    crate::sched::set_thread_env(Some(Box::new(Env::new(BASE_PID + 900, w.clone()))));
    let late = server_loop(None, w);
    crate::sched::set_thread_env(None);
    match (&late, live.len()) {
        (Ok(_), 0) => {}
        (Err(_), 1) => {
            if std::fs::read(ripd::authority_lock_path(&w.data)).ok() != before_lock || std::fs::read(ripd::authority_meta_path(&w.data)).ok() != before_meta {
                report.violation(&format!("C18:late_contender_touched_live_files:{label}"), case(), "a late contender changed the live holder's lock or meta");
            }
        }
        (Ok(_), _) => {
            let hung = matches!(sc, Scenario::LiveHolder { reachable: false, .. });
            report.violation(
                &format!("C18:{class}:two_authorities_late_contender{}:{label}", if hung { ":hung_holder" } else { "" }),
                case(),
                &format!("a contender arriving after the execution acquired the store although pid {} still holds it", BASE_PID + live[0] as u32),
            );
        }
        (Err(e), _) => {
            report.violation(&format!("C18:store_not_recoverable:{label}"), case(), &format!("no authority is left, yet a fresh contender cannot acquire the store: {e}"));
        }
    }
    if let Ok(g) = late {
        // release outside the scheduler (hooks pass through on this thread)
        drop(g);
    }
}

fn run_config(report: &Report, sc: Scenario, bound: usize, sys: bool) {
    let mut outcomes = std::collections::HashSet::new();
    let label = format!("{}{}", scenario_label(sc), if sys { "@syscalls" } else { "" });
    let filter: Vec<&'static str> = if sys { SYS_FILTER.to_vec() } else { vec!["start", "auth.*"] };
    let stats = {
        let oc = &mut outcomes;
        explore(
            bound,
            u64::MAX,
            false,
            Some(filter.clone()),
            &|| report.over_cap(),
            &|| make_world(sc),
            &mut |world: &World, exec: &Exec| {
                report.eval(Some(&(sc, sys, exec.trace_hash())));
                let roles: Vec<(usize, Ev)> = world.shared.events.lock().unwrap().iter().map(|(a, e, _)| (*a, e.clone())).collect();
                oc.insert(format!("{roles:?}"));
                check_exec(report, sc, world, exec, sys);
                // drop guards without yielding into the (finished) scheduler
                world.shared.guards.lock().unwrap().clear();
            },
        )
    };
    report.add_states(stats.distinct_traces.len() as u64, stats.steps);
    report.add_traces_validated(stats.executions);
    report.count("executions", stats.executions);
    report.count(&format!("executions[{label}]"), stats.executions);
    report.count(&format!("distinct_outcomes[{label}]"), outcomes.len() as u64);
    report.max_counter("max_choice_points", stats.max_decisions as u64);
    if stats.capped {
        report.not_exhaustive(&format!("{label}: wall cap hit after {} executions at bound {bound}", stats.executions));
    }
}

pub fn replay(report: &Report, case: &Value) {
    let sc = if case.get("scenario").is_some() {
        scenario_from_json(&case["scenario"])
    } else {
        // replay files written before the scenario field existed
        Scenario::Contend { leftover: parse_leftover(case["leftover"].as_str().unwrap_or("")), servers: case["contenders"].as_u64().unwrap_or(2) as usize }
    };
    let sys = case["granularity"].as_str() == Some("system calls");
    if sys && !crate::sched::install_fs_callback() {
        crate::common::machinery_failure("replay of a system-call schedule needs the shim (the parent re-executes itself with LD_PRELOAD)");
    }
    let filter: Vec<&'static str> = if sys { SYS_FILTER.to_vec() } else { vec!["start", "auth.*"] };
    let prefix: Vec<usize> = case["choice_points_only"].as_array().map(|a| a.iter().filter_map(|v| v.as_u64().map(|x| x as usize)).collect()).unwrap_or_default();
    let mut first: Option<Vec<String>> = None;
    for round in 0..2 {
        let (world, actors) = make_world(sc);
        let exec = crate::sched::run_once(actors, &prefix, false, Some(filter.clone()));
        println!("replay round {round}: {:?}\nrole events: {:?}", exec.schedule_string(), world.shared.events.lock().unwrap());
        match &first {
            None => first = Some(exec.schedule_string()),
            Some(f) if *f != exec.schedule_string() => crate::common::machinery_failure("replay not deterministic"),
            _ => {}
        }
        if round == 1 {
            report.eval(Some(&"replay"));
            check_exec(report, sc, &world, &exec, sys);
        }
        world.shared.guards.lock().unwrap().clear();
    }
}

const SYS_FILTER: [&str; 7] = ["start", "fs.*", "auth.retry_sleep", "auth.serve", "auth.spawned", "@marks", "@stalls"];

fn shim_env() -> Vec<(String, String)> {
    vec![
        ("LD_PRELOAD".to_string(), format!("{}/target/crashshim.so", crate::common::VERIF_DIR)),
        ("RIPV_PREFIX".to_string(), "/dev/shm/rip-verif/c18".to_string()),
    ]
}

/// Worker under the shim: one scenario at system-call granularity.
fn sys_worker(opts: Opts, spec: &str) -> i32 {
    let report = Report::new("C18", "model_checking", opts.clone());
    if !crate::sched::install_fs_callback() {
        crate::common::machinery_failure("c18 system-call worker: the shim is not preloaded");
    }
    crate::sched::install_hooks();
    let v: Value = serde_json::from_str(spec).unwrap_or(Value::Null);
    if let Some(path) = v["replay"].as_str() {
        let case = crate::common::load_replay_case(std::path::Path::new(path));
        replay(&report, &case);
        return report.finish();
    }
    let sc = scenario_from_json(&v["scenario"]);
    let bound = v["bound"].as_u64().unwrap_or(1) as usize;
    run_config(&report, sc, bound, true);
    report.finish()
}

/// Upper bound on the file-system calls a server makes until it serves (crash points beyond a
/// run's last call simply never fire).
const SERVER_SYSCALLS_MAX: usize = 26;

/// Number of `point` hooks a lone server passes on an empty store (record write, link, linked,
/// meta tmp, meta rename).
const SERVER_HOOKS: usize = 5;

pub fn run(opts: Opts) -> i32 {
    if let Some(spec) = opts.extra.iter().find_map(|a| a.strip_prefix("sys=")) {
        let spec = spec.to_string();
        return sys_worker(opts, &spec);
    }
    let report = Report::new("C18", "model_checking", opts.clone());
    report.set_rule(
        "engine S over the real lock primitives; scenarios: (a) 2 (thorough: also 3) servers x leftover {no files, lock / lock+meta / meta only of a dead \
         pid, empty lock file, torn lock record, torn lock + dead meta}; (b) a live holder (reachable or hung) + 2 servers; (c) a holder shutting \
         down (guard drop) + 2 servers; (d) a server that dies before the effect after each of its hooks (private record write, link, after the link, meta \
         tmp, meta rename) + 2 servers; (e) 2 clients (attach / stale + corrupt cleanup / spawn own server; <=1 preemption in quick) or 1 client + 1 independent server x \
         leftover (thorough: also 2 clients + 1 server, <=1 preemption); all interleavings at the file-system step hooks of acquire / stale cleanup / corrupt cleanup / meta write / release with <=2 \
         (quick) / <=3 (thorough; 2 for 3+ contenders) preemptions; after every execution a fresh sequential contender runs on the final files; then scenarios (a)-(d) again with EVERY file-system call of the \
         primitives (open, read, stat, link, rename, unlink, write, mkdir) as the scheduling points and crash points, under an LD_PRELOAD shim, with \
         <=1 (quick) / <=2 (thorough) preemptions; conformance part: four scenario traces (three servers at once on an empty store; authority killed, then a new server; orderly shutdown, then a new server; shutdown with a request in flight and a contender starting inside the drain) replayed against REAL `rip serve` processes, lock.json / meta.json / process liveness sampled every 10 ms; \
         state = distinct executed schedule",
    );
    report.assume("the server loop is the real acquire_authority_lock_with_recovery behind clock, reachability, liveness and retry-sleep seams; the client ensure_local_authority loop (bin crate) is restated branch by branch in the harness over the public primitives; pid reuse and clock skew are outside the model");
    report.assume("time = number of retry sleeps of the observing actor; grace 1 sleep, server deadline 3, client deadline 4, one spawn per client (order of the real constants kept); time is otherwise unconstrained (a grace period or deadline may elapse at any point of any schedule)");
    report.assume("liveness and reachability are functions of the harness' actor table: an actor is alive until its injected crash, reachable while it serves (after its meta write, before its release); the leftover owner (pid 999) is dead");
    crate::sched::install_hooks();
    if let Some(path) = &opts.replay {
        let case = crate::common::load_replay_case(path);
        if case["harness"] == "c18.processes" {
            rip_kernel::verif::clear();
            *report.replay_case_slot() = Some(crate::common::normalise_case(&case));
            crate::c18proc::run(&report);
            return report.finish();
        }
        if case["granularity"].as_str() == Some("system calls") {
            crate::common::run_workers(&report, vec![vec!["c18".into(), "--tier".into(), report.tier().as_str().into(), format!("sys={}", json!({"replay": path.to_string_lossy()}))]], 1, &shim_env());
        } else {
            replay(&report, &case);
        }
        return report.finish();
    }
    let tier = report.tier();
    let b2 = tier.pick(2, 3);
    let mut configs: Vec<(Scenario, usize)> = Vec::new();
    for l in LEFTOVERS {
        configs.push((Scenario::Contend { leftover: l, servers: 2 }, b2));
        if tier == Tier::Thorough {
            configs.push((Scenario::Contend { leftover: l, servers: 3 }, 2));
        }
    }
    for reachable in [true, false] {
        for foreign in [false, true] {
            configs.push((Scenario::LiveHolder { reachable, foreign, servers: 2 }, b2));
        }
    }
    configs.push((Scenario::Releasing { servers: 2 }, b2));
    for k in 0..SERVER_HOOKS {
        configs.push((Scenario::Crashing { at_hook: k, servers: 2 }, b2));
    }
    for l in LEFTOVERS {
        configs.push((Scenario::Clients { leftover: l, clients: 2, servers: 0 }, tier.pick(1, 2)));
        configs.push((Scenario::Clients { leftover: l, clients: 1, servers: 1 }, 2));
        if tier == Tier::Thorough {
            configs.push((Scenario::Clients { leftover: l, clients: 2, servers: 1 }, 1));
        }
    }
    report.set_extra("configs", json!(configs.len()));
    report.sample(json!({"scenario": scenario_json(configs[1].0), "bound": configs[1].1}));
    report.sample(json!({"scenario": scenario_json(Scenario::Crashing { at_hook: 1, servers: 2 }), "bound": b2}));
    report.sample(json!({"scenario": scenario_json(Scenario::Clients { leftover: Leftover::HalfLock, clients: 2, servers: 0 }), "bound": 2}));
    configs.par_iter().for_each(|(sc, b)| {
        if report.over_cap() {
            return;
        }
        run_config(&report, *sc, *b, false);
    });
    // the same protocol with EVERY file-system call of the primitives as a scheduling point (and as
    // a crash point), under the system-call shim: independent of where the source hooks sit
    let bs = tier.pick(1, 2);
    let mut sys_configs: Vec<(Scenario, usize)> = Vec::new();
    for l in LEFTOVERS {
        sys_configs.push((Scenario::Contend { leftover: l, servers: 2 }, bs));
    }
    sys_configs.push((Scenario::LiveHolder { reachable: true, foreign: false, servers: 2 }, bs));
    sys_configs.push((Scenario::LiveHolder { reachable: false, foreign: true, servers: 2 }, bs));
    sys_configs.push((Scenario::Releasing { servers: 2 }, bs));
    for k in 0..SERVER_SYSCALLS_MAX {
        sys_configs.push((Scenario::Crashing { at_hook: k, servers: tier.pick(1, 2) }, bs));
    }
    if tier == Tier::Thorough {
        for l in LEFTOVERS {
            sys_configs.push((Scenario::Clients { leftover: l, clients: 1, servers: 1 }, 1));
        }
    }
    report.set_extra("configs_at_system_call_granularity", json!(sys_configs.len()));
    let jobs: Vec<Vec<String>> = sys_configs
        .iter()
        .map(|(sc, b)| vec!["c18".to_string(), "--tier".into(), tier.as_str().into(), "--wall-cap".into(), format!("{}", report.opts.wall_cap_s), format!("sys={}", json!({"scenario": scenario_json(*sc), "bound": b}))])
        .collect();
    crate::common::run_workers(&report, jobs, 16, &shim_env());
    // conformance part: scenario traces replayed against real `rip serve` processes (the loops the
    // harness restates, run for real); no scheduler hooks
    rip_kernel::verif::clear();
    crate::c18proc::run(&report);
    report.finish()
}
