//! C18 — a store never has two authorities; a live authority's lock is never taken.
//!
//! Engine S: 2 (thorough: 3) contenders run the recovery protocol over the REAL lock primitives
//! (try_acquire, read_authority_meta, read_authority_lock_record, pid_liveness,
//! try_cleanup_stale_authority_files, write_meta) from every leftover state, explored over all
//! interleavings at the file-system step hooks up to a preemption bound. Seams give every actor its
//! own pid and make liveness / reachability a function of the harness' actor table.

use std::path::PathBuf;
use std::sync::{Arc, Mutex};

use rayon::prelude::*;
use ripd::{
    pid_liveness, read_authority_lock_record, read_authority_meta, try_cleanup_stale_authority_files, AuthorityLockGuard, AuthorityLockRecord,
    AuthorityMeta, PidLiveness,
};
use serde_json::{json, Value};

use crate::common::{scratch_dir, Opts, Report, Tier};
use crate::sched::{explore, ActorBody, ActorCtx, ActorEnv, Exec};

const DEAD_PID: u32 = 999;

#[derive(Clone, Copy, Debug, PartialEq, Eq, Hash)]
enum Leftover {
    Empty,
    DeadLock,
    DeadLockAndMeta,
    DeadMetaOnly,
}

struct Env {
    pid: u32,
}

impl ActorEnv for Env {
    fn pid(&self) -> Option<u32> {
        Some(self.pid)
    }
    fn pid_alive(&self, pid: u32) -> Option<bool> {
        Some(pid >= 1000) // actors are alive for the whole execution; the leftover owner is gone
    }
}

struct World {
    _dir: tempfile::TempDir,
    data: PathBuf,
    acquired: Arc<Mutex<Vec<u32>>>,
    guards: Arc<Mutex<Vec<AuthorityLockGuard>>>,
    gave_up: Arc<Mutex<Vec<(u32, String)>>>,
}

const HORIZON: usize = 5;

/// The server's recovery loop (`acquire_authority_lock_with_recovery`), restated over the public
/// primitives: the loop itself is private, async and bound to reqwest; its control flow is small.
fn recovery_loop(ctx: &ActorCtx, data: &PathBuf, root: &str, pid: u32) -> Result<AuthorityLockGuard, String> {
    for _ in 0..HORIZON {
        match AuthorityLockGuard::try_acquire(data, root) {
            Ok(lock) => return Ok(lock),
            Err(err) => {
                let meta = read_authority_meta(data).unwrap_or(None);
                // reachable iff the endpoint's owner is a live actor (its endpoint encodes its pid)
                let reachable = meta.as_ref().map(|m| m.pid >= 1000).unwrap_or(false);
                if reachable {
                    return Err(format!("store already has an authority (pid {})", meta.unwrap().pid));
                }
                match read_authority_lock_record(data) {
                    Ok(Some(lock)) => {
                        if lock.workspace_root != root {
                            return Err("workspace mismatch".into());
                        }
                        if matches!(pid_liveness(lock.pid), PidLiveness::Dead) && !reachable {
                            let cleaned = try_cleanup_stale_authority_files(data, lock.pid, lock.started_at_ms)?;
                            if cleaned {
                                continue;
                            }
                        }
                        return Err(err);
                    }
                    Ok(None) => {}
                    Err(_) => {} // half-written lock: the grace-gated branch never elapses within an execution
                }
                ctx.yield_now("auth.retry_sleep");
            }
        }
    }
    let _ = pid;
    Err("horizon".into())
}

fn make_world(leftover: Leftover, contenders: usize) -> (World, Vec<ActorBody>) {
    let dir = scratch_dir("c18");
    let data = dir.path().join("data");
    let auth = ripd::authority_dir(&data);
    std::fs::create_dir_all(&auth).unwrap();
    let root = "/workspace".to_string();
    let lock = AuthorityLockRecord { pid: DEAD_PID, started_at_ms: 1, workspace_root: root.clone() };
    let meta = AuthorityMeta { endpoint: "http://dead".into(), pid: DEAD_PID, started_at_ms: 1, workspace_root: root.clone() };
    match leftover {
        Leftover::Empty => {}
        Leftover::DeadLock => std::fs::write(ripd::authority_lock_path(&data), format!("{}\n", serde_json::to_string(&lock).unwrap())).unwrap(),
        Leftover::DeadLockAndMeta => {
            std::fs::write(ripd::authority_lock_path(&data), format!("{}\n", serde_json::to_string(&lock).unwrap())).unwrap();
            std::fs::write(ripd::authority_meta_path(&data), serde_json::to_string(&meta).unwrap()).unwrap();
        }
        Leftover::DeadMetaOnly => std::fs::write(ripd::authority_meta_path(&data), serde_json::to_string(&meta).unwrap()).unwrap(),
    }
    let acquired = Arc::new(Mutex::new(Vec::new()));
    let guards = Arc::new(Mutex::new(Vec::new()));
    let gave_up = Arc::new(Mutex::new(Vec::new()));
    let mut actors: Vec<ActorBody> = Vec::new();
    for i in 0..contenders {
        let pid = 1000 + i as u32;
        let data = data.clone();
        let root = root.clone();
        let acquired = acquired.clone();
        let guards = guards.clone();
        let gave_up = gave_up.clone();
        actors.push(Box::new(move |ctx: &ActorCtx| {
            ctx.set_env(Box::new(Env { pid }));
            match recovery_loop(ctx, &data, &root, pid) {
                Ok(guard) => {
                    acquired.lock().unwrap().push(pid);
                    let _ = guard.write_meta(format!("http://pid-{pid}"));
                    // the authority keeps running: the guard is held until the execution ends
                    guards.lock().unwrap().push(guard);
                }
                Err(e) => gave_up.lock().unwrap().push((pid, e)),
            }
        }));
    }
    (World { _dir: dir, data, acquired, guards, gave_up }, actors)
}

fn check_exec(report: &Report, leftover: Leftover, contenders: usize, world: &World, exec: &Exec) {
    let case = || {
        json!({
            "engine": "S",
            "harness": "c18.authority",
            "leftover": format!("{leftover:?}"),
            "contenders": contenders,
            "choice_points_only": exec.decisions.iter().filter(|d| d.enabled.len() > 1).map(|d| d.chosen).collect::<Vec<_>>(),
            "schedule": exec.schedule_string(),
            "preemptions": exec.preemptions,
        })
    };
    let label = format!("{leftover:?}x{contenders}");
    if exec.deadlock || !exec.panicked.is_empty() {
        report.violation(&format!("C18:deadlock_or_panic:{label}"), case(), "deadlock or panic");
        return;
    }
    let holders = world.acquired.lock().unwrap().clone();
    if holders.len() > 1 {
        let in_cleanup = exec.steps.iter().any(|s| s.name == "auth.stale.rename");
        report.violation(
            &format!("C18:two_authorities:{}:{label}", if in_cleanup { "stale_cleanup_toctou" } else { "acquire" }),
            case(),
            &format!("pids {:?} all hold the authority role at once (guards are never released in this harness)", holders),
        );
        return;
    }
    if holders.len() == 1 {
        // the live owner's lock must still be there and name it
        match read_authority_lock_record(&world.data) {
            Ok(Some(rec)) if rec.pid == holders[0] => {}
            other => {
                report.violation(&format!("C18:live_lock_taken:{label}"), case(), &format!("pid {} holds the role but lock.json is {:?}", holders[0], other.map(|o| o.map(|r| r.pid))));
            }
        }
        match read_authority_meta(&world.data) {
            Ok(Some(m)) if m.pid == holders[0] => {}
            other => report.violation(&format!("C18:live_meta_taken:{label}"), case(), &format!("pid {} holds the role but meta.json is {:?}", holders[0], other.map(|o| o.map(|r| r.pid)))),
        }
    }
    if holders.is_empty() {
        let why: Vec<String> = world.gave_up.lock().unwrap().iter().map(|(p, e)| format!("{p}: {e}")).collect();
        // every leftover belongs to a dead owner: some contender must get the store
        if leftover != Leftover::DeadMetaOnly || true {
            report.violation(&format!("C18:store_not_recovered:{label}"), case(), &format!("no contender acquired the store within the horizon: {:?}", why));
        }
    }
    let _ = world.guards.lock().unwrap().len();
}

fn run_config(report: &Report, leftover: Leftover, contenders: usize, bound: usize) {
    let mut outcomes = std::collections::HashSet::new();
    let stats = {
        let oc = &mut outcomes;
        explore(
            bound,
            u64::MAX,
            false,
            Some(vec!["start", "auth.*"]),
            &|| report.over_cap(),
            &|| make_world(leftover, contenders),
            &mut |world: &World, exec: &Exec| {
                report.eval(Some(&(leftover, contenders, exec.trace_hash())));
                oc.insert(world.acquired.lock().unwrap().clone());
                check_exec(report, leftover, contenders, world, exec);
                // drop guards without yielding into the (finished) scheduler
                world.guards.lock().unwrap().clear();
            },
        )
    };
    report.add_states(stats.distinct_traces.len() as u64, stats.steps);
    report.add_traces_validated(stats.executions);
    report.count("executions", stats.executions);
    report.count(&format!("distinct_winners[{leftover:?}x{contenders}]"), outcomes.len() as u64);
    report.max_counter("max_choice_points", stats.max_decisions as u64);
    if stats.capped {
        report.not_exhaustive(&format!("{leftover:?}x{contenders}: wall cap hit after {} executions", stats.executions));
    }
}

pub fn replay(report: &Report, case: &Value) {
    let leftover = match case["leftover"].as_str().unwrap_or("") {
        "DeadLock" => Leftover::DeadLock,
        "DeadLockAndMeta" => Leftover::DeadLockAndMeta,
        "DeadMetaOnly" => Leftover::DeadMetaOnly,
        _ => Leftover::Empty,
    };
    let contenders = case["contenders"].as_u64().unwrap_or(2) as usize;
    let prefix: Vec<usize> = case["choice_points_only"].as_array().map(|a| a.iter().filter_map(|v| v.as_u64().map(|x| x as usize)).collect()).unwrap_or_default();
    let (world, actors) = make_world(leftover, contenders);
    let exec = crate::sched::run_once(actors, &prefix, false, Some(vec!["start", "auth.*"]));
    println!("replay: {:?}\nholders: {:?}", exec.schedule_string(), world.acquired.lock().unwrap());
    report.eval(Some(&"replay"));
    check_exec(report, leftover, contenders, &world, &exec);
    world.guards.lock().unwrap().clear();
}

pub fn run(opts: Opts) -> i32 {
    let report = Report::new("C18", "model_checking", opts.clone());
    report.set_rule(
        "engine S: 2 (quick) / 2 and 3 (thorough) contenders x leftover states {no files, lock of a dead pid, lock+meta of a dead pid, meta only of \
         a dead pid}, each running the recovery protocol over the real lock primitives and then holding the role; all interleavings at the \
         file-system step hooks of acquire / stale cleanup / meta write with <=2 (quick) / <=3 (thorough; 2 for 3 contenders) preemptions; \
         state = distinct executed schedule",
    );
    report.assume("the server's private async recovery loop is restated in the harness over the public primitives (same control flow: acquire, meta + reachability, lock record, liveness, stale cleanup, retry); the 1 s corrupt-lock grace branch never elapses within an execution and is not explored; pid reuse and clock skew are outside the model");
    report.assume("liveness and reachability are functions of the harness' actor table: actors are alive for the whole execution, the leftover owner (pid 999) is dead and unreachable");
    crate::sched::install_hooks();
    if let Some(path) = &opts.replay {
        let case = crate::common::load_replay_case(path);
        replay(&report, &case);
        return report.finish();
    }
    let tier = report.tier();
    let mut configs = Vec::new();
    for l in [Leftover::Empty, Leftover::DeadLock, Leftover::DeadLockAndMeta, Leftover::DeadMetaOnly] {
        configs.push((l, 2usize, tier.pick(2, 3)));
        if tier == Tier::Thorough {
            configs.push((l, 3usize, 2usize));
        }
    }
    report.sample(json!({"leftover": "DeadLock", "contenders": 2, "bound": tier.pick(2, 3)}));
    report.sample(json!({"leftover": "Empty", "contenders": 2}));
    configs.par_iter().for_each(|(l, n, b)| {
        if report.over_cap() {
            return;
        }
        run_config(&report, *l, *n, *b);
    });
    report.finish()
}
