//! C03 — replay fidelity: live frames, log, sidecar and snapshot are the same frames; every frame
//! shape survives a write/read round trip.
//!
//! Part a: bounded exhaustive enumeration of frame shapes (every EventKind variant x per-field
//! value domains) through serde, EventLog append/replay, snapshot write/read and a sidecar line.
//! Part b: bounded exhaustive enumeration of histories on the real store with subscribers attached
//! before acting; per stream live == log == sidecar == snapshot.

use std::sync::Arc;

use rayon::prelude::*;
use rip_kernel::{Event, StreamKind};
use rip_log::{read_snapshot, write_snapshot, EventLog};
use serde_json::{json, Map, Value};

use crate::common::{scratch_dir, Opts, Report};
use crate::fixture::{event_json, new_rt, Fx};
use crate::hops::{apply, name, sequences, Track, H};

// ---------------------------------------------------------------------------------------------
// Part a: frame shapes

fn strings() -> Vec<Value> {
    vec![json!(""), json!("a"), json!("\"\\\n\u{0000} \u{1F600}é"), json!("x".repeat(70 * 1024))]
}

fn values() -> Vec<Value> {
    vec![
        Value::Null,
        json!(0),
        json!(-1),
        json!(u64::MAX),
        json!(1.5),
        json!("s"),
        json!([]),
        json!({}),
        json!({"a": {"b": {"c": [1, null, "x"]}}}),
        json!({"id": "evil", "seq": 99, "type": "session_ended", "stream_kind": "task", "session_id": "x", "timestamp_ms": 1}),
    ]
}

#[derive(Clone)]
struct Field {
    name: &'static str,
    alts: Vec<Value>,
    optional: bool, // may be absent from the JSON
}

fn f(name: &'static str, alts: Vec<Value>) -> Field {
    Field { name, alts, optional: false }
}
fn opt(name: &'static str, alts: Vec<Value>) -> Field {
    Field { name, alts, optional: true }
}
fn s3() -> Vec<Value> {
    strings().into_iter().take(3).collect()
}
fn ostr() -> Vec<Value> {
    vec![Value::Null, json!(""), json!("é")]
}
fn v3() -> Vec<Value> {
    let v = values();
    vec![v[0].clone(), v[8].clone(), v[9].clone()]
}
fn n3() -> Vec<Value> {
    vec![json!(0), json!(1), json!(u64::MAX)]
}

fn ckpt_ref() -> Value {
    json!({"checkpoint_id": "c", "summary_kind": "cumulative_v1", "summary_artifact_id": "a", "to_seq": 3})
}

fn variants() -> Vec<(&'static str, Vec<Field>)> {
    let planned = json!([{"target_message_ordinal": 2, "to_seq": 5, "to_message_id": "m"}]);
    vec![
        ("session_started", vec![f("input", strings())]),
        ("output_text_delta", vec![f("delta", strings())]),
        ("session_ended", vec![f("reason", s3())]),
        ("continuity_created", vec![f("workspace", s3()), f("title", ostr())]),
        ("continuity_message_appended", vec![f("actor_id", s3()), f("origin", s3()), f("content", strings())]),
        ("continuity_run_spawned", vec![f("run_session_id", s3()), f("message_id", s3()), opt("actor_id", s3()), opt("origin", s3())]),
        (
            "continuity_context_selection_decided",
            vec![
                f("run_session_id", vec![json!("r")]),
                f("message_id", vec![json!("m")]),
                f("compiler_id", vec![json!("c")]),
                f("compiler_strategy", s3()),
                f("limits", v3()),
                opt("compaction_checkpoint", vec![ckpt_ref()]),
                opt("compaction_checkpoints", vec![json!([ckpt_ref()]), json!([ckpt_ref(), ckpt_ref()])]),
                opt("resets", vec![json!([{"input": "i", "action": "a", "reason": "r"}]), json!([{"input": "i", "action": "a", "reason": "r", "ref": {"k": [1]}}])]),
                opt("reason", v3().into_iter().skip(1).collect()),
                f("actor_id", vec![json!("u")]),
                f("origin", vec![json!("o")]),
            ],
        ),
        (
            "continuity_context_compiled",
            vec![f("run_session_id", s3()), f("bundle_artifact_id", vec![json!("b")]), f("compiler_id", vec![json!("c")]), f("compiler_strategy", s3()), f("from_seq", n3()), opt("from_message_id", s3()), f("actor_id", vec![json!("u")]), f("origin", vec![json!("o")])],
        ),
        (
            "continuity_provider_cursor_updated",
            vec![f("provider", s3()), opt("endpoint", s3()), opt("model", s3()), f("cursor", v3()), f("action", s3()), opt("reason", s3()), opt("run_session_id", s3()), f("actor_id", vec![json!("u")]), f("origin", vec![json!("o")])],
        ),
        (
            "continuity_compaction_checkpoint_created",
            vec![f("checkpoint_id", vec![json!("c")]), f("cut_rule_id", s3()), f("summary_kind", s3()), f("summary_artifact_id", vec![json!("a")]), f("from_seq", n3()), opt("from_message_id", s3()), f("to_seq", n3()), opt("to_message_id", s3()), f("actor_id", vec![json!("u")]), f("origin", vec![json!("o")])],
        ),
        (
            "continuity_compaction_auto_schedule_decided",
            vec![
                f("decision_id", vec![json!("d")]),
                f("policy_id", vec![json!("p")]),
                f("decision", s3()),
                f("execute", vec![json!(true), json!(false)]),
                f("stride_messages", n3()),
                f("max_new_checkpoints", vec![json!(0), json!(u32::MAX)]),
                f("block_on_inflight", vec![json!(true), json!(false)]),
                f("message_count", n3()),
                f("cut_rule_id", vec![json!("r")]),
                f("planned", vec![json!([]), planned.clone()]),
                opt("job_id", s3()),
                opt("job_kind", s3()),
                opt("reason", v3().into_iter().skip(1).collect()),
                f("actor_id", vec![json!("u")]),
                f("origin", vec![json!("o")]),
            ],
        ),
        ("continuity_job_spawned", vec![f("job_id", s3()), f("job_kind", s3()), opt("details", v3().into_iter().skip(1).collect()), f("actor_id", vec![json!("u")]), f("origin", vec![json!("o")])]),
        ("continuity_job_ended", vec![f("job_id", s3()), f("job_kind", s3()), f("status", s3()), opt("result", v3().into_iter().skip(1).collect()), opt("error", s3()), f("actor_id", vec![json!("u")]), f("origin", vec![json!("o")])]),
        ("continuity_run_ended", vec![f("run_session_id", s3()), f("message_id", s3()), f("reason", s3()), opt("actor_id", s3()), opt("origin", s3())]),
        (
            "continuity_tool_side_effects",
            vec![f("run_session_id", s3()), f("tool_id", s3()), f("tool_name", s3()), f("affected_paths", vec![Value::Null, json!([]), json!(["a", "é"])]), f("checkpoint_id", ostr()), f("actor_id", vec![json!("u")]), f("origin", vec![json!("o")])],
        ),
        ("continuity_branched", vec![f("parent_thread_id", s3()), f("parent_seq", n3()), opt("parent_message_id", s3()), f("actor_id", vec![json!("u")]), f("origin", vec![json!("o")])]),
        (
            "continuity_handoff_created",
            vec![f("from_thread_id", s3()), f("from_seq", n3()), opt("from_message_id", s3()), opt("summary_artifact_id", s3()), opt("summary_markdown", strings()), f("actor_id", vec![json!("u")]), f("origin", vec![json!("o")])],
        ),
        ("tool_started", vec![f("tool_id", s3()), f("name", s3()), f("args", values()), f("timeout_ms", vec![Value::Null, json!(0), json!(u64::MAX)])]),
        ("tool_stdout", vec![f("tool_id", s3()), f("chunk", strings())]),
        ("tool_stderr", vec![f("tool_id", s3()), f("chunk", strings())]),
        ("tool_ended", vec![f("tool_id", s3()), f("exit_code", vec![json!(0), json!(-1), json!(i32::MAX)]), f("duration_ms", n3()), f("artifacts", v3())]),
        ("tool_failed", vec![f("tool_id", s3()), f("error", strings())]),
        (
            "openresponses_request",
            vec![f("endpoint", s3()), f("model", ostr()), f("request_index", n3()), f("kind", s3()), f("body_artifact_id", vec![json!("b")]), f("body_bytes", n3()), f("total_bytes", n3()), f("truncated", vec![json!(true), json!(false)])],
        ),
        ("openresponses_request_started", vec![f("endpoint", s3()), f("model", ostr()), f("request_index", n3()), f("kind", s3())]),
        ("openresponses_response_headers", vec![f("request_index", n3()), f("status", vec![json!(0), json!(200), json!(u16::MAX)]), f("request_id", ostr()), f("content_type", ostr())]),
        ("openresponses_response_first_byte", vec![f("request_index", n3())]),
        (
            "provider_event",
            vec![
                f("provider", s3()),
                f("status", vec![json!("event"), json!("done"), json!("invalid_json")]),
                f("event_name", ostr()),
                f("data", values()),
                f("raw", ostr()),
                f("errors", vec![json!([]), json!(["e"]), json!(["e", "é"])]),
                f("response_errors", vec![json!([]), json!(["r"])]),
            ],
        ),
        ("checkpoint_created", vec![f("checkpoint_id", s3()), f("label", s3()), f("created_at_ms", n3()), f("files", vec![json!([]), json!(["a"]), json!(["a", "é"])]), f("auto", vec![json!(true), json!(false)]), f("tool_name", ostr())]),
        ("checkpoint_rewound", vec![f("checkpoint_id", s3()), f("label", s3()), f("files", vec![json!([]), json!(["a", "b"])])]),
        ("checkpoint_failed", vec![f("action", vec![json!("create"), json!("rewind")]), f("error", strings())]),
        (
            "tool_task_spawned",
            vec![f("task_id", s3()), f("tool_name", s3()), f("args", v3()), f("cwd", ostr()), f("title", ostr()), f("execution_mode", vec![json!("pipes"), json!("pty")]), f("origin_session_id", ostr()), f("artifacts", v3())],
        ),
        (
            "tool_task_status",
            vec![
                f("task_id", s3()),
                f("status", vec![json!("queued"), json!("running"), json!("exited"), json!("cancelled"), json!("failed")]),
                f("exit_code", vec![Value::Null, json!(0), json!(-7)]),
                f("started_at_ms", vec![Value::Null, json!(u64::MAX)]),
                f("ended_at_ms", vec![Value::Null, json!(0)]),
                f("artifacts", v3()),
                f("error", ostr()),
            ],
        ),
        ("tool_task_cancel_requested", vec![f("task_id", s3()), f("reason", s3())]),
        ("tool_task_cancelled", vec![f("task_id", s3()), f("reason", s3()), f("wall_time_ms", vec![Value::Null, json!(0), json!(u64::MAX)])]),
        ("tool_task_output_delta", vec![f("task_id", s3()), f("stream", vec![json!("stdout"), json!("stderr"), json!("pty")]), f("chunk", strings()), f("artifacts", v3())]),
        ("tool_task_stdin_written", vec![f("task_id", s3()), f("chunk_b64", s3())]),
        ("tool_task_resized", vec![f("task_id", s3()), f("rows", vec![json!(0), json!(u16::MAX)]), f("cols", vec![json!(1), json!(u16::MAX)])]),
        ("tool_task_signalled", vec![f("task_id", s3()), f("signal", s3())]),
    ]
}

fn expected_stream_kind(ty: &str) -> &'static str {
    if ty.starts_with("continuity_") {
        "continuity"
    } else if ty.starts_with("tool_task_") {
        "task"
    } else {
        "session"
    }
}

fn shapes_of(ty: &str, fields: &[Field]) -> Vec<Value> {
    // per-field choice lists: alternatives (+ "absent" for optional fields)
    let choices: Vec<Vec<Option<Value>>> = fields
        .iter()
        .map(|fl| {
            let mut c: Vec<Option<Value>> = fl.alts.iter().cloned().map(Some).collect();
            if fl.optional {
                c.insert(0, None);
            }
            c
        })
        .collect();
    let total: u128 = choices.iter().map(|c| c.len() as u128).product();
    let mut out = Vec::new();
    let envelope = |seq: u64| {
        let mut m = Map::new();
        m.insert("id".into(), json!("e-id"));
        m.insert("session_id".into(), json!("stream-1"));
        m.insert("timestamp_ms".into(), json!(if seq == 0 { 0u64 } else { u64::MAX }));
        m.insert("seq".into(), json!(seq));
        m.insert("type".into(), json!(ty));
        m
    };
    let build = |pick: &dyn Fn(usize) -> usize, seq: u64| {
        let mut m = envelope(seq);
        for (i, fl) in fields.iter().enumerate() {
            if let Some(v) = &choices[i][pick(i) % choices[i].len()] {
                m.insert(fl.name.into(), v.clone());
            }
        }
        Value::Object(m)
    };
    if total <= 20_000 {
        let mut idx = vec![0usize; fields.len()];
        loop {
            let snapshot = idx.clone();
            out.push(build(&|i| snapshot[i], (out.len() % 2) as u64));
            let mut k = 0;
            loop {
                if k == fields.len() {
                    return out;
                }
                idx[k] += 1;
                if idx[k] < choices[k].len() {
                    break;
                }
                idx[k] = 0;
                k += 1;
            }
        }
    }
    // too large for the full product: every field varied over all its choices against three
    // backgrounds (all-first, all-second, all-last), plus all pairs of fields at their extremes
    for bg in 0..3usize {
        let base = |i: usize| match bg {
            0 => 0,
            1 => 1.min(choices[i].len() - 1),
            _ => choices[i].len() - 1,
        };
        out.push(build(&base, bg as u64));
        for i in 0..fields.len() {
            for c in 0..choices[i].len() {
                out.push(build(&|j| if j == i { c } else { base(j) }, 1));
            }
        }
    }
    for i in 0..fields.len() {
        for j in (i + 1)..fields.len() {
            for (a, b) in [(0usize, usize::MAX), (usize::MAX, 0)] {
                out.push(build(&|k| if k == i { a.min(choices[i].len() - 1) } else if k == j { b.min(choices[j].len() - 1) } else { 0 }, 0));
            }
        }
    }
    out
}

/// Canonical expectation: what the frame must look like after a round trip (absent optional
/// fields may come back absent or null; nothing else may change).
fn same_modulo_absent_null(a: &Value, b: &Value) -> bool {
    match (a, b) {
        (Value::Object(x), Value::Object(y)) => {
            for (k, v) in x {
                match y.get(k) {
                    Some(w) => {
                        if !same_modulo_absent_null(v, w) {
                            return false;
                        }
                    }
                    None => {
                        if !v.is_null() && !(v.is_array() && v.as_array().unwrap().is_empty()) {
                            return false;
                        }
                    }
                }
            }
            for (k, w) in y {
                if !x.contains_key(k) && !w.is_null() && !(w.is_array() && w.as_array().unwrap().is_empty()) {
                    return false;
                }
            }
            true
        }
        _ => a == b,
    }
}

fn part_a(report: &Report) {
    let dir = scratch_dir("c03a");
    let all = variants();
    report.set_extra("event_kind_variants", json!(all.len()));
    all.par_iter().for_each(|(ty, fields)| {
        let shapes = shapes_of(ty, fields);
        let log_path = dir.path().join(format!("{ty}.jsonl"));
        let log = EventLog::new(&log_path).expect("log");
        let mut events: Vec<Event> = Vec::new();
        let mut originals: Vec<Value> = Vec::new();
        for shape in &shapes {
            report.eval(Some(&shape.to_string()));
            let ev: Event = match serde_json::from_value(shape.clone()) {
                Ok(e) => e,
                Err(e) => {
                    report.violation(&format!("C03:shape_rejected:{ty}"), json!({"engine": "H-inputs", "harness": "c03.shapes", "frame": crate::common::compact(shape, 600)}), &format!("a frame of the documented shape does not deserialize: {e}"));
                    continue;
                }
            };
            // serde round trip
            let text = serde_json::to_string(&ev).unwrap_or_default();
            let back: Result<Event, _> = serde_json::from_str(&text);
            let v1 = serde_json::to_value(&ev).unwrap_or(Value::Null);
            match back {
                Ok(b) => {
                    let v2 = serde_json::to_value(&b).unwrap_or(Value::Null);
                    if v1 != v2 {
                        report.violation(&format!("C03:round_trip_changed_frame:{ty}"), json!({"engine": "H-inputs", "harness": "c03.shapes", "frame": crate::common::compact(shape, 600)}), &format!("write/read changed the frame: {} -> {}", crate::common::compact(&v1, 300), crate::common::compact(&v2, 300)));
                    }
                    if b.stream_kind() != ev.stream_kind() {
                        report.violation(&format!("C03:stream_kind_changed:{ty}"), json!({"frame": crate::common::compact(shape, 600)}), "stream kind changed across a round trip");
                    }
                }
                Err(e) => {
                    report.violation(&format!("C03:written_frame_unreadable:{ty}"), json!({"engine": "H-inputs", "harness": "c03.shapes", "frame": crate::common::compact(shape, 600)}), &format!("the written frame does not read back: {e}"));
                }
            }
            // nothing of the input shape may be lost or altered (modulo absent == null == [])
            let mut v1_cmp = v1.clone();
            if let Some(o) = v1_cmp.as_object_mut() {
                o.remove("stream_kind");
                o.remove("stream_id");
            }
            if !same_modulo_absent_null(shape, &v1_cmp) {
                report.violation(&format!("C03:field_lost_or_altered:{ty}"), json!({"engine": "H-inputs", "harness": "c03.shapes", "frame": crate::common::compact(shape, 600)}), &format!("input {} was written as {}", crate::common::compact(shape, 300), crate::common::compact(&v1_cmp, 300)));
            }
            if v1["stream_kind"].as_str() != Some(expected_stream_kind(ty)) {
                report.violation(&format!("C03:stream_kind_assignment:{ty}"), json!({"frame_type": ty}), &format!("frame type {ty} is written with stream_kind {}", v1["stream_kind"]));
            }
            originals.push(v1);
            events.push(ev);
        }
        // through the real log, a snapshot and back
        // every frame is ON DISK when its append returns (a reader may replay the store at any
        // moment of a run, not only after its last frame): the file grows by exactly one line
        // that reads back as the frame. Then one frame per string field with a 1.5 MB value (a
        // message or an input just under the HTTP body limit): it must be accepted and read back.
        let mut huge: Vec<Event> = Vec::new();
        if let Some(first) = shapes.first() {
            for key in first.as_object().map(|o| o.keys().cloned().collect::<Vec<_>>()).unwrap_or_default() {
                if first[&key].is_string() && !matches!(key.as_str(), "type" | "id" | "session_id" | "stream_kind" | "stream_id") {
                    let mut shape = first.clone();
                    shape[&key] = json!("h".repeat(1_500_000));
                    if let Ok(ev) = serde_json::from_value::<Event>(shape) {
                        huge.push(ev);
                    }
                }
            }
        }
        report.count("frames_with_a_1_5_MB_field", huge.len() as u64);
        let mut on_disk = std::fs::metadata(&log_path).map(|m| m.len()).unwrap_or(0);
        for (i, e) in events.iter().chain(huge.iter()).enumerate() {
            if let Err(err) = log.append(e) {
                report.violation(&format!("C03:append_refused:{ty}"), json!({"engine": "H-inputs", "harness": "c03.shapes", "frame_type": ty, "frame_no": i, "huge_field": i >= events.len()}), &format!("the log refuses a frame the system can emit: {err}"));
                continue;
            }
            let now = std::fs::metadata(&log_path).map(|m| m.len()).unwrap_or(0);
            let added: Vec<u8> = {
                use std::io::{Read, Seek, SeekFrom};
                let mut f = std::fs::File::open(&log_path).expect("log file");
                f.seek(SeekFrom::Start(on_disk)).expect("seek");
                let mut buf = Vec::new();
                f.take(now.saturating_sub(on_disk)).read_to_end(&mut buf).expect("read");
                buf
            };
            on_disk = now;
            let text = String::from_utf8_lossy(&added);
            let lines: Vec<&str> = text.lines().collect();
            let ok = text.ends_with('\n') && lines.len() == 1 && serde_json::from_str::<Event>(lines[0]).map(|b| event_json(&b) == event_json(e)).unwrap_or(false);
            if !ok {
                report.violation(&format!("C03:appended_frame_not_on_disk:{ty}"), json!({"engine": "H-inputs", "harness": "c03.shapes", "frame_type": ty, "frame_no": i}), &format!("append returned Ok; the file grew by {} bytes holding {} line(s), not by the one line of this frame", added.len(), lines.len()));
                break;
            }
        }
        match EventLog::new(&log_path).and_then(|l| l.replay()) {
            Ok(back) => {
                let got: Vec<Value> = back.iter().take(originals.len()).map(event_json).collect();
                if got != originals {
                    report.violation(&format!("C03:log_replay_differs:{ty}"), json!({"frame_type": ty}), "frames replayed from the log differ from the frames appended");
                }
            }
            Err(e) => report.violation(&format!("C03:log_replay_fails:{ty}"), json!({"frame_type": ty}), &format!("replay of appended frames fails: {e}")),
        }
        match write_snapshot(dir.path().join("snap"), ty, &events).and_then(read_snapshot) {
            Ok(back) => {
                let got: Vec<Value> = back.iter().map(event_json).collect();
                if got != originals {
                    report.violation(&format!("C03:snapshot_differs:{ty}"), json!({"frame_type": ty}), "frames read from the snapshot differ from the frames written");
                }
            }
            Err(e) => report.violation(&format!("C03:snapshot_fails:{ty}"), json!({"frame_type": ty}), &format!("snapshot round trip fails: {e}")),
        }
        report.count("shapes", shapes.len() as u64);
    });
}

// ---------------------------------------------------------------------------------------------
// Part b: histories

thread_local! {
    /// countdown to the log append that fails (injected I/O error), for ops that append on the calling thread
    static FAIL_IN: std::cell::Cell<Option<usize>> = const { std::cell::Cell::new(None) };
}

struct FailHooks;

impl rip_kernel::verif::Hooks for FailHooks {
    fn fail(&self, name: &'static str) -> bool {
        if name != "log.append" {
            return false;
        }
        FAIL_IN.with(|c| match c.get() {
            Some(0) => {
                c.set(None);
                true
            }
            Some(n) => {
                c.set(Some(n - 1));
                false
            }
            None => false,
        })
    }
}

fn check_history(report: &Report, rt: &Arc<tokio::runtime::Runtime>, hist: &[H]) {
    check_history_failing(report, rt, hist, None)
}

/// `fail`: (index of the op, k) - the k-th log append inside that op fails with an I/O error.
fn check_history_failing(report: &Report, rt: &Arc<tokio::runtime::Runtime>, hist: &[H], fail: Option<(usize, usize)>) {
    let mut fx = Fx::new(rt.clone());
    let store = fx.store();
    let mut rx = store.subscribe();
    let thread = store.ensure_default().expect("thread");
    drop(store);
    let mut t = Track::new(thread.clone());
    let mut live: Vec<Event> = Vec::new();
    for (op_index, op) in hist.iter().enumerate() {
        if let Some((i, k)) = fail {
            if i == op_index {
                FAIL_IN.with(|c| c.set(Some(k)));
            }
        }
        let _ = apply(&mut fx, &mut t, op);
        if FAIL_IN.with(|c| c.replace(None)).is_none() && fail.map(|(i, _)| i == op_index).unwrap_or(false) {
            report.count("ops_in_which_a_log_append_failed", 1);
        }
        if matches!(op, H::Restart) {
            // a restarted authority has a new channel: keep what was received, subscribe again
            while let Ok(e) = rx.try_recv() {
                live.push(e);
            }
            rx = fx.store().subscribe();
        }
        while let Ok(e) = rx.try_recv() {
            live.push(e);
        }
    }
    let case = |extra: Value| json!({"engine": "H-histories", "harness": "c03.history", "history": hist.iter().map(name).collect::<Vec<_>>(), "failing_log_append": fail.map(|(i, k)| json!({"op_index": i, "append_no": k})), "detail": extra});
    let mut threads = vec![thread.clone()];
    threads.extend(t.children.iter().cloned());
    for th in &threads {
        let truth: Vec<Value> = fx.truth(StreamKind::Continuity, th).iter().map(event_json).collect();
        let got_live: Vec<Value> = live.iter().filter(|e| e.stream_id() == th).map(event_json).collect();
        if got_live != truth {
            report.violation("C03:live_vs_log:continuity", case(json!({"thread": th})), &format!("live subscriber saw {} frames, the log holds {} for the thread (or they differ)", got_live.len(), truth.len()));
        }
        let sidecar_path = fx.cache_dir().join(format!("{th}.jsonl"));
        if let Ok(text) = std::fs::read_to_string(&sidecar_path) {
            let lines: Vec<Value> = text.lines().filter(|l| !l.trim().is_empty()).filter_map(|l| serde_json::from_str::<Value>(l).ok()).collect();
            // After a cache loss the file is re-created by the next append and completed lazily by
            // the next replay (which validates and rebuilds it): on disk it may hold a contiguous
            // run of the thread's frames; what it must never hold is a frame that is not in the
            // log, or frames out of log order. Completeness is judged through replay_events below.
            if lines != truth {
                let contiguous = !lines.is_empty() && truth.windows(lines.len()).any(|w| w == lines.as_slice());
                if lines.iter().any(|l| !truth.contains(l)) {
                    report.violation("C03:sidecar_frame_not_in_log", case(json!({"thread": th})), &format!("the sidecar holds a frame that is not in the log ({} vs {} frames)", lines.len(), truth.len()));
                } else if !contiguous {
                    report.violation("C03:sidecar_vs_log", case(json!({"thread": th})), &format!("sidecar frames are not a contiguous run of the log's frames ({} vs {})", lines.len(), truth.len()));
                } else {
                    report.count("info_sidecar_file_partial_before_lazy_rebuild", 1);
                }
            }
        }
        match fx.store().replay_events(th) {
            Ok(ev) => {
                let got: Vec<Value> = ev.iter().map(event_json).collect();
                if got != truth {
                    report.violation("C03:store_replay_vs_log", case(json!({"thread": th})), &format!("replay_events returns {} frames, the log {}", got.len(), truth.len()));
                }
            }
            Err(e) => report.violation("C03:store_replay_fails", case(json!({"thread": th})), &format!("{e}")),
        }
    }
    for (sid, live_frames) in &t.live_session_frames {
        let truth: Vec<Value> = fx.truth(StreamKind::Session, sid).iter().map(event_json).collect();
        let got: Vec<Value> = live_frames.iter().map(event_json).collect();
        if got != truth {
            report.violation("C03:live_vs_log:session", case(json!({"session": sid})), &format!("session subscriber saw {} frames, the log holds {}", got.len(), truth.len()));
        }
        match read_snapshot(fx.data.join("snapshots").join(format!("{sid}.json"))) {
            Ok(snap) => {
                let s: Vec<Value> = snap.iter().map(event_json).collect();
                if s != truth {
                    report.violation("C03:snapshot_vs_log", case(json!({"session": sid})), &format!("snapshot holds {} frames, the log {} (or they differ)", s.len(), truth.len()));
                }
            }
            Err(e) => report.violation("C03:snapshot_missing", case(json!({"session": sid})), &format!("no readable snapshot for a finished run: {e}")),
        }
    }
}

pub fn run(opts: Opts) -> i32 {
    let report = Report::new("C03", "exploration", opts.clone());
    if let Some(path) = &opts.replay {
        report.replay_by_re_enumeration(path);
    }
    report.set_rule(
        "part a: for each of the 38 frame types the product of per-field value domains (strings: empty / ascii / escapes+NUL+emoji / 70 KiB; \
         JSON values incl. nested and envelope-colliding objects; optional fields absent/present; collections empty/1/2; numeric extremes) - \
         the full product when <= 20 000 shapes, else every field varied against three backgrounds plus all field pairs at their extremes - \
         through serde write/read, the real EventLog and a snapshot; part b: every history of <=3 (quick) / <=4 (thorough) ops from \
         {message, answered run, write-tool run, failing-tool run, checkpoint-envelope runs, side effects, cursor, checkpoint, auto \
         compaction, branch, handoff, drop caches, restart} with subscribers attached first: per stream live == log == sidecar == store \
         replay == snapshot; plus 81 histories in which the k-th (k = 0, 1, 2) log append inside one op fails with an injected I/O error: no view may hold a frame the log does not; distinct = frame shape / history",
    );
    report.assume("absent, null and empty-collection encodings of an optional field are the same value (the reader treats them alike)");
    part_a(&report);
    let tier = report.tier();
    let alphabet = vec![H::Msg, H::Run, H::EnvRun(0), H::EnvRun(1), H::EnvRun(2), H::EnvRun(3), H::Side, H::Cursor(0), H::Ckpt(0), H::Auto { stride: 1, max_new: 2, dry: false }, H::Branch(0), H::Handoff(0), H::DropCaches, H::Restart];
    let hs = sequences(&alphabet, tier.pick(3, 4));
    report.set_extra("histories", json!(hs.len()));
    report.sample(json!({"frame_type": "provider_event", "shape": {"data": values()[9], "raw": null, "errors": ["e", "é"]}}));
    report.sample(json!({"history": hs[100].iter().map(name).collect::<Vec<_>>()}));
    report.sample(json!({"history": hs[hs.len() - 1].iter().map(name).collect::<Vec<_>>()}));
    hs.par_iter().for_each_init(new_rt, |rt, h| {
        if report.over_cap() {
            return;
        }
        check_history(&report, rt, h);
        report.eval(Some(&h));
    });
    // environment answer "error": inside one op of the history the k-th log append FAILS (injected at
    // the log's fault seam). Whatever the op then does, no view may hold a frame the log does not.
    // Ops that append on the calling thread (the injection is per thread).
    {
        rip_kernel::verif::install(Arc::new(FailHooks));
        let failing: Vec<H> = vec![H::Msg, H::Side, H::Cursor(0), H::Rotate, H::SelPair, H::Ckpt(0), H::Auto { stride: 1, max_new: 2, dry: false }, H::Branch(0), H::Handoff(0)];
        let mut cases: Vec<(Vec<H>, usize, usize)> = Vec::new();
        for op in &failing {
            for k in 0..3usize {
                for pre in [vec![H::Msg], vec![H::Msg, H::Cursor(0), H::Msg], vec![H::Run, H::Ckpt(0)]] {
                    let mut h = pre.clone();
                    let at = h.len();
                    h.push(op.clone());
                    h.push(H::Msg);
                    cases.push((h, at, k));
                }
            }
        }
        report.set_extra("failing_append_histories", json!(cases.len()));
        cases.par_iter().for_each_init(new_rt, |rt, (h, at, k)| {
            if report.over_cap() {
                return;
            }
            check_history_failing(&report, rt, h, Some((*at, *k)));
            report.eval(Some(&(h, at, k)));
        });
        rip_kernel::verif::clear();
    }
    report.finish()
}
