//! Engine S at system-call granularity for the store: ONE reader (a read capability or a context
//! compile) races ONE writer (an append) on a real store, with every file-system call of either
//! as a scheduling point (LD_PRELOAD shim callback) plus the store's lock hooks. Used by C04
//! (queries) and C08 (compile): the parts of their designs that need a concurrent appender.
//!
//! Oracle: the reader's answer is the answer of one of the two sequential orders (reader before
//! the append, reader after the append) - computed on copies of the same store -, and afterwards
//! the store still passes validated replay and the cache-less differential.

use std::sync::{Arc, Mutex};

use ripd::{CompactionCutPointsV1Request, CompactionStatusV1Request, ContextSelectionStatusV1Request, ContinuityRunLink, ProviderCursorStatusV1Request};
use serde_json::{json, Map, Value};

use crate::common::{Opts, Report};
use crate::fixture::{new_rt, Fx};
use crate::sched::{explore, ActorBody, ActorCtx, Exec};

#[derive(Clone, Copy, Debug, PartialEq, Eq, Hash)]
pub enum Reader {
    /// compile the context for the run of message #k (0-based among the thread's messages)
    Compile(usize),
    Replay,
    CutPoints,
    Status,
    CursorStatus,
    SelectionStatus,
    /// branch / handoff off the thread with no selector (cut = head, last message): the recorded
    /// cut must be that of ONE state of the parent (C10)
    Branch,
    Handoff,
    /// auto compaction (stride 1, two new checkpoints): plans from the cut points, then appends a
    /// job bracket and checkpoint frames (C09)
    AutoCompaction,
    /// not a reader: a SECOND writer handle on the same log file (an outgoing authority finishing an
    /// append) writes one frame of ~20 KiB - larger than the writer's buffer. Racing a large append
    /// by the engine: the file must consist of whole frames (C02: O_APPEND, one write per frame)
    SecondHandleBigFrame,
}

#[derive(Clone, Copy, Debug, PartialEq, Eq, Hash)]
pub enum Writer {
    Message,
    /// a message of ~20 KiB (larger than the log writer's buffer)
    BigMessage,
    /// run_ended for the last message's run (adds the reply to that turn)
    RunEnded,
    SideEffect,
    /// manual checkpoint at the LAST message: not eligible for any earlier anchor. (A checkpoint
    /// with to_seq <= the cut that lands during a compile may or may not be selected - eligibility is
    /// by to_seq on the stream at selection time, ADR-0011 - so C08 pairs this writer with
    /// non-tail anchors only.)
    Checkpoint,
    Cursor,
    /// a second auto compaction (stride 1, two checkpoints): concurrent schedule / auto calls (C09)
    AutoCompaction,
}

#[derive(Clone, Copy, Debug, PartialEq, Eq, Hash)]
pub enum Pre {
    /// [answered run, message, run spawned for it]: the last turn is open
    OpenTurn,
    /// the same with the caches removed (the reader takes the rebuild path)
    OpenTurnNoCaches,
    /// 18 messages (the 16-message limit cuts) + a checkpoint
    LongWithCheckpoint,
}

pub const FILTER: [&str; 6] = ["start", "fs.*", "cont.next_seq", "cont.index", "log.writer", "@stalls"];

struct Built {
    fx: Fx,
    thread: String,
    msgs: Vec<String>,
    last_sess: String,
}

fn build(rt: &Arc<tokio::runtime::Runtime>, pre: Pre) -> Built {
    let fx = Fx::new(rt.clone());
    let store = fx.store();
    let thread = store.ensure_default().expect("thread");
    let mut msgs = Vec::new();
    let mut last_sess = "sess-none".to_string();
    match pre {
        Pre::OpenTurn | Pre::OpenTurnNoCaches => {
            let (m, s) = fx.answered_run(&thread, "first").expect("run");
            msgs.push(m);
            last_sess = s;
            let m1 = store.append_message(&thread, "u".into(), "o".into(), "second".into()).expect("m1");
            last_sess = "sess-open".into();
            store.append_run_spawned(&thread, &m1, &last_sess, "u".into(), "o".into()).expect("spawn");
            msgs.push(m1);
        }
        Pre::LongWithCheckpoint => {
            for i in 0..18 {
                msgs.push(store.append_message(&thread, "u".into(), "o".into(), format!("m{i}")).expect("m"));
            }
            store
                .compaction_checkpoint_cumulative_v1(
                    &thread,
                    ripd::CompactionCheckpointCumulativeV1Request { summary_markdown: Some("sum".into()), summary_artifact_id: None, to_message_id: Some(msgs[8].clone()), to_seq: None, stride_messages: None, actor_id: "u".into(), origin: "o".into() },
                )
                .expect("ckpt");
        }
    }
    drop(store);
    if pre == Pre::OpenTurnNoCaches {
        fx.drop_caches();
    }
    Built { fx, thread, msgs, last_sess }
}

fn read(fx: &Fx, thread: &str, msgs: &[String], r: Reader) -> Value {
    let store = fx.store();
    fn res<T: serde::Serialize>(r: Result<T, String>) -> Value {
        match r {
            Ok(v) => json!({"ok": serde_json::to_value(v).unwrap_or(Value::Null)}),
            Err(e) => json!({"err": e}),
        }
    }
    match r {
        Reader::Compile(k) => {
            let link = ContinuityRunLink { continuity_id: thread.to_string(), message_id: msgs[k.min(msgs.len() - 1)].clone(), actor_id: "u".into(), origin: "o".into() };
            match fx.engine.verif_compile_context(&link, "run-x") {
                Ok(v) => json!({"ok": v}),
                Err(e) => json!({"err": e}),
            }
        }
        Reader::Replay => match store.replay_events(thread) {
            Ok(ev) => json!({"ok": ev.iter().map(crate::fixture::event_json).collect::<Vec<_>>()}),
            Err(e) => json!({"err": e.to_string()}),
        },
        Reader::CutPoints => res(store.compaction_cut_points_v1(thread, CompactionCutPointsV1Request { stride_messages: Some(1), limit: Some(32) })),
        Reader::Status => res(store.compaction_status_v1(thread, CompactionStatusV1Request { stride_messages: Some(2) })),
        Reader::CursorStatus => res(store.provider_cursor_status_v1(thread, ProviderCursorStatusV1Request {})),
        Reader::SelectionStatus => res(store.context_selection_status_v1(thread, ContextSelectionStatusV1Request { limit: Some(10) })),
        Reader::Branch => match store.branch(thread, Some("racing".into()), None, None, "u".into(), "o".into()) {
            Ok((child, seq, mid)) => json!({"ok": {"child": child, "cut_seq": seq, "cut_message_id": mid}}),
            Err(e) => json!({"err": e}),
        },
        Reader::SecondHandleBigFrame => {
            let log = match rip_log::EventLog::new(fx.data.join("events.jsonl")) {
                Ok(l) => l,
                Err(e) => return json!({"err": e.to_string()}),
            };
            let frame = rip_kernel::Event {
                id: uuid::Uuid::new_v4().to_string(),
                session_id: "second-handle-session".into(),
                timestamp_ms: 1,
                seq: 0,
                kind: rip_kernel::EventKind::SessionStarted { input: "z".repeat(20 * 1024) },
            };
            match log.append(&frame) {
                Ok(()) => json!({"ok": "appended"}),
                Err(e) => json!({"err": e.to_string()}),
            }
        }
        Reader::AutoCompaction => res(store.compaction_auto_v1(thread, ripd::CompactionAutoV1Request { stride_messages: Some(1), max_new_checkpoints: Some(2), dry_run: Some(false), actor_id: "u".into(), origin: "o".into() })),
        Reader::Handoff => match store.handoff(thread, None, (Some("racing".into()), None), None, None, ("u".into(), "o".into())) {
            Ok((child, seq, mid)) => json!({"ok": {"child": child, "cut_seq": seq, "cut_message_id": mid}}),
            Err(e) => json!({"err": e}),
        },
    }
}

/// Ids that must be compared by WHAT they name (not by order of appearance): the cut message of
/// a branch / handoff becomes that message's content; the child's lineage frame is added.
fn finalize(fx: &Fx, thread: &str, raw: &Value) -> Value {
    let mut v = raw.clone();
    let Some(ok) = v.get_mut("ok").and_then(|o| o.as_object_mut()) else { return v };
    if let Some(mid) = ok.get("cut_message_id").cloned() {
        let parent = fx.truth(rip_kernel::StreamKind::Continuity, thread);
        let named = mid.as_str().and_then(|id| parent.iter().find(|e| e.id == id)).map(|e| match &e.kind {
            rip_kernel::EventKind::ContinuityMessageAppended { content, .. } => format!("message '{content}' at seq {}", e.seq),
            _ => format!("frame at seq {} (not a message)", e.seq),
        });
        ok.insert("cut_message".into(), json!(named));
        ok.remove("cut_message_id");
        if let Some(child) = ok.get("child").and_then(|c| c.as_str()).map(|s| s.to_string()) {
            let frames = fx.truth(rip_kernel::StreamKind::Continuity, &child);
            let lineage: Vec<Value> = frames
                .iter()
                .skip(1)
                .take(1)
                .map(|e| {
                    let mut j = crate::fixture::event_json(e);
                    if let Some(o) = j.as_object_mut() {
                        // the lineage frame names the cut message by id: same treatment
                        for k in ["from_message_id", "parent_message_id"] {
                            if let Some(id) = o.get(k).and_then(|x| x.as_str()).map(|s| s.to_string()) {
                                let what = parent.iter().find(|e| e.id == id).map(|e| format!("frame at seq {}", e.seq));
                                o.insert(k.into(), json!(what));
                            }
                        }
                    }
                    j
                })
                .collect();
            ok.insert("child_lineage".into(), json!(lineage));
        }
    }
    v
}

fn write(fx: &Fx, thread: &str, msgs: &[String], last_sess: &str, w: Writer) -> Result<(), String> {
    let store = fx.store();
    let last = msgs.last().cloned().unwrap_or_default();
    match w {
        Writer::Message => store.append_message(thread, "u".into(), "o".into(), "concurrent".into()).map(|_| ()),
        Writer::BigMessage => store.append_message(thread, "u".into(), "o".into(), "y".repeat(20 * 1024)).map(|_| ()),
        Writer::RunEnded => store.append_run_ended(thread, &last, last_sess, "completed".into(), "u".into(), "o".into()).map(|_| ()),
        Writer::SideEffect => fx.side_effect(thread, &last, last_sess, 7).map(|_| ()),
        Writer::Checkpoint => store
            .compaction_checkpoint_cumulative_v1(
                thread,
                ripd::CompactionCheckpointCumulativeV1Request { summary_markdown: Some("racing".into()), summary_artifact_id: None, to_message_id: Some(last.clone()), to_seq: None, stride_messages: None, actor_id: "u".into(), origin: "o".into() },
            )
            .map(|_| ()),
        Writer::AutoCompaction => store.compaction_auto_v1(thread, ripd::CompactionAutoV1Request { stride_messages: Some(1), max_new_checkpoints: Some(2), dry_run: Some(false), actor_id: "u".into(), origin: "o".into() }).map(|_| ()),
        Writer::Cursor => store.verif_append_provider_cursor_updated(thread, "openresponses", Some("http://e".into()), Some("m".into()), Some(json!({"previous_response_id": "r9"})), "set", None).map(|_| ()),
    }
}

/// Answers compared modulo run-specific values: timestamps and minted artifact ids dropped, uuids
/// and 64-hex ids replaced by their order of first appearance.
pub fn canon(v: &Value) -> String {
    fn walk(v: &Value, ids: &mut Vec<String>) -> Value {
        match v {
            Value::Object(o) => {
                let mut m = Map::new();
                for (k, x) in o {
                    if k == "timestamp_ms" || k == "bundle_artifact_id" || k == "created_at_ms" {
                        continue;
                    }
                    m.insert(k.clone(), walk(x, ids));
                }
                Value::Object(m)
            }
            Value::Array(a) => Value::Array(a.iter().map(|x| walk(x, ids)).collect()),
            Value::String(s) => {
                let is_uuid = s.len() == 36 && s.chars().filter(|c| *c == '-').count() == 4;
                let is_hex64 = s.len() == 64 && s.chars().all(|c| c.is_ascii_hexdigit());
                if s.starts_with("/dev/shm/rip-verif/") {
                    return Value::String("<scratch>".into());
                }
                if is_uuid || is_hex64 {
                    let n = match ids.iter().position(|x| x == s) {
                        Some(n) => n,
                        None => {
                            ids.push(s.clone());
                            ids.len() - 1
                        }
                    };
                    Value::String(format!("#{n}"))
                } else {
                    Value::String(s.clone())
                }
            }
            other => other.clone(),
        }
    }
    walk(v, &mut Vec::new()).to_string()
}

struct World {
    b: Built,
    answer: Arc<Mutex<Option<Value>>>,
    wrote: Arc<Mutex<Option<Result<(), String>>>>,
}

fn make_world(rt: &Arc<tokio::runtime::Runtime>, pre: Pre, r: Reader, w: Writer) -> (World, Vec<ActorBody>) {
    let b = build(rt, pre);
    let answer = Arc::new(Mutex::new(None));
    let wrote = Arc::new(Mutex::new(None));
    let mut actors: Vec<ActorBody> = Vec::new();
    {
        let engine = b.fx.engine.clone();
        let (thread, msgs, answer, rt2) = (b.thread.clone(), b.msgs.clone(), answer.clone(), rt.clone());
        let (dir, data, root) = (b.fx.data.clone(), b.fx.data.clone(), b.fx.root.clone());
        let _ = dir;
        actors.push(Box::new(move |_ctx: &ActorCtx| {
            let _g = rt2.enter();
            let view = FxView { engine, data, root };
            *answer.lock().unwrap() = Some(view.read(&thread, &msgs, r));
        }));
    }
    {
        let engine = b.fx.engine.clone();
        let (thread, msgs, sess, wrote, rt2) = (b.thread.clone(), b.msgs.clone(), b.last_sess.clone(), wrote.clone(), rt.clone());
        let (data, root) = (b.fx.data.clone(), b.fx.root.clone());
        actors.push(Box::new(move |_ctx: &ActorCtx| {
            let _g = rt2.enter();
            let view = FxView { engine, data, root };
            *wrote.lock().unwrap() = Some(view.write(&thread, &msgs, &sess, w));
        }));
    }
    (World { b, answer, wrote }, actors)
}

/// The parts of `Fx` an actor needs (the fixture itself owns the scratch dir and stays with the world).
struct FxView {
    engine: Arc<ripd::SessionEngine>,
    data: std::path::PathBuf,
    root: std::path::PathBuf,
}

impl FxView {
    fn as_fx(&self) -> Fx {
        // a second handle on the same engine and directories; the TempDir guard is a fresh empty one
        Fx { dir: crate::common::scratch_dir("fxv"), data: self.data.clone(), root: self.root.clone(), engine: self.engine.clone(), rt: new_rt() }
    }
    fn read(&self, thread: &str, msgs: &[String], r: Reader) -> Value {
        read(&self.as_fx(), thread, msgs, r)
    }
    fn write(&self, thread: &str, msgs: &[String], sess: &str, w: Writer) -> Result<(), String> {
        write(&self.as_fx(), thread, msgs, sess, w)
    }
}

pub fn run_config(report: &Report, prop: &'static str, pre: Pre, r: Reader, w: Writer, bound: usize) {
    let rt = new_rt();
    // the two sequential orders, on copies of one pre-state
    let (before, after) = {
        let b = build(&rt, pre);
        let c0 = b.fx.copy(true);
        let before = canon(&finalize(&c0, &b.thread, &read(&c0, &b.thread, &b.msgs, r)));
        let c1 = b.fx.copy(true);
        let _ = write(&c1, &b.thread, &b.msgs, &b.last_sess, w);
        let after = canon(&finalize(&c1, &b.thread, &read(&c1, &b.thread, &b.msgs, r)));
        (before, after)
    };
    let label = format!("{pre:?}:{r:?}|{w:?}");
    let mut outcomes = std::collections::HashSet::new();
    let stats = {
        let oc = &mut outcomes;
        explore(
            bound,
            u64::MAX,
            false,
            Some(FILTER.to_vec()),
            &|| report.over_cap(),
            &|| make_world(&rt, pre, r, w),
            &mut |world: &World, exec: &Exec| {
                report.eval(Some(&(prop, pre, r, w, exec.trace_hash())));
                if exec.stalls > 0 {
                    report.count("race_executions_with_an_actor_blocked_on_a_lock_without_hook", 1);
                }
                let case = || {
                    json!({"engine": "S", "granularity": "system calls", "harness": "race.reader_vs_appender", "pre": format!("{pre:?}"), "reader": format!("{r:?}"), "writer": format!("{w:?}"),
                        "choice_points_only": exec.decisions.iter().filter(|d| d.enabled.len() > 1).map(|d| d.chosen).collect::<Vec<_>>(), "preemptions": exec.preemptions,
                        "schedule_tail": exec.schedule_string().into_iter().rev().take(40).rev().collect::<Vec<_>>()})
                };
                if exec.deadlock || !exec.panicked.is_empty() {
                    report.violation(&format!("{prop}:race:deadlock_or_panic:{label}"), case(), &format!("deadlock={} panicked={:?}", exec.deadlock, exec.panicked));
                    return;
                }
                if let Some(Err(e)) = world.wrote.lock().unwrap().as_ref() {
                    report.violation(&format!("{prop}:race:append_failed:{label}"), case(), &format!("the append failed while a reader was active: {e}"));
                }
                let got = finalize(&world.b.fx, &world.b.thread, &world.answer.lock().unwrap().clone().unwrap_or(Value::Null));
                let g = canon(&got);
                oc.insert(if g == before { 0 } else if g == after { 1 } else { 2 });
                // compaction_status_v1 aggregates several reads (cut points, latest checkpoint, job
                // frames): a status that mixes the two states is not judged - C04's quantifier has no
                // concurrent appends; what the race may do to the caches is judged below
                if g != before && g != after && r == Reader::Status {
                    report.count("race_status_answers_mixing_both_states_not_judged", 1);
                } else if g != before && g != after && w == Writer::AutoCompaction {
                    // the writer appends several frames: the reader may lawfully see a state in between
                    // (only the post-conditions below are judged for this pairing)
                    report.count("race_answers_between_the_frames_of_a_multi_frame_writer_not_judged", 1);
                } else if g != before && g != after {
                    report.violation(
                        &format!("{prop}:race:answer_of_neither_order:{r:?}|{w:?}:{pre:?}"),
                        case(),
                        &format!("the reader's answer is neither the answer before the append nor the one after it: got {} ; before {} ; after {}", crate::common::compact(&got, 500), &before[..before.len().min(400)], &after[..after.len().min(400)]),
                    );
                    return;
                }
                // afterwards: every background job of the thread was spawned once and ended at most once
                {
                    let ev = world.b.fx.truth(rip_kernel::StreamKind::Continuity, &world.b.thread);
                    let mut spawned = std::collections::BTreeSet::new();
                    let mut ended = std::collections::BTreeSet::new();
                    for e in &ev {
                        match &e.kind {
                            rip_kernel::EventKind::ContinuityJobSpawned { job_id, .. } => {
                                if !spawned.insert(job_id.clone()) {
                                    report.violation(&format!("{prop}:race:job_spawned_twice:{label}"), case(), "two job_spawned frames carry one job id");
                                }
                            }
                            rip_kernel::EventKind::ContinuityJobEnded { job_id, .. } => {
                                if !spawned.contains(job_id) || !ended.insert(job_id.clone()) {
                                    report.violation(&format!("{prop}:race:job_end_grammar:{label}"), case(), "a job_ended frame without its job_spawned before it, or a second job_ended");
                                }
                            }
                            _ => {}
                        }
                    }
                }
                // afterwards: the log validates and the caches the race left behind are transparent
                if let Err(e) = world.b.fx.validated() {
                    report.violation(&format!("{prop}:race:validated_replay:{label}"), case(), &format!("validated replay fails after the race: {e}"));
                    return;
                }
                let found_fx = world.b.fx.copy(true);
                let truth_fx = world.b.fx.copy(false);
                let found = crate::c04::all_answers_ordered(&found_fx, &world.b.thread, true, 3, true);
                let truth = crate::c04::all_answers(&truth_fx, &world.b.thread, true, 3);
                for ((name, a), (_, t)) in found.iter().zip(truth.iter()) {
                    if a != t {
                        let q = name.split('(').next().unwrap_or(name);
                        report.violation(
                            &format!("{prop}:race:caches_left_inconsistent:{q}:{label}"),
                            case(),
                            &format!("after the race {name} from the caches = {} ; from the log = {}", crate::common::compact(a, 300), crate::common::compact(t, 300)),
                        );
                        break;
                    }
                }
            },
        )
    };
    report.add_states(stats.distinct_traces.len() as u64, stats.steps);
    report.add_traces_validated(stats.executions);
    report.count("race_executions", stats.executions);
    report.count(&format!("race_executions[{label}]"), stats.executions);
    report.count(&format!("race_distinct_answers[{label}]"), outcomes.len() as u64);
    report.max_counter("race_max_choice_points", stats.max_decisions as u64);
    if stats.capped {
        report.not_exhaustive(&format!("race {label}: wall cap hit after {} executions at bound {bound}", stats.executions));
    }
}

fn parse<T: Copy + std::fmt::Debug>(all: &[T], s: &str) -> Option<T> {
    all.iter().copied().find(|x| format!("{x:?}") == s)
}

pub const READERS_C04: [Reader; 5] = [Reader::Replay, Reader::CutPoints, Reader::Status, Reader::CursorStatus, Reader::SelectionStatus];
pub const WRITERS: [Writer; 5] = [Writer::Message, Writer::RunEnded, Writer::SideEffect, Writer::Checkpoint, Writer::Cursor];
pub const PRES: [Pre; 3] = [Pre::OpenTurn, Pre::OpenTurnNoCaches, Pre::LongWithCheckpoint];

pub fn shim_env() -> Vec<(String, String)> {
    vec![
        ("LD_PRELOAD".to_string(), format!("{}/target/crashshim.so", crate::common::VERIF_DIR)),
        ("RIPV_PREFIX".to_string(), "/dev/shm/rip-verif/fx".to_string()),
    ]
}

/// Worker under the shim: `race=<json {prop, pre, reader, writer, bound}>`.
pub fn worker(opts: Opts, prop: &'static str, level: &'static str, spec: &str) -> i32 {
    let report = Report::new(prop, level, opts);
    if !crate::sched::install_fs_callback() {
        crate::common::machinery_failure("race worker: the system-call shim is not preloaded");
    }
    crate::sched::install_hooks();
    let v: Value = serde_json::from_str(spec).unwrap_or(Value::Null);
    let pre = parse(&PRES, v["pre"].as_str().unwrap_or("")).unwrap_or(Pre::OpenTurn);
    let readers: Vec<Reader> = {
        let mut all = READERS_C04.to_vec();
        all.push(Reader::Branch);
        all.push(Reader::Handoff);
        all.push(Reader::AutoCompaction);
        all.push(Reader::SecondHandleBigFrame);
        for k in 0..18 {
            all.push(Reader::Compile(k));
        }
        all
    };
    let r = parse(&readers, v["reader"].as_str().unwrap_or("")).unwrap_or(Reader::Replay);
    let mut writers = WRITERS.to_vec();
    writers.push(Writer::AutoCompaction);
    writers.push(Writer::BigMessage);
    let w = parse(&writers, v["writer"].as_str().unwrap_or("")).unwrap_or(Writer::Message);
    let bound = v["bound"].as_u64().unwrap_or(1) as usize;
    run_config(&report, prop, pre, r, w, bound);
    report.finish()
}

pub fn job(tier: &str, check: &str, wall_cap: f64, pre: Pre, r: Reader, w: Writer, bound: usize) -> Vec<String> {
    vec![check.to_string(), "--tier".into(), tier.into(), "--wall-cap".into(), format!("{wall_cap}"), format!("race={}", json!({"pre": format!("{pre:?}"), "reader": format!("{r:?}"), "writer": format!("{w:?}"), "bound": bound}))]
}
