//! C09 — compaction follows message count alone; idempotent and replay-safe.
//!
//! Bounded exhaustive enumeration of thread histories x compaction commands x parameter domains on
//! the real store, against a reference planner evaluated on log replay.

use std::sync::Arc;

use rayon::prelude::*;
use rip_kernel::{Event, EventKind};
use ripd::{CompactionAutoV1Request, CompactionCutPointsV1Request};
use serde_json::{json, Value};

use crate::common::{Opts, Report};
use crate::fixture::{new_rt, Fx};
use crate::hops::{apply, messages, name, sequences, thread_events, Track, H};

#[derive(Debug, Clone, PartialEq)]
struct RefCut {
    ordinal: u64,
    to_seq: u64,
    to_message_id: String,
    already: bool,
    latest_checkpoint_id: Option<String>,
}

fn reference_cuts(events: &[Event], stride: u64, limit: Option<u32>) -> (u64, Vec<RefCut>) {
    let msgs = messages(events);
    let count = msgs.len() as u64;
    let limit = limit.unwrap_or(1).clamp(1, 32) as u64;
    let mut out = Vec::new();
    let latest = (count / stride) * stride;
    for i in 0..limit {
        let Some(ordinal) = latest.checked_sub(i * stride) else { break };
        if ordinal == 0 {
            break;
        }
        let (seq, id) = msgs[(ordinal - 1) as usize].clone();
        let mut latest_ck: Option<String> = None;
        for e in events {
            if let EventKind::ContinuityCompactionCheckpointCreated { checkpoint_id, to_seq, .. } = &e.kind {
                if *to_seq == seq {
                    latest_ck = Some(checkpoint_id.clone()); // later frame wins
                }
            }
        }
        out.push(RefCut { ordinal, to_seq: seq, to_message_id: id, already: latest_ck.is_some(), latest_checkpoint_id: latest_ck });
    }
    (count, out)
}

fn case_json(hist: &[H], extra: Value) -> Value {
    json!({"engine": "H-histories", "harness": "c09.compaction", "history": hist.iter().map(name).collect::<Vec<_>>(), "detail": extra})
}

fn check_cut_points(report: &Report, fx: &Fx, thread: &str, hist: &[H]) {
    let events = thread_events(fx, thread);
    let store = fx.store();
    let n = messages(&events).len() as u64;
    for stride in [None, Some(0u64), Some(1), Some(2), Some(3), Some(n.max(1)), Some(n + 1)] {
        for limit in [None, Some(0u32), Some(1), Some(2), Some(32), Some(33)] {
            let got = store.compaction_cut_points_v1(thread, CompactionCutPointsV1Request { stride_messages: stride, limit });
            report.eval(None::<&u8>);
            let s = stride.unwrap_or(10_000);
            if s == 0 {
                if got.is_ok() {
                    report.violation("C09:stride0_accepted", case_json(hist, json!({"stride": 0})), "stride 0 was accepted");
                }
                continue;
            }
            let (count, want) = reference_cuts(&events, s, limit);
            match got {
                Err(e) => report.violation("C09:cut_points_error", case_json(hist, json!({"stride": stride, "limit": limit})), &format!("cut points failed: {e}")),
                Ok(r) => {
                    let got_cuts: Vec<RefCut> = r
                        .cut_points
                        .iter()
                        .map(|c| RefCut { ordinal: c.target_message_ordinal, to_seq: c.to_seq, to_message_id: c.to_message_id.clone(), already: c.already_checkpointed, latest_checkpoint_id: c.latest_checkpoint_id.clone() })
                        .collect();
                    if r.message_count != count || got_cuts != want {
                        let sig = if r.message_count != count {
                            "C09:message_count"
                        } else if got_cuts.len() != want.len() {
                            "C09:cut_points:number"
                        } else if got_cuts.iter().zip(&want).any(|(a, b)| a.to_seq != b.to_seq || a.to_message_id != b.to_message_id || a.ordinal != b.ordinal) {
                            "C09:cut_points:position"
                        } else {
                            "C09:cut_points:already_checkpointed"
                        };
                        report.violation(
                            sig,
                            case_json(hist, json!({"stride": stride, "limit": limit})),
                            &format!("stride={stride:?} limit={limit:?}: got count={} cuts={:?}; reference count={count} cuts={:?}", r.message_count, got_cuts, want),
                        );
                    }
                }
            }
        }
    }
}

fn normalise_ids(text: &str) -> String {
    let mut out = String::new();
    let mut seen: Vec<String> = Vec::new();
    let bytes: Vec<char> = text.chars().collect();
    let mut i = 0;
    while i < bytes.len() {
        let mut j = i;
        while j < bytes.len() && bytes[j].is_ascii_hexdigit() {
            j += 1;
        }
        if j - i == 64 {
            let tok: String = bytes[i..j].iter().collect();
            let idx = match seen.iter().position(|s| *s == tok) {
                Some(k) => k,
                None => {
                    seen.push(tok);
                    seen.len() - 1
                }
            };
            out.push_str(&format!("<artifact#{idx}>"));
            i = j;
        } else if j > i {
            out.extend(bytes[i..j].iter());
            i = j;
        } else {
            out.push(bytes[i]);
            i += 1;
        }
    }
    out
}

fn summary_markdown(fx: &Fx, artifact: &str) -> Option<(String, Value)> {
    let p = fx.root.join(".rip/artifacts/blobs").join(artifact);
    let v: Value = serde_json::from_slice(&std::fs::read(p).ok()?).ok()?;
    let md = v.get("summary_markdown").and_then(|m| m.as_str()).map(|s| s.to_string()).or_else(|| v.pointer("/summary/markdown").and_then(|m| m.as_str()).map(|s| s.to_string()))?;
    Some((md, v))
}

fn check_auto(report: &Report, fx: &Fx, thread: &str, hist: &[H], stride: u64, max_new: u32) {
    let before = thread_events(fx, thread);
    let (_, cuts) = reference_cuts(&before, stride, Some(32));
    let planned: Vec<&RefCut> = cuts.iter().filter(|c| !c.already).take(max_new.clamp(1, 32) as usize).collect();
    // determinism: run the same command on a byte-identical copy
    let twin = fx.copy(true);
    let req = || CompactionAutoV1Request { stride_messages: Some(stride), max_new_checkpoints: Some(max_new), dry_run: Some(false), actor_id: "u".into(), origin: "o".into() };
    let log_before = fx.log_bytes().len();
    let r = fx.store().compaction_auto_v1(thread, req());
    let r2 = twin.store().compaction_auto_v1(thread, req());
    report.eval(None::<&u8>);
    let detail = json!({"command": format!("auto(stride={stride},max_new={max_new})")});
    let r = match r {
        Ok(r) => r,
        Err(e) => {
            report.violation("C09:auto_error", case_json(hist, detail), &format!("auto compaction failed: {e}"));
            return;
        }
    };
    let after = thread_events(fx, thread);
    let new_frames: Vec<&Event> = after.iter().skip(before.len()).collect();
    if planned.is_empty() {
        if r.status != "noop" || fx.log_bytes().len() != log_before {
            report.violation("C09:noop_wrote", case_json(hist, detail), &format!("nothing to plan, yet status={} and the log grew by {} bytes", r.status, fx.log_bytes().len() - log_before));
        }
        return;
    }
    // exactly one job bracket around exactly the planned checkpoints
    let spawned: Vec<&&Event> = new_frames.iter().filter(|e| matches!(e.kind, EventKind::ContinuityJobSpawned { .. })).collect();
    let ended: Vec<&&Event> = new_frames.iter().filter(|e| matches!(e.kind, EventKind::ContinuityJobEnded { .. })).collect();
    let cks: Vec<(u64, Option<String>, String)> = new_frames
        .iter()
        .filter_map(|e| match &e.kind {
            EventKind::ContinuityCompactionCheckpointCreated { to_seq, to_message_id, summary_artifact_id, .. } => Some((*to_seq, to_message_id.clone(), summary_artifact_id.clone())),
            _ => None,
        })
        .collect();
    let mut want: Vec<(u64, String)> = planned.iter().map(|c| (c.to_seq, c.to_message_id.clone())).collect();
    want.sort();
    let mut got: Vec<(u64, String)> = cks.iter().map(|c| (c.0, c.1.clone().unwrap_or_default())).collect();
    got.sort();
    if got != want {
        report.violation("C09:auto_created_wrong_checkpoints", case_json(hist, detail.clone()), &format!("auto created checkpoints at {:?}, the plan was {:?}", got, want));
        return;
    }
    if spawned.len() != 1 || ended.len() != 1 {
        report.violation("C09:job_bracket", case_json(hist, detail.clone()), &format!("{} job_spawned and {} job_ended frames for one auto run", spawned.len(), ended.len()));
        return;
    }
    let (job_a, job_b) = match (&spawned[0].kind, &ended[0].kind) {
        (EventKind::ContinuityJobSpawned { job_id: a, .. }, EventKind::ContinuityJobEnded { job_id: b, .. }) => (a.clone(), b.clone()),
        _ => unreachable!(),
    };
    let first_ck = new_frames.iter().position(|e| matches!(e.kind, EventKind::ContinuityCompactionCheckpointCreated { .. })).unwrap_or(0);
    let last_ck = new_frames.iter().rposition(|e| matches!(e.kind, EventKind::ContinuityCompactionCheckpointCreated { .. })).unwrap_or(0);
    let sp = new_frames.iter().position(|e| matches!(e.kind, EventKind::ContinuityJobSpawned { .. })).unwrap();
    let en = new_frames.iter().position(|e| matches!(e.kind, EventKind::ContinuityJobEnded { .. })).unwrap();
    if job_a != job_b || Some(&job_a) != r.job_id.as_ref() || !(sp < first_ck && last_ck < en) {
        report.violation("C09:job_bracket", case_json(hist, detail.clone()), &format!("job frames do not bracket the checkpoints: spawned@{sp} ({job_a}) checkpoints@{first_ck}..{last_ck} ended@{en} ({job_b}) response job {:?}", r.job_id));
    }
    // summaries readable, coverage matches, deterministic across byte-identical stores
    let twin_cks: Vec<(u64, String)> = thread_events(&twin, thread)
        .iter()
        .skip(before.len())
        .filter_map(|e| match &e.kind {
            EventKind::ContinuityCompactionCheckpointCreated { to_seq, summary_artifact_id, .. } => Some((*to_seq, summary_artifact_id.clone())),
            _ => None,
        })
        .collect();
    let _ = r2;
    for (to_seq, _, art) in &cks {
        let Some((md, v)) = summary_markdown(fx, art) else {
            report.violation("C09:summary_unreadable", case_json(hist, detail.clone()), &format!("summary artifact {art} of the checkpoint at to_seq {to_seq} is missing or unreadable"));
            continue;
        };
        let text = v.to_string();
        if !text.contains(thread) || !(text.contains(&format!("\"to_seq\":{to_seq}"))) {
            report.violation("C09:summary_coverage", case_json(hist, detail.clone()), &format!("summary artifact {art} does not state thread / to_seq {to_seq}: {}", crate::common::truncate(&text, 300)));
        }
        if let Some((_, art2)) = twin_cks.iter().find(|(s, _)| s == to_seq) {
            if let Some((md2, _)) = summary_markdown(&twin, art2) {
                // ids minted by the run itself (artifact ids of checkpoints created earlier in the same
                // run) are references, not text: compare modulo a consistent renaming of 64-hex ids
                if normalise_ids(&md) != normalise_ids(&md2) {
                    report.violation("C09:summary_not_deterministic", case_json(hist, detail.clone()), &{
                        let la: Vec<&str> = md.lines().collect();
                        let lb: Vec<&str> = md2.lines().collect();
                        let idx = la.iter().zip(lb.iter()).position(|(a, b)| a != b).unwrap_or(la.len().min(lb.len()));
                        format!("the same auto run on byte-identical stores produced different summaries for to_seq {to_seq}: first differing line #{idx}: {:?} vs {:?}", la.get(idx), lb.get(idx))
                    });
                }
            }
        }
    }
    // immediate repeat with nothing new to do appends nothing
    let (_, cuts2) = reference_cuts(&thread_events(fx, thread), stride, Some(32));
    if cuts2.iter().all(|c| c.already) {
        let len = fx.log_bytes().len();
        match fx.store().compaction_auto_v1(thread, req()) {
            Ok(r3) => {
                if r3.status != "noop" || fx.log_bytes().len() != len {
                    report.violation("C09:repeat_not_noop", case_json(hist, detail), &format!("repeating auto with nothing new to do: status={} log grew by {}", r3.status, fx.log_bytes().len() - len));
                }
            }
            Err(e) => report.violation("C09:auto_error", case_json(hist, detail), &format!("repeat failed: {e}")),
        }
    }
}

fn check_history(report: &Report, rt: &Arc<tokio::runtime::Runtime>, hist: &[H]) {
    let mut fx = Fx::new(rt.clone());
    let thread = fx.store().ensure_default().expect("thread");
    let mut t = Track::new(thread.clone());
    for op in hist {
        // schedule ops are judged as they run
        if let H::Sched { stride, max_new, block, execute, dry } = op {
            let before = thread_events(&fx, &thread);
            let (_, cuts) = reference_cuts(&before, *stride, Some(32));
            let planned: Vec<&RefCut> = cuts.iter().filter(|c| !c.already).take((*max_new).clamp(1, 32) as usize).collect();
            let inflight = {
                let mut ended = std::collections::HashSet::new();
                let mut open = None;
                for e in before.iter().rev() {
                    match &e.kind {
                        EventKind::ContinuityJobEnded { job_id, .. } => {
                            ended.insert(job_id.clone());
                        }
                        EventKind::ContinuityJobSpawned { job_id, .. } if !ended.contains(job_id) && open.is_none() => open = Some(job_id.clone()),
                        _ => {}
                    }
                }
                open
            };
            let len = fx.log_bytes().len();
            let out = apply(&mut fx, &mut t, op);
            let after = thread_events(&fx, &thread);
            let new: Vec<String> = after.iter().skip(before.len()).map(crate::fixture::kind_name).collect();
            let decision = out["ok"]["decision"].as_str().unwrap_or("").to_string();
            let expect = if planned.is_empty() {
                "noop"
            } else if *dry {
                "dry_run"
            } else if *block && inflight.is_some() {
                "skipped_inflight"
            } else if *execute {
                "completed"
            } else {
                "scheduled"
            };
            report.eval(None::<&u8>);
            if decision != expect {
                report.violation("C09:schedule_decision", case_json(hist, json!({"op": name(op)})), &format!("schedule decided {decision:?}, reference says {expect:?} (planned {} cuts, inflight {:?})", planned.len(), inflight));
            }
            if (expect == "noop" || expect == "dry_run") && fx.log_bytes().len() != len {
                report.violation("C09:noop_wrote", case_json(hist, json!({"op": name(op)})), &format!("a {expect} schedule call appended frames {:?}", new));
            }
            if expect == "completed" {
                let n_ck = new.iter().filter(|k| *k == "continuity_compaction_checkpoint_created").count();
                let n_sp = new.iter().filter(|k| *k == "continuity_job_spawned").count();
                let n_en = new.iter().filter(|k| *k == "continuity_job_ended").count();
                if n_ck != planned.len() || n_sp != 1 || n_en != 1 {
                    report.violation("C09:schedule_effects", case_json(hist, json!({"op": name(op)})), &format!("completed schedule run appended {:?}; planned {} checkpoints", new, planned.len()));
                }
            }
            continue;
        }
        let _ = apply(&mut fx, &mut t, op);
    }
    // a background job is spawned once and ended at most once, after its spawn
    {
        let events = thread_events(&fx, &thread);
        let mut spawned: std::collections::BTreeMap<String, usize> = std::collections::BTreeMap::new();
        let mut ended: std::collections::BTreeMap<String, usize> = std::collections::BTreeMap::new();
        for (i, e) in events.iter().enumerate() {
            match &e.kind {
                EventKind::ContinuityJobSpawned { job_id, .. } => {
                    if spawned.insert(job_id.clone(), i).is_some() {
                        report.violation("C09:job_spawned_twice", case_json(hist, json!({"job_id": job_id})), "two job_spawned frames carry one job id");
                    }
                }
                EventKind::ContinuityJobEnded { job_id, .. } => {
                    if !spawned.contains_key(job_id) {
                        report.violation("C09:job_ended_without_spawn", case_json(hist, json!({"job_id": job_id})), "a job_ended frame precedes (or lacks) its job_spawned frame");
                    }
                    if ended.insert(job_id.clone(), i).is_some() {
                        report.violation("C09:job_ended_twice", case_json(hist, json!({"job_id": job_id})), "a job was ended twice");
                    }
                }
                _ => {}
            }
        }
        report.eval(None::<&u8>);
    }
    // summaries rendered by auto jobs are a function of the thread up to the cut: two jobs for the
    // same cut point (overlapping or not) render the same text
    {
        let events = thread_events(&fx, &thread);
        let job_created: std::collections::HashSet<String> = events
            .iter()
            .filter_map(|e| match &e.kind {
                EventKind::ContinuityJobEnded { result, .. } => result.clone(),
                _ => None,
            })
            .flat_map(|r| r.get("created").and_then(|c| c.as_array()).cloned().unwrap_or_default())
            .filter_map(|c| c.get("checkpoint_id").and_then(|x| x.as_str()).map(|s| s.to_string()))
            .collect();
        let mut by_cut: std::collections::BTreeMap<u64, Vec<(String, String)>> = std::collections::BTreeMap::new();
        for e in &events {
            if let EventKind::ContinuityCompactionCheckpointCreated { checkpoint_id, summary_artifact_id, to_seq, .. } = &e.kind {
                if job_created.contains(checkpoint_id) {
                    let text = std::fs::read_to_string(fx.root.join(".rip/artifacts/blobs").join(summary_artifact_id)).unwrap_or_default();
                    // the job that produced it is provenance, not content
                    let text = match serde_json::from_str::<serde_json::Value>(&text) {
                        Ok(mut v) => {
                            if let Some(p) = v.pointer_mut("/provenance/produced_by").and_then(|p| p.as_object_mut()) {
                                p.remove("id");
                            }
                            v.to_string()
                        }
                        Err(_) => text,
                    };
                    by_cut.entry(*to_seq).or_default().push((checkpoint_id.clone(), normalise_ids(&text)));
                }
            }
        }
        for (to_seq, list) in by_cut {
            report.eval(None::<&u8>);
            if let Some((id, text)) = list.iter().skip(1).find(|(_, t)| *t != list[0].1) {
                report.violation(
                    "C09:job_summaries_for_one_cut_differ",
                    case_json(hist, json!({"to_seq": to_seq})),
                    &format!("two auto jobs summarised the cut at seq {to_seq} differently: checkpoint {} = {} ; checkpoint {id} = {}", list[0].0, &list[0].1[..list[0].1.len().min(400)], &text[..text.len().min(400)]),
                );
            }
        }
    }
    {
        let events = thread_events(&fx, &thread);
        let failed = events.iter().filter(|e| matches!(&e.kind, EventKind::ContinuityJobEnded { status, .. } if status != "completed")).count();
        if failed > 0 {
            report.count("jobs_that_ended_failed", failed as u64);
        }
    }
    // every checkpoint frame of the thread - manual or from a job - references a readable summary
    // whose coverage is this thread up to the frame's to_seq
    {
        let events = thread_events(&fx, &thread);
        for e in &events {
            if let EventKind::ContinuityCompactionCheckpointCreated { checkpoint_id, summary_artifact_id, to_seq, .. } = &e.kind {
                report.eval(None::<&u8>);
                match summary_markdown(&fx, summary_artifact_id) {
                    None => report.violation("C09:summary_unreadable", case_json(hist, json!({"checkpoint_id": checkpoint_id})), &format!("summary artifact {summary_artifact_id} of the checkpoint at to_seq {to_seq} is missing or unreadable")),
                    Some((_, v)) => {
                        let cov_thread = v.pointer("/coverage/thread_id").and_then(|x| x.as_str()).unwrap_or("");
                        let cov_seq = v.pointer("/coverage/to_seq").and_then(|x| x.as_u64());
                        if cov_thread != thread || cov_seq != Some(*to_seq) {
                            report.violation(
                                "C09:summary_coverage",
                                case_json(hist, json!({"checkpoint_seq": e.seq})),
                                &format!("checkpoint frame seq {} (to_seq {to_seq}) references summary {summary_artifact_id} whose coverage is {cov_thread}@{cov_seq:?}, not {thread}@{to_seq}", e.seq),
                            );
                        }
                    }
                }
            }
        }
    }
    // the in-flight job the status reports is the newest summarizer job that was spawned and has
    // not ended - however it ended
    {
        let events = thread_events(&fx, &thread);
        let mut ended = std::collections::HashSet::new();
        let mut open: Option<String> = None;
        for e in events.iter().rev() {
            match &e.kind {
                EventKind::ContinuityJobEnded { job_id, .. } => {
                    ended.insert(job_id.clone());
                }
                EventKind::ContinuityJobSpawned { job_id, .. } if !ended.contains(job_id) && open.is_none() => open = Some(job_id.clone()),
                _ => {}
            }
        }
        for (label, f) in [("warm", fx.copy(true)), ("without_caches", fx.copy(false))] {
            report.eval(None::<&u8>);
            match f.store().compaction_status_v1(&thread, ripd::CompactionStatusV1Request { stride_messages: Some(1) }) {
                Ok(st) => {
                    if st.inflight_job_id != open {
                        report.violation("C09:inflight_job", case_json(hist, json!({"authority": label})), &format!("status reports inflight_job_id {:?}; by the log the newest spawned-and-not-ended job is {:?}", st.inflight_job_id, open));
                    }
                }
                Err(e) => report.violation("C09:status_error", case_json(hist, json!({"authority": label})), &format!("compaction status failed: {e}")),
            }
        }
    }
    check_cut_points(report, &fx, &thread, hist);
    for (stride, max_new) in [(1u64, 1u32), (2, 2), (3, 33)] {
        let probe = fx.copy(true);
        check_auto(report, &probe, &thread, hist, stride, max_new);
    }
    // the same answers from a restarted authority and from one without caches (replay-safe)
    let cold = fx.copy(false);
    check_cut_points(report, &cold, &thread, hist);
}

pub fn run(opts: Opts) -> i32 {
    if let Some(spec) = opts.extra.iter().find_map(|a| a.strip_prefix("race=")) {
        let spec = spec.to_string();
        return crate::race::worker(opts, "C09", "exploration", &spec);
    }
    let report = Report::new("C09", "exploration", opts.clone());
    if let Some(path) = &opts.replay {
        report.replay_by_re_enumeration(path);
    }
    report.set_rule(
        "every history of <=4 (quick) / <=5 (thorough) ops from {message, answered run, side effects, cursor, manual checkpoint at last message / \
         first message / by stride 2, auto(1,1), auto(2,2), schedule(stride 1|2, max_new 1, block/execute/dry variants), inflight job (spawn \
         without run)} plus 25 histories with overlapping jobs (spawn and run halves as separate ops); in the reached state: cut points for stride in {none,0,1,2,3,n,n+1} x limit in {none,0,1,2,32,33} vs a reference \
         planner on log replay (warm store and a copy without caches); auto(stride,max_new) for (1,1),(2,2),(3,33) on copies: planned \
         checkpoints exactly, job bracket, readable summaries with matching coverage, identical summaries on a byte-identical twin store, \
         repeat = noop + zero bytes; schedule decisions vs reference; distinct = history",
    );
    report.assume("reference planner: cut points = the k*stride-th messages latest first, clamp(limit,1,32); already_checkpointed iff a checkpoint frame (any kind) with that to_seq exists, latest by stream order");
    let tier = report.tier();
    let alphabet: Vec<H> = vec![
        H::Msg,
        H::Run,
        H::Side,
        H::Ckpt(0),
        H::Ckpt(1),
        H::Ckpt(2),
        H::Auto { stride: 1, max_new: 1, dry: false },
        H::Auto { stride: 2, max_new: 2, dry: false },
        H::Sched { stride: 1, max_new: 1, block: true, execute: true, dry: false },
        H::Sched { stride: 2, max_new: 1, block: true, execute: false, dry: false },
        H::Sched { stride: 1, max_new: 1, block: false, execute: true, dry: true },
        H::SpawnJobOnly { stride: 1 },
    ];
    let mut hs = sequences(&alphabet, tier.pick(4, 5));
    // only histories with at least one message are interesting beyond depth 1
    hs.retain(|h| h.len() <= 1 || h.iter().any(|o| matches!(o, H::Msg | H::Run)));
    // overlapping jobs (spawn half and run half are separate ops): every order of two spawns and
    // two runs after 1..3 messages, with a message or a manual checkpoint in between
    {
        let sp = H::SpawnJobOnly { stride: 1 };
        let run = H::RunOldestJob;
        for msgs in 1..=3usize {
            for mid in [None, Some(H::Msg), Some(H::Ckpt(0)), Some(H::Run)] {
                let mut base: Vec<H> = vec![H::Msg; msgs];
                base.push(sp.clone());
                if let Some(m) = &mid {
                    base.push(m.clone());
                }
                // spawn B, run A, run B | run A, spawn B, run B
                let mut h1 = base.clone();
                h1.extend([sp.clone(), run.clone(), run.clone()]);
                hs.push(h1);
                let mut h2 = base.clone();
                h2.extend([run.clone(), sp.clone(), run.clone()]);
                hs.push(h2);
            }
        }
        let sp2 = H::SpawnJobOnly { stride: 1 };
        hs.push(vec![H::Msg, H::Msg, sp2.clone(), sp2.clone(), sp2, run.clone(), run.clone(), run]);
    }
    // a job that fails after its spawn, and manual checkpoints that name an existing summary:
    // every history of <= 2 ops of the base alphabet around them
    {
        let special = [H::FailingAuto { stride: 1 }, H::FailingAuto { stride: 2 }, H::CkptReuse(0), H::CkptReuse(1)];
        let around: Vec<H> = vec![H::Msg, H::Run, H::Ckpt(0), H::Ckpt(1), H::Auto { stride: 1, max_new: 1, dry: false }, H::Sched { stride: 1, max_new: 1, block: true, execute: true, dry: false }, H::Sched { stride: 2, max_new: 1, block: true, execute: false, dry: false }];
        for sp in &special {
            for pre in sequences(&around, 2).into_iter().filter(|h| h.iter().any(|o| matches!(o, H::Msg | H::Run))) {
                let mut h = pre.clone();
                h.push(sp.clone());
                hs.push(h.clone());
                for post in &around {
                    let mut h2 = h.clone();
                    h2.push(post.clone());
                    hs.push(h2);
                }
            }
        }
    }
    report.set_extra("histories", json!(hs.len()));
    report.sample(json!({"history": hs[100.min(hs.len() - 1)].iter().map(name).collect::<Vec<_>>()}));
    report.sample(json!({"history": hs[hs.len() / 2].iter().map(name).collect::<Vec<_>>()}));
    report.sample(json!({"history": hs[hs.len() - 1].iter().map(name).collect::<Vec<_>>()}));
    hs.par_iter().for_each_init(new_rt, |rt, h| {
        if report.over_cap() {
            return;
        }
        check_history(&report, rt, h);
        report.eval(Some(&h));
    });
    // engine S at system-call granularity: an auto compaction racing ONE append; what it plans and
    // creates must be what one of the two sequential orders plans and creates, and the log and the
    // caches must be sound afterwards
    {
        use crate::race::{job, Pre, Reader, Writer};
        let tier = report.tier();
        let t = tier.as_str();
        let cap = report.opts.wall_cap_s;
        let mut jobs = vec![job(t, "c09", cap, Pre::OpenTurn, Reader::AutoCompaction, Writer::Message, 1), job(t, "c09", cap, Pre::OpenTurn, Reader::AutoCompaction, Writer::AutoCompaction, 1)];
        if tier == crate::common::Tier::Thorough {
            for pre in [Pre::OpenTurn, Pre::OpenTurnNoCaches, Pre::LongWithCheckpoint] {
                for w in [Writer::Message, Writer::RunEnded, Writer::SideEffect, Writer::Cursor, Writer::AutoCompaction] {
                    jobs.push(job(t, "c09", cap, pre, Reader::AutoCompaction, w, 1));
                }
            }
        }
        report.set_extra("race_configs", json!(jobs.len()));
        crate::common::run_workers(&report, jobs, 16, &crate::race::shim_env());
    }
    report.finish()
}
