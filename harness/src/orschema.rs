//! An independent reading of "a request passes schema validation": the OpenResponses schema files
//! of the repository (schemas/openresponses/split_components.json) compiled directly with the
//! jsonschema crate - not through rip-openresponses' own `validate_create_response_body`, which is
//! code under test. Same structure as the specification demands: `tools` items against
//! ResponsesToolParam, `tool_choice` against ToolChoiceParam, everything else against
//! CreateResponseBody.

use std::collections::BTreeMap;
use std::sync::OnceLock;

use jsonschema::JSONSchema;
use serde_json::{json, Value};

const PREFIX: &str = "https://openresponses.local/components/schemas/";

struct Validators {
    body: JSONSchema,
    tool: JSONSchema,
    choice: JSONSchema,
}

fn compile(components: &BTreeMap<String, Value>, name: &str) -> JSONSchema {
    let mut options = JSONSchema::options();
    for (n, schema) in components {
        options.with_document(format!("{PREFIX}{n}"), schema.clone());
    }
    let root = json!({"$ref": format!("{PREFIX}{name}")});
    options.compile(&root).unwrap_or_else(|e| crate::common::machinery_failure(&format!("compile schema {name}: {e}")))
}

fn validators() -> &'static Validators {
    static V: OnceLock<Validators> = OnceLock::new();
    V.get_or_init(|| {
        let raw = std::fs::read_to_string("/repo/schemas/openresponses/split_components.json").unwrap_or_else(|e| crate::common::machinery_failure(&format!("read split_components.json: {e}")));
        let components: BTreeMap<String, Value> = serde_json::from_str(&raw).unwrap_or_else(|e| crate::common::machinery_failure(&format!("parse split_components.json: {e}")));
        Validators { body: compile(&components, "CreateResponseBody.json"), tool: compile(&components, "ResponsesToolParam.json"), choice: compile(&components, "ToolChoiceParam.json") }
    })
}

/// Ok, or the first few schema errors.
pub fn create_response_body_errors(body: &Value) -> Vec<String> {
    let v = validators();
    let mut errors: Vec<String> = Vec::new();
    let mut rest = body.clone();
    if let Value::Object(map) = &mut rest {
        match map.remove("tools") {
            None | Some(Value::Null) => {}
            Some(Value::Array(items)) => {
                for (i, item) in items.iter().enumerate() {
                    if let Err(errs) = v.tool.validate(item) {
                        errors.extend(errs.take(2).map(|e| format!("tools[{i}]: {e}")));
                    }
                }
            }
            Some(_) => errors.push("tools is neither an array nor null".into()),
        }
        match map.remove("tool_choice") {
            None | Some(Value::Null) => {}
            Some(c) => {
                if let Err(errs) = v.choice.validate(&c) {
                    errors.extend(errs.take(2).map(|e| format!("tool_choice: {e}")));
                }
            }
        }
    }
    if let Err(errs) = v.body.validate(&rest) {
        errors.extend(errs.take(4).map(|e| crate::common::truncate(&e.to_string(), 300)));
    }
    errors
}
