//! C14 — rewind restores exactly the checkpointed files from any later state.
//!
//! Bounded exhaustive enumeration of checkpoint / edit / rewind histories executed on the real
//! ToolRunner with the production checkpoint hook, for process cwd == root and != root (worker
//! subprocesses). Reference model: id -> {path -> Option<bytes>} recorded by observing the real
//! directory at checkpoint time.

use std::collections::BTreeMap;
use std::path::{Path, PathBuf};
use std::sync::Arc;

use rip_kernel::{Event, EventKind};
use rip_tools::{register_builtin_tools, BuiltinToolConfig, ToolInvocation, ToolRegistry, ToolRunner};
use serde_json::{json, Value};

use crate::common::{run_workers, scratch_dir, Opts, Report, Tier};

type Files = BTreeMap<String, Vec<u8>>;

const PATHS: [&str; 3] = ["a", "d/b", "c"];

#[derive(Clone, Debug, PartialEq, Eq, Hash)]
enum Op {
    Checkpoint { paths: Vec<&'static str>, absolute: bool },
    Write { path: &'static str, content: &'static str },
    PatchAdd { path: &'static str },
    PatchUpdate { path: &'static str },
    PatchMove { from: &'static str, to: &'static str },
    PatchDelete { path: &'static str },
    /// one apply_patch call with several ops (the same source twice, add-then-move, ...)
    PatchMulti { which: u8 },
    ExternalDelete { path: &'static str },
    MkdirAtFile { path: &'static str },
    FileAtDir,
    Rewind { which: usize }, // index into the checkpoints created so far (manual and auto); usize::MAX = last
}

/// Legal file names that look unusual to path-handling code.
const ODD_NAMES: [&str; 6] = ["v1..v2", "..x", "x..", ".h", "sp ace", "\u{e9}t\u{e9}"];
/// Names with a blank at either end: legal, and the tool and the checkpoint must mean the same
/// file by them (the patch format trims its paths, so these go to `write` and manual checkpoints only).
const PADDED_NAMES: [&str; 2] = ["pad ", " pad"];

fn alphabet(tier: Tier) -> Vec<Op> {
    let mut ops = vec![
        Op::Checkpoint { paths: vec!["a"], absolute: false },
        Op::Checkpoint { paths: vec!["d/b", "c"], absolute: true },
        Op::Checkpoint { paths: vec!["a", "d/b", "c"], absolute: false },
        Op::Write { path: "a", content: "2\n" },
        Op::Write { path: "c", content: "2\n" },
        Op::Write { path: "d/b", content: "" },
        Op::PatchAdd { path: "c" },
        Op::PatchUpdate { path: "a" },
        Op::PatchMove { from: "a", to: "c" },
        Op::PatchDelete { path: "d/b" },
        Op::ExternalDelete { path: "a" },
        Op::MkdirAtFile { path: "c" },
        Op::FileAtDir,
        Op::Rewind { which: 0 },
        Op::Rewind { which: usize::MAX },
    ];
    if tier == Tier::Thorough {
        ops.extend([
            Op::Checkpoint { paths: vec!["a"], absolute: true },
            Op::Checkpoint { paths: vec!["c"], absolute: false },
            Op::Write { path: "a", content: "3" },
            Op::PatchMove { from: "d/b", to: "a" },
            Op::ExternalDelete { path: "d/b" },
            Op::Rewind { which: 1 },
        ]);
    }
    ops
}

fn multi_patch(which: u8) -> &'static str {
    match which {
        0 => "*** Update File: a\n@@\n+u\n*** Update File: a\n*** Move to: c\n@@\n+m\n",
        1 => "*** Add File: n\n+1\n*** Update File: n\n*** Move to: m\n@@\n+2\n",
        2 => "*** Update File: a\n@@\n+u\n*** Delete File: d/b\n",
        _ => "*** Delete File: a\n*** Add File: a\n+new\n",
    }
}

const MULTI_PATCHES: u8 = 4;

fn is_rewind(op: &Op) -> bool {
    matches!(op, Op::Rewind { .. })
}

fn observe(root: &Path) -> Files {
    let mut out = Files::new();
    for (k, v) in crate::common::tree_snapshot_skipping(root, ".rip") {
        if let Some(bytes) = v {
            out.insert(k, bytes);
        }
    }
    out
}

fn reset(root: &Path) {
    if let Ok(rd) = std::fs::read_dir(root) {
        for e in rd.flatten() {
            if e.file_name() == ".rip" {
                continue;
            }
            let p = e.path();
            if p.is_dir() {
                let _ = std::fs::remove_dir_all(&p);
            } else {
                let _ = std::fs::remove_file(&p);
            }
        }
    }
    std::fs::create_dir_all(root.join("d")).unwrap();
    std::fs::write(root.join("a"), "1\n").unwrap();
    std::fs::write(root.join("d/b"), "1\n").unwrap();
}

struct Ctx {
    root: PathBuf,
    runner: ToolRunner,
    rt: tokio::runtime::Runtime,
    cwd_mode: String,
}

struct Ckpt {
    id: String,
    auto: bool,
    /// path -> bytes at checkpoint time (None = did not exist); observed by the harness
    record: BTreeMap<String, Option<Vec<u8>>>,
}

fn show(files: &Files) -> Value {
    Value::Object(files.iter().map(|(k, v)| (k.clone(), json!(String::from_utf8_lossy(v)))).collect())
}

fn op_json(op: &Op) -> Value {
    match op {
        Op::Checkpoint { paths, absolute } => json!({"op": "checkpoint", "paths": paths, "absolute": absolute}),
        Op::Write { path, content } => json!({"op": "write", "path": path, "content": content}),
        Op::PatchAdd { path } => json!({"op": "patch_add", "path": path}),
        Op::PatchUpdate { path } => json!({"op": "patch_update", "path": path}),
        Op::PatchMove { from, to } => json!({"op": "patch_move", "from": from, "to": to}),
        Op::PatchDelete { path } => json!({"op": "patch_delete", "path": path}),
        Op::PatchMulti { which } => json!({"op": "patch_multi", "which": which, "patch": multi_patch(*which)}),
        Op::ExternalDelete { path } => json!({"op": "external_delete", "path": path}),
        Op::MkdirAtFile { path } => json!({"op": "mkdir_at_file_path", "path": path}),
        Op::FileAtDir => json!({"op": "replace_dir_d_by_file"}),
        Op::Rewind { which } => json!({"op": "rewind", "which": if *which == usize::MAX { json!("last") } else { json!(which) }}),
    }
}

fn case_json(ctx: &Ctx, history: &[Op]) -> Value {
    json!({
        "engine": "H-histories",
        "harness": "c14.rewind",
        "process_cwd": ctx.cwd_mode,
        "initial": {"a": "1\n", "d/b": "1\n"},
        "history": history.iter().map(op_json).collect::<Vec<_>>(),
    })
}

fn run_tool(ctx: &Ctx, session: &str, seq: &mut u64, name: &str, args: Value) -> Vec<Event> {
    ctx.rt.block_on(ctx.runner.run(
        session,
        seq,
        ToolInvocation { name: name.to_string(), args, timeout_ms: None },
    ))
}

fn patch(body: &str) -> Value {
    json!({"patch": format!("*** Begin Patch\n{body}*** End Patch")})
}

/// Executes a history; every judgement is made inline. Returns false when the history is
/// trivial (no rewind was actually attempted against an existing checkpoint).
fn execute(report: &Report, ctx: &Ctx, session: &str, history: &[Op]) -> bool {
    reset(&ctx.root);
    let mut seq = 0u64;
    let mut ckpts: Vec<Ckpt> = Vec::new();
    let mut nontrivial = false;
    for (step, op) in history.iter().enumerate() {
        let before = observe(&ctx.root);
        let hist = &history[..=step];
        match op {
            Op::Checkpoint { paths, absolute } => {
                let files: Vec<PathBuf> = paths
                    .iter()
                    .map(|p| if *absolute { ctx.root.join(p) } else { PathBuf::from(p) })
                    .collect();
                let events = ctx.runner.create_checkpoint(session, &mut seq, "manual".into(), files);
                for e in &events {
                    if let EventKind::CheckpointCreated { checkpoint_id, files, .. } = &e.kind {
                        let mut record = BTreeMap::new();
                        for p in paths {
                            record.insert(p.to_string(), before.get(*p).cloned());
                        }
                        let mut listed: Vec<String> = files.clone();
                        listed.sort();
                        let mut want: Vec<String> = paths.iter().map(|p| p.to_string()).collect();
                        want.sort();
                        if listed != want {
                            report.violation(
                                "C14:checkpoint:files_listed",
                                case_json(ctx, hist),
                                &format!("checkpoint_created lists {:?} for requested {:?}", listed, want),
                            );
                        }
                        ckpts.push(Ckpt { id: checkpoint_id.clone(), auto: false, record });
                    }
                }
                let after = observe(&ctx.root);
                if after != before {
                    report.violation("C14:checkpoint:changed_workspace", case_json(ctx, hist), "creating a checkpoint changed workspace files");
                }
            }
            Op::Write { .. } | Op::PatchAdd { .. } | Op::PatchUpdate { .. } | Op::PatchMove { .. } | Op::PatchDelete { .. } | Op::PatchMulti { .. } => {
                let (name, args) = match op {
                    Op::Write { path, content } => ("write", json!({"path": path, "content": content})),
                    Op::PatchAdd { path } => ("apply_patch", patch(&format!("*** Add File: {path}\n+n\n"))),
                    Op::PatchUpdate { path } => ("apply_patch", patch(&format!("*** Update File: {path}\n@@\n+u\n"))),
                    Op::PatchMove { from, to } => ("apply_patch", patch(&format!("*** Update File: {from}\n*** Move to: {to}\n@@\n+m\n"))),
                    Op::PatchDelete { path } => ("apply_patch", patch(&format!("*** Delete File: {path}\n"))),
                    Op::PatchMulti { which } => ("apply_patch", patch(multi_patch(*which))),
                    _ => unreachable!(),
                };
                let events = run_tool(ctx, session, &mut seq, name, args);
                let after = observe(&ctx.root);
                // automatic checkpoint before the tool ran, covering what the tool changed
                let ck_pos = events.iter().position(|e| matches!(e.kind, EventKind::CheckpointCreated { auto: true, .. }));
                let started_pos = events.iter().position(|e| matches!(e.kind, EventKind::ToolStarted { .. }));
                let changed: Vec<String> = {
                    let mut c = Vec::new();
                    for (k, v) in &after {
                        if before.get(k) != Some(v) {
                            c.push(k.clone());
                        }
                    }
                    for k in before.keys() {
                        if !after.contains_key(k) {
                            c.push(k.clone());
                        }
                    }
                    c.sort();
                    c
                };
                match (ck_pos, started_pos) {
                    (Some(c), Some(s)) if c < s => {
                        if let EventKind::CheckpointCreated { checkpoint_id, files, .. } = &events[c].kind {
                            let uncovered: Vec<&String> = changed.iter().filter(|p| !files.contains(p)).collect();
                            if !uncovered.is_empty() {
                                report.violation(
                                    &format!("C14:auto_checkpoint:does_not_cover_change:{name}"),
                                    case_json(ctx, hist),
                                    &format!("{name} changed {:?} but its automatic checkpoint covers only {:?}", changed, files),
                                );
                            }
                            let mut record = BTreeMap::new();
                            for p in files {
                                record.insert(p.clone(), before.get(p).cloned());
                            }
                            ckpts.push(Ckpt { id: checkpoint_id.clone(), auto: true, record });
                        }
                    }
                    _ => {
                        if !changed.is_empty() {
                            report.violation(
                                &format!("C14:auto_checkpoint:missing:{name}"),
                                case_json(ctx, hist),
                                &format!("{name} changed {:?} without a preceding automatic checkpoint (events: {:?})", changed, events.iter().map(|e| format!("{:?}", std::mem::discriminant(&e.kind))).count()),
                            );
                        }
                    }
                }
            }
            Op::ExternalDelete { path } => {
                let _ = std::fs::remove_file(ctx.root.join(path));
            }
            Op::MkdirAtFile { path } => {
                let p = ctx.root.join(path);
                let _ = std::fs::remove_file(&p);
                let _ = std::fs::create_dir_all(&p);
                let _ = std::fs::write(p.join("x"), "in-dir\n");
            }
            Op::FileAtDir => {
                let d = ctx.root.join("d");
                let _ = std::fs::remove_dir_all(&d);
                let _ = std::fs::write(&d, "d-is-a-file\n");
            }
            Op::Rewind { which } => {
                if ckpts.is_empty() {
                    continue;
                }
                let idx = if *which == usize::MAX { ckpts.len() - 1 } else { *which };
                let Some(ck) = ckpts.get(idx) else {
                    continue;
                };
                nontrivial = true;
                // "an edit can always be undone": nothing stands in the way of this rewind when no
                // covered path is a directory now and every ancestor of one is a directory or absent
                let obstacle = ck.record.keys().any(|p| {
                    let full = ctx.root.join(p);
                    full.is_dir() || full.ancestors().skip(1).take_while(|a| a.starts_with(&ctx.root) && *a != ctx.root).any(|a| a.exists() && !a.is_dir())
                });
                let events = ctx.runner.rewind_checkpoint(session, &mut seq, &ck.id);
                let ok = events.iter().any(|e| matches!(e.kind, EventKind::CheckpointRewound { .. }));
                if !ok && !obstacle {
                    let err = events.iter().find_map(|e| match &e.kind {
                        EventKind::CheckpointFailed { error, .. } => Some(error.clone()),
                        _ => None,
                    });
                    report.violation(
                        "C14:rewind:refused_without_obstacle",
                        case_json(ctx, hist),
                        &format!("rewind to {} checkpoint #{idx} (covers {:?}) failed although no covered path is blocked by a directory or a file in place of a directory: {:?}", if ck.auto { "auto" } else { "manual" }, ck.record.keys().collect::<Vec<_>>(), err),
                    );
                }
                let after = observe(&ctx.root);
                if ok {
                    report.count("rewinds_succeeded", 1);
                    for (p, want) in &ck.record {
                        let got = after.get(p);
                        if got != want.as_ref() {
                            let sig = if want.is_none() {
                                "C14:rewind:file_absent_at_checkpoint_still_present"
                            } else if got.is_none() {
                                "C14:rewind:covered_file_missing_after_rewind"
                            } else {
                                "C14:rewind:covered_file_wrong_bytes"
                            };
                            report.violation(
                                sig,
                                case_json(ctx, hist),
                                &format!(
                                    "after rewinding to {} checkpoint #{idx}, {p} is {:?} but was {:?} when the checkpoint was taken",
                                    if ck.auto { "auto" } else { "manual" },
                                    got.map(|b| String::from_utf8_lossy(b).to_string()),
                                    want.as_ref().map(|b| String::from_utf8_lossy(b).to_string())
                                ),
                            );
                        }
                    }
                    for (p, b) in &before {
                        if ck.record.contains_key(p) {
                            continue;
                        }
                        if after.get(p) != Some(b) {
                            report.violation(
                                "C14:rewind:uncovered_file_touched",
                                case_json(ctx, hist),
                                &format!("rewind changed {p}, which the checkpoint does not cover"),
                            );
                        }
                    }
                    for p in after.keys() {
                        if !before.contains_key(p) && !ck.record.contains_key(p) {
                            report.violation(
                                "C14:rewind:uncovered_file_created",
                                case_json(ctx, hist),
                                &format!("rewind created {p}, which the checkpoint does not cover"),
                            );
                        }
                    }
                } else {
                    report.count("rewinds_failed", 1);
                    if after != before {
                        report.violation(
                            "C14:rewind:failed_rewind_changed_workspace",
                            case_json(ctx, hist),
                            &format!("a failing rewind changed the workspace: before={} after={}", show(&before), show(&after)),
                        );
                    }
                }
            }
        }
    }
    nontrivial
}

fn make_ctx(cwd_mode: &str) -> (tempfile::TempDir, Ctx) {
    let dir = scratch_dir("c14");
    let root = dir.path().join("w/root");
    let elsewhere = dir.path().join("w/elsewhere");
    std::fs::create_dir_all(&root).unwrap();
    std::fs::create_dir_all(&elsewhere).unwrap();
    // a decoy with the same relative names in the other directory: a cwd-relative lookup finds it
    std::fs::create_dir_all(elsewhere.join("d")).unwrap();
    std::fs::write(elsewhere.join("c"), "decoy-c\n").unwrap();
    std::fs::write(elsewhere.join("d/b"), "decoy-b\n").unwrap();
    let cwd = if cwd_mode == "root" { root.clone() } else { elsewhere };
    std::env::set_current_dir(&cwd).expect("chdir");
    let registry = Arc::new(ToolRegistry::default());
    register_builtin_tools(&registry, BuiltinToolConfig { workspace_root: root.clone(), ..Default::default() });
    let hook = ripd::verif_export::WorkspaceCheckpointHook::new(root.clone()).expect("hook");
    let runner = ToolRunner::with_checkpoint_hook(registry, 4, Arc::new(hook));
    let rt = tokio::runtime::Builder::new_current_thread().enable_all().build().expect("rt");
    (dir, Ctx { root, runner, rt, cwd_mode: cwd_mode.to_string() })
}

fn worker(opts: Opts) -> i32 {
    let report = Report::new("C14", "exploration", opts.clone());
    let cwd_mode = opts.extra.iter().find_map(|a| a.strip_prefix("cwd=").map(|s| s.to_string())).unwrap_or("root".into());
    let shard: usize = opts.extra.iter().find_map(|a| a.strip_prefix("shard=").and_then(|s| s.parse().ok())).unwrap_or(0);
    let of: usize = opts.extra.iter().find_map(|a| a.strip_prefix("of=").and_then(|s| s.parse().ok())).unwrap_or(1);
    let depth: usize = opts.extra.iter().find_map(|a| a.strip_prefix("depth=").and_then(|s| s.parse().ok())).unwrap_or(3);
    let (_dir, ctx) = make_ctx(&cwd_mode);
    let ops = alphabet(report.tier());
    // enumerate every history of length <= depth whose last op is a rewind (judgements happen at
    // rewinds and tool ops, both of which are reached by some enumerated history's prefix)
    let n = ops.len();
    let mut counter = 0usize;
    let mut sess_no = 0u64;
    let mut sampled = false;
    // second pass: histories of <= 3 (quick) / 4 (thorough) ops that contain a multi-op patch
    {
        let mut ext = ops.clone();
        for w in 0..MULTI_PATCHES {
            ext.push(Op::PatchMulti { which: w });
        }
        let m = ext.len();
        let d2 = depth.saturating_sub(2).max(2);
        for len in 2..=d2 {
            let total = m.pow(len as u32);
            for code in 0..total {
                let mut c = code;
                let mut idxs = Vec::with_capacity(len);
                for _ in 0..len {
                    idxs.push(c % m);
                    c /= m;
                }
                if !is_rewind(&ext[idxs[len - 1]]) || !idxs.iter().any(|&i| matches!(ext[i], Op::PatchMulti { .. })) {
                    continue;
                }
                counter += 1;
                if counter % of != shard {
                    continue;
                }
                if report.over_cap() {
                    break;
                }
                let history: Vec<Op> = idxs.iter().map(|&i| ext[i].clone()).collect();
                sess_no += 1;
                let session = format!("s{shard}-m{sess_no}");
                if execute(&report, &ctx, &session, &history) {
                    report.eval(Some(&(&history, &ctx.cwd_mode)));
                    report.count("histories_with_a_multi_op_patch", 1);
                }
            }
        }
    }
    // third pass: unusual but legal file names (dots that are not parent segments, a leading dot, a
    // space, a non-ASCII letter) for the tools and for manual checkpoints: every history of 2..3 ops
    // that contains one and ends in a rewind
    {
        let mut ext = ops.clone();
        for name in ODD_NAMES {
            ext.push(Op::Write { path: name, content: "odd\n" });
            ext.push(Op::PatchAdd { path: name });
            ext.push(Op::PatchDelete { path: name });
            ext.push(Op::Checkpoint { paths: vec![name], absolute: false });
        }
        for name in PADDED_NAMES {
            ext.push(Op::Write { path: name, content: "padded\n" });
            ext.push(Op::Checkpoint { paths: vec![name], absolute: false });
        }
        let m = ext.len();
        let is_odd = |o: &Op| match o {
            Op::Write { path, .. } | Op::PatchAdd { path } | Op::PatchDelete { path } => ODD_NAMES.contains(path) || PADDED_NAMES.contains(path),
            Op::Checkpoint { paths, .. } => paths.iter().any(|p| ODD_NAMES.contains(p) || PADDED_NAMES.contains(p)),
            _ => false,
        };
        for len in 2..=3usize {
            let total = m.pow(len as u32);
            for code in 0..total {
                let mut c = code;
                let mut idxs = Vec::with_capacity(len);
                for _ in 0..len {
                    idxs.push(c % m);
                    c /= m;
                }
                if !is_rewind(&ext[idxs[len - 1]]) || !idxs.iter().any(|&i| is_odd(&ext[i])) {
                    continue;
                }
                counter += 1;
                if counter % of != shard {
                    continue;
                }
                if report.over_cap() {
                    break;
                }
                let history: Vec<Op> = idxs.iter().map(|&i| ext[i].clone()).collect();
                sess_no += 1;
                let session = format!("s{shard}-o{sess_no}");
                if execute(&report, &ctx, &session, &history) {
                    report.eval(Some(&(&history, &ctx.cwd_mode)));
                    report.count("histories_with_an_unusual_file_name", 1);
                }
            }
        }
    }
    for len in 1..=depth {
        let total = n.pow(len as u32);
        for code in 0..total {
            let mut c = code;
            let mut idxs = Vec::with_capacity(len);
            for _ in 0..len {
                idxs.push(c % n);
                c /= n;
            }
            if !is_rewind(&ops[idxs[len - 1]]) {
                continue;
            }
            counter += 1;
            if counter % of != shard {
                continue;
            }
            if report.over_cap() {
                break;
            }
            let history: Vec<Op> = idxs.iter().map(|&i| ops[i].clone()).collect();
            sess_no += 1;
            let session = format!("s{shard}-{sess_no}");
            let nontrivial = execute(&report, &ctx, &session, &history);
            if nontrivial {
                report.eval(Some(&(&history, &ctx.cwd_mode)));
            } else {
                report.eval(None::<&u8>);
            }
            if sess_no % 500 == 0 {
                let _ = std::fs::remove_dir_all(ctx.root.join(".rip/checkpoints"));
                let _ = std::fs::create_dir_all(ctx.root.join(".rip/checkpoints"));
            }
            if shard == 0 && nontrivial && !sampled {
                sampled = true;
                report.sample(case_json(&ctx, &history));
            }
        }
    }
    std::env::set_current_dir("/").ok();
    report.finish()
}

pub fn run(opts: Opts) -> i32 {
    if std::env::var("VC_WORKER").is_ok() {
        return worker(opts);
    }
    let report = Report::new("C14", "exploration", opts.clone());
    report.set_rule(
        "every history of <= depth ops ending in a rewind over {manual checkpoint of path subsets given relative/absolute, write tool, \
         apply_patch add/update/move/delete, multi-op patches (same source twice with a move, add-then-move, update+delete, delete-then-add; in histories of <= depth-2 ops), external delete, directory created at a file path, directory replaced by a file, \
         rewind to first/second/last checkpoint (manual or automatic)} from the state {a, d/b}, executed on the real ToolRunner + \
         production checkpoint hook, for process cwd = root and != root (a decoy tree with the same relative names sits in the other \
         directory); distinct non-trivial = history (per cwd mode) in which a rewind targets an existing checkpoint",
    );
    report.assume("reference record = the workspace bytes observed by the harness immediately before each checkpoint was taken");
    report.assume("no symlinks; content alphabet {1\\n, 2\\n, '', 3(no newline)}; three paths");
    if let Some(path) = &opts.replay {
        let case = crate::common::load_replay_case(path);
        return replay(&report, &case);
    }
    let depth = report.tier().pick(5, 6);
    let shards = 8usize;
    let mut jobs = Vec::new();
    for cwd in ["root", "elsewhere"] {
        for s in 0..shards {
            jobs.push(vec![
                "c14".to_string(),
                "--tier".into(),
                report.tier().as_str().into(),
                "--wall-cap".into(),
                format!("{}", report.opts.wall_cap_s),
                format!("cwd={cwd}"),
                format!("shard={s}"),
                format!("of={shards}"),
                format!("depth={depth}"),
            ]);
        }
    }
    report.set_extra("depth", json!(depth));
    report.set_extra("alphabet_ops", json!(alphabet(report.tier()).len()));
    // written-out examples of explored histories (the workers add one executed case each)
    report.sample(json!({"process_cwd": "root", "history": [op_json(&Op::Checkpoint { paths: vec!["a"], absolute: false }), op_json(&Op::Write { path: "a", content: "2\n" }), op_json(&Op::Rewind { which: 0 })]}));
    report.sample(json!({"process_cwd": "elsewhere", "history": [op_json(&Op::PatchMove { from: "a", to: "c" }), op_json(&Op::FileAtDir), op_json(&Op::Rewind { which: usize::MAX })]}));
    report.sample(json!({"process_cwd": "root", "history": [op_json(&Op::PatchMulti { which: 0 }), op_json(&Op::Rewind { which: usize::MAX })]}));
    run_workers(&report, jobs, 16, &[]);
    report.finish()
}

fn replay(report: &Report, case: &Value) -> i32 {
    let cwd_mode = case["process_cwd"].as_str().unwrap_or("root").to_string();
    let (_dir, ctx) = make_ctx(&cwd_mode);
    let mut all = alphabet(Tier::Thorough);
    for w in 0..MULTI_PATCHES {
        all.push(Op::PatchMulti { which: w });
    }
    for name in ODD_NAMES {
        all.push(Op::Write { path: name, content: "odd\n" });
        all.push(Op::PatchAdd { path: name });
        all.push(Op::PatchDelete { path: name });
        all.push(Op::Checkpoint { paths: vec![name], absolute: false });
    }
    for name in PADDED_NAMES {
        all.push(Op::Write { path: name, content: "padded\n" });
        all.push(Op::Checkpoint { paths: vec![name], absolute: false });
    }
    let mut history = Vec::new();
    for h in case["history"].as_array().cloned().unwrap_or_default() {
        if let Some(op) = all.iter().find(|o| op_json(o) == h) {
            history.push(op.clone());
        } else {
            crate::common::machinery_failure(&format!("replay: unknown op {h}"));
        }
    }
    report.eval(Some(&"replay"));
    execute(report, &ctx, "replay", &history);
    println!("final workspace: {}", show(&observe(&ctx.root)));
    std::env::set_current_dir("/").ok();
    report.finish()
}
