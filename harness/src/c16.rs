//! C16 — the tool loop answers each provider call exactly once and never runs a barred tool.
//!
//! Engine P: bounded exhaustive enumeration of function-call scripts (items, argument delivery,
//! output_index orders, duplicates, terminations) x tool_choice settings x history modes, each
//! run through the production router; judged on the requests the scripted provider RECEIVED, on
//! the workspace file the tools append to, and on the log.

use std::sync::Arc;
use std::time::Duration;

use rayon::prelude::*;
use rip_kernel::EventKind;
use rip_provider_openresponses::{SpecificToolChoiceParam, ToolChoiceParam};
use serde_json::{json, Value};

use crate::common::{Opts, Report, Tier};
use crate::provx::{config, new_mt_rt, sse, App, Provider, Resp};

#[derive(Clone, Debug, PartialEq, Eq, Hash)]
enum Item {
    WriteA,
    WriteB,
    Read,
    Unknown,
    BadArgs,
}

#[derive(Clone, Debug, PartialEq, Eq, Hash)]
enum ArgsVia {
    DoneItem,       // output_item.done carries the arguments
    Deltas,         // added (no args) + two deltas + done without arguments
    ArgumentsDone,  // added + function_call_arguments.done + done without arguments
    DeltasThenDone, // deltas say something else, the done item is authoritative
}

#[derive(Clone, Debug, PartialEq, Eq, Hash)]
enum Index {
    InOrder,
    Reversed,
    Missing,
}

#[derive(Clone, Debug, PartialEq, Eq, Hash)]
enum Dup {
    None,
    DoneTwice,     // the first item's done event is repeated
    SameCallId,    // two items share one call id
    /// three items; the third shares the FIRST item's call id (not adjacent after any sort)
    SameCallIdNonAdjacent,
}

#[derive(Clone, Debug, PartialEq, Eq, Hash)]
struct Script {
    items: Vec<Item>,
    via: ArgsVia,
    index: Index,
    dup: Dup,
    done_marker: bool,
    with_ids: bool,
}

#[derive(Clone, Debug, PartialEq, Eq, Hash)]
enum Choice {
    Auto,
    NoneMode,
    Required,
    FnWrite,
    FnRead,
    AllowedRead,
    AllowedEmpty,
    /// an allowed-tools list that names hosted tools only: schema-valid, and no function is allowed
    AllowedHostedOnly,
}

fn choice_param(c: &Choice) -> ToolChoiceParam {
    match c {
        Choice::Auto => ToolChoiceParam::auto(),
        Choice::NoneMode => ToolChoiceParam::none(),
        Choice::Required => ToolChoiceParam::required(),
        Choice::FnWrite => ToolChoiceParam::specific_function("write"),
        Choice::FnRead => ToolChoiceParam::specific_function("read"),
        Choice::AllowedRead => ToolChoiceParam::allowed_tools(vec![SpecificToolChoiceParam::function("read")]),
        Choice::AllowedEmpty => ToolChoiceParam::allowed_tools(vec![]),
        Choice::AllowedHostedOnly => ToolChoiceParam::allowed_tools(vec![SpecificToolChoiceParam::file_search(), SpecificToolChoiceParam::mcp("docs")]),
    }
}

fn allowed(c: &Choice, tool: &str) -> bool {
    match c {
        Choice::Auto | Choice::Required => true,
        Choice::NoneMode | Choice::AllowedEmpty | Choice::AllowedHostedOnly => false,
        Choice::FnWrite => tool == "write",
        Choice::FnRead | Choice::AllowedRead => tool == "read",
    }
}

fn item_tool(i: &Item) -> &'static str {
    match i {
        Item::WriteA | Item::WriteB | Item::BadArgs => "write",
        Item::Read => "read",
        Item::Unknown => "no_such_tool",
    }
}

fn item_args(i: &Item) -> String {
    match i {
        Item::WriteA => json!({"path": "out.txt", "content": "<A>", "append": true}).to_string(),
        Item::WriteB => json!({"path": "out.txt", "content": "<B>", "append": true}).to_string(),
        Item::Read => json!({"path": "seed.txt"}).to_string(),
        Item::Unknown => "{}".to_string(),
        Item::BadArgs => "{not json".to_string(),
    }
}

/// The two item positions that share one call id, if the script has such a pair.
fn shared_pair(s: &Script) -> Option<(usize, usize)> {
    match s.dup {
        Dup::SameCallId => Some((0, 1)),
        Dup::SameCallIdNonAdjacent => Some((0, 2)),
        _ => None,
    }
}

fn call_id(s: &Script, pos: usize) -> String {
    // ids whose lexicographic order differs from their emission order (call_9 < call_10 < call_11
    // numerically, "call_10" < "call_11" < "call_9" as strings)
    if (s.dup == Dup::SameCallId && pos == 1) || (s.dup == Dup::SameCallIdNonAdjacent && pos == 2) {
        "call_9".to_string()
    } else {
        format!("call_{}", 9 + pos)
    }
}

fn events_of(s: &Script) -> Vec<Value> {
    let mut out = vec![json!({"type": "response.completed", "response": {"id": "resp_1"}})];
    let n = s.items.len();
    for (pos, it) in s.items.iter().enumerate() {
        let idx = match s.index {
            Index::InOrder => Some(pos),
            Index::Reversed => Some(n - 1 - pos),
            Index::Missing => None,
        };
        let cid = call_id(s, pos);
        let args = item_args(it);
        let mut item = json!({"type": "function_call", "call_id": cid, "name": item_tool(it)});
        if s.with_ids {
            item["id"] = json!(format!("fc_{pos}"));
        }
        let with_idx = |mut v: Value| {
            if let Some(i) = idx {
                v["output_index"] = json!(i);
            }
            v
        };
        let item_id = if s.with_ids { format!("fc_{pos}") } else { cid.clone() };
        match s.via {
            ArgsVia::DoneItem => {
                let mut d = item.clone();
                d["arguments"] = json!(args);
                out.push(with_idx(json!({"type": "response.output_item.done", "item": d})));
            }
            ArgsVia::Deltas | ArgsVia::DeltasThenDone => {
                let mut a = item.clone();
                a["arguments"] = json!("");
                out.push(with_idx(json!({"type": "response.output_item.added", "item": a})));
                let (first, second) = if s.via == ArgsVia::Deltas { args.split_at(args.len() / 2) } else { ("{\"path\":\"WRONG.txt\",", "\"content\":\"<W>\"}") };
                out.push(with_idx(json!({"type": "response.function_call_arguments.delta", "item_id": item_id, "delta": first})));
                out.push(with_idx(json!({"type": "response.function_call_arguments.delta", "item_id": item_id, "delta": second})));
                let mut d = item.clone();
                d["arguments"] = if s.via == ArgsVia::Deltas { json!("") } else { json!(args) };
                out.push(with_idx(json!({"type": "response.output_item.done", "item": d})));
            }
            ArgsVia::ArgumentsDone => {
                let mut a = item.clone();
                a["arguments"] = json!("");
                out.push(with_idx(json!({"type": "response.output_item.added", "item": a})));
                out.push(with_idx(json!({"type": "response.function_call_arguments.done", "item_id": item_id, "arguments": args})));
                let mut d = item.clone();
                d["arguments"] = json!("");
                out.push(with_idx(json!({"type": "response.output_item.done", "item": d})));
            }
        }
        if s.dup == Dup::DoneTwice && pos == 0 {
            let last = out.last().cloned().unwrap();
            out.push(last);
        }
    }
    if s.done_marker {
        out.push(Value::String("[DONE]".into()));
    }
    out
}

fn scripts(tier: Tier) -> Vec<Script> {
    let items = [Item::WriteA, Item::WriteB, Item::Read, Item::Unknown, Item::BadArgs];
    let mut sets: Vec<Vec<Item>> = vec![vec![]];
    for a in &items {
        sets.push(vec![a.clone()]);
        for b in &items {
            if a != b {
                sets.push(vec![a.clone(), b.clone()]);
                if tier == Tier::Thorough {
                    for c in &items {
                        if c != a && c != b {
                            sets.push(vec![a.clone(), b.clone(), c.clone()]);
                        }
                    }
                }
            }
        }
    }
    let mut out = Vec::new();
    for set in &sets {
        for via in [ArgsVia::DoneItem, ArgsVia::Deltas, ArgsVia::ArgumentsDone, ArgsVia::DeltasThenDone] {
            for index in [Index::InOrder, Index::Reversed, Index::Missing] {
                for dup in [Dup::None, Dup::DoneTwice, Dup::SameCallId] {
                    if set.is_empty() && (dup != Dup::None || index != Index::InOrder || via != ArgsVia::DoneItem) {
                        continue;
                    }
                    if dup == Dup::SameCallId && set.len() < 2 {
                        continue;
                    }
                    if set.len() < 2 && index == Index::Reversed {
                        continue;
                    }
                    for done_marker in [true, false] {
                        for with_ids in [true, false] {
                            if tier == Tier::Quick && (!with_ids && via != ArgsVia::DoneItem) {
                                continue;
                            }
                            out.push(Script { items: set.clone(), via: via.clone(), index: index.clone(), dup: dup.clone(), done_marker, with_ids });
                        }
                    }
                }
            }
        }
    }
    // a call id that comes back on a later, non-adjacent item (A, B, A)
    for set in [vec![Item::WriteA, Item::WriteB, Item::Read], vec![Item::WriteB, Item::Read, Item::WriteA], vec![Item::Read, Item::WriteA, Item::WriteB]] {
        for index in [Index::InOrder, Index::Missing, Index::Reversed] {
            for via in [ArgsVia::DoneItem, ArgsVia::Deltas] {
                out.push(Script { items: set.clone(), via, index: index.clone(), dup: Dup::SameCallIdNonAdjacent, done_marker: true, with_ids: true });
            }
        }
    }
    out
}

fn outputs_in(request: &Value) -> Vec<String> {
    request["input"]
        .as_array()
        .map(|a| a.iter().filter(|i| i["type"] == "function_call_output").filter_map(|i| i["call_id"].as_str().map(|s| s.to_string())).collect())
        .unwrap_or_default()
}

fn run_case(report: &Report, rt: &Arc<tokio::runtime::Runtime>, provider: &Provider, key: &str, s: &Script, choice: &Choice, stateless: bool, numbering_only: bool) {
    let evs = events_of(s);
    provider.script(
        key,
        vec![
            Resp::Sse { chunks: vec![sse(&evs)], abort: false },
            Resp::Sse { chunks: vec![sse(&[json!({"type": "response.output_text.delta", "delta": "done"}), Value::String("[DONE]".into())])], abort: false },
        ],
        true,
    );
    let mut cfg = config(provider.endpoint(key));
    cfg.tool_choice = choice_param(choice);
    cfg.stateless_history = stateless;
    let app = App::new(rt.clone(), Some(cfg));
    std::fs::write(app.root.join("seed.txt"), "seed\n").unwrap();
    let thread = app.ensure_thread();
    let _ = app.post_and_wait(&thread, "go", None, Duration::from_secs(8));
    if provider.received(key).is_empty() {
        // the run never reached the scripted provider (local connect failure under load): this is
        // harness infrastructure, not behaviour of the loop - never judged
        let invalid = app.log_events().iter().any(|e| matches!(&e.kind, EventKind::SessionEnded { reason } if reason == "invalid_request"));
        report.count(if invalid { "requests_failing_validation_never_sent" } else { "info_case_skipped_provider_not_reached" }, 1);
        provider.forget(key);
        return;
    }
    report.eval(Some(&(s, choice, stateless)));
    let case = || json!({"engine": "P", "harness": "c16.tool_loop", "script": format!("{s:?}"), "tool_choice": format!("{choice:?}"), "stateless_history": stateless});
    let received = provider.received(key);
    let events = app.log_events();
    // a request that fails schema validation is never sent: every request the provider RECEIVED
    // passes the schema files, compiled independently of the gate under test
    if !numbering_only {
        for (k, r) in received.iter().enumerate() {
            let errs = crate::orschema::create_response_body_errors(r);
            if !errs.is_empty() {
                report.violation("C16:invalid_request_sent", case(), &format!("request #{k} reached the provider although it fails the schema: {}", errs.join(" | ")));
                break;
            }
        }
    }
    // every stream of the log reads 0,1,2,... in file order (each branch of the loop - executed,
    // refused, failed, unknown tool - threads the session counter through its synthesized frames)
    {
        let mut per: std::collections::BTreeMap<(String, String), Vec<u64>> = std::collections::BTreeMap::new();
        for e in &events {
            per.entry((format!("{:?}", e.stream_kind()), e.stream_id().to_string())).or_default().push(e.seq);
        }
        for ((kind, _), seqs) in per {
            if seqs != (0..seqs.len() as u64).collect::<Vec<_>>() {
                let sig = if numbering_only { format!("C01:stream_numbering:tool_loop:{choice:?}") } else { format!("C16:log_numbering:{choice:?}") };
                report.violation(&sig, case(), &format!("a {kind} stream of the run reads {seqs:?}"));
                break;
            }
        }
    }
    if numbering_only {
        provider.forget(key);
        return;
    }
    // reference: completed calls = distinct call ids in emission order, ordered by output_index (stable)
    let n = s.items.len();
    let mut calls: Vec<(usize, String, &Item)> = Vec::new(); // (output_index, call id, item)
    for (pos, it) in s.items.iter().enumerate() {
        let cid = call_id(s, pos);
        if calls.iter().any(|c| c.1 == cid) {
            continue;
        }
        let idx = match s.index {
            Index::InOrder => pos,
            Index::Reversed => n - 1 - pos,
            Index::Missing => 0,
        };
        calls.push((idx, cid, it));
    }
    calls.sort_by_key(|c| c.0);
    let expected_ids: Vec<String> = calls.iter().map(|c| c.1.clone()).collect();
    if calls.is_empty() {
        if received.len() != 1 {
            report.violation("C16:request_count:no_calls", case(), &format!("{} requests were sent for a response without calls", received.len()));
        }
    } else {
        if received.len() < 2 {
            report.violation("C16:calls_never_answered", case(), &format!("the provider emitted {} call(s) but received only {} request(s)", calls.len(), received.len()));
        } else {
            let got = if stateless {
                let all = outputs_in(&received[1]);
                all
            } else {
                outputs_in(&received[1])
            };
            let same = if shared_pair(s).is_some() {
                // which of the two items sharing a call id survives (and so where that id sorts) is
                // not defined by the property: each id answered exactly once is
                let mut a = got.clone();
                a.sort();
                let mut b = expected_ids.clone();
                b.sort();
                a == b
            } else {
                got == expected_ids
            };
            if !same {
                let sig = if s.dup != Dup::None && got.len() > expected_ids.len() {
                    format!("C16:call_answered_twice:{:?}", s.dup)
                } else if got.len() != expected_ids.len() {
                    "C16:answers_missing_or_extra".to_string()
                } else {
                    "C16:answer_order".to_string()
                };
                report.violation(&sig, case(), &format!("request 2 answers calls {:?}; the provider's completed calls in output order are {:?}", got, expected_ids));
            }
        }
    }
    // executions: file effects and tool_started frames
    let out = std::fs::read_to_string(app.root.join("out.txt")).unwrap_or_default();
    let marker_of = |it: &Item| match it {
        Item::WriteA => Some("<A>"),
        Item::WriteB => Some("<B>"),
        _ => None,
    };
    if let Some((p, q)) = shared_pair(s) {
        // two items sharing one call id are ONE call; which of the two a loop keeps is not
        // defined by the property: only "at most one execution for that call id" is judged
        let shared: usize = [p, q].iter().filter_map(|&i| s.items.get(i)).filter_map(marker_of).map(|m| out.matches(m).count()).sum();
        if shared > 1 {
            report.violation(&format!("C16:call_executed_twice:{:?}", s.dup), case(), &format!("two items sharing call id call_9 were both executed; out.txt = {out:?}"));
        }
    }
    for (marker, item) in [("<A>", Item::WriteA), ("<B>", Item::WriteB)] {
        // items of the shared pair are judged above
        if let Some((p, q)) = shared_pair(s) {
            if s.items.get(p) == Some(&item) || s.items.get(q) == Some(&item) {
                continue;
            }
        }
        let n_marker = out.matches(marker).count();
        let present = calls.iter().any(|c| *c.2 == item);
        let permitted = allowed(choice, "write");
        let max = if present && permitted { 1 } else { 0 };
        if n_marker > max {
            let sig = if !permitted { "C16:barred_tool_executed" } else if present { "C16:call_executed_twice" } else { "C16:phantom_execution" };
            report.violation(&format!("{sig}:{:?}", s.dup), case(), &format!("marker {marker} was written {n_marker} times (allowed {max}); out.txt = {out:?}"));
        }
        if present && permitted && n_marker == 0 && s.via != ArgsVia::DeltasThenDone {
            report.violation("C16:call_not_executed", case(), &format!("permitted call for {marker} was never executed; out.txt = {out:?}"));
        }
    }
    if out.contains("<W>") || app.root.join("WRONG.txt").exists() {
        report.violation("C16:stale_argument_deltas_executed", case(), "the tool ran with the superseded delta arguments instead of the arguments of the completed item");
    }
    let started = events.iter().filter(|e| matches!(&e.kind, EventKind::ToolStarted { .. })).count();
    if started > 32 {
        report.violation("C16:tool_call_bound", case(), &format!("{started} tool_started frames in one run"));
    }
    for (_, cid, it) in &calls {
        if shared_pair(s).is_some() && cid == "call_9" {
            continue;
        }
        if !allowed(choice, item_tool(it)) {
            // a barred call yields only the denied started/failed pair
            let denied = events.iter().any(|e| matches!(&e.kind, EventKind::ToolStarted { tool_id, .. } if tool_id == &format!("tool_denied_{cid}")));
            if !denied {
                report.violation("C16:barred_call_not_denied", case(), &format!("call {cid} to {} is barred by tool_choice but no denial was recorded", item_tool(it)));
            }
        }
    }
    // every request the provider received is a well-formed create-response payload
    for (k, r) in received.iter().enumerate() {
        if !r.is_object() || r.get("input").is_none() || r.get("stream") != Some(&json!(true)) {
            report.violation("C16:invalid_request_sent", case(), &format!("request {k} is not a valid streaming create-response payload: {}", crate::common::compact(r, 300)));
        }
    }
    if stateless && received.len() >= 2 {
        let a = received[0]["input"].as_array().cloned().unwrap_or_default();
        let b = received[1]["input"].as_array().cloned().unwrap_or_default();
        if b.len() < a.len() || b[..a.len()] != a[..] {
            report.violation("C16:stateless_history_not_extending", case(), "in stateless-history mode the second request's input does not extend the first one's");
        }
    }
    provider.forget(key);
}

/// A response that carries completed calls but NO response id (nothing names the response the
/// follow-up would continue): whatever the loop does then, a call that was EXECUTED is answered -
/// the provider receives a follow-up request holding its output - and one that is not answered
/// was not executed.
fn run_no_response_id(report: &Report, rt: &Arc<tokio::runtime::Runtime>, provider: &Provider, key: &str, stateless: bool, choice: &Choice, calls: usize) {
    let mut evs: Vec<Value> = Vec::new();
    for k in 0..calls {
        evs.push(json!({"type": "response.output_item.done", "output_index": k, "item": {"type": "function_call", "id": format!("fc_{k}"), "call_id": format!("call_n{k}"), "name": "write", "arguments": json!({"path": "out.txt", "content": format!("<N{k}>"), "append": true}).to_string()}}));
    }
    evs.push(Value::String("[DONE]".into()));
    provider.script(
        key,
        vec![Resp::Sse { chunks: vec![sse(&evs)], abort: false }, Resp::Sse { chunks: vec![sse(&[json!({"type": "response.completed", "response": {"id": "resp_2"}}), Value::String("[DONE]".into())])], abort: false }],
        false,
    );
    let mut cfg = config(provider.endpoint(key));
    cfg.stateless_history = stateless;
    cfg.tool_choice = choice_param(choice);
    let app = App::new(rt.clone(), Some(cfg));
    let thread = app.ensure_thread();
    let _ = app.post_and_wait(&thread, "go", None, Duration::from_secs(30));
    report.eval(Some(&("no_response_id", stateless, choice, calls)));
    report.count("runs_without_a_response_id", 1);
    let out = std::fs::read_to_string(app.root.join("out.txt")).unwrap_or_default();
    let received = provider.received(key);
    let answered: Vec<String> = received.iter().skip(1).flat_map(outputs_in).collect();
    let case = json!({"engine": "P", "harness": "c16.no_response_id", "stateless_history": stateless, "tool_choice": format!("{choice:?}"), "calls": calls});
    for k in 0..calls {
        let executed = out.matches(&format!("<N{k}>")).count();
        let answers = answered.iter().filter(|c| **c == format!("call_n{k}")).count();
        if executed > 1 || answers > 1 || (executed == 1 && answers == 0) {
            report.violation("C16:executed_call_not_answered_once", case.clone(), &format!("a response without a response id: call_n{k} was executed {executed} time(s) and answered {answers} time(s) ({} requests received)", received.len()));
        }
        if !allowed(choice, "write") && executed > 0 {
            report.violation("C16:barred_tool_executed:no_response_id", case.clone(), &format!("write is barred by tool_choice {choice:?} and ran"));
        }
    }
    provider.forget(key);
}

fn run_endless(report: &Report, rt: &Arc<tokio::runtime::Runtime>, provider: &Provider, key: &str, stateless: bool, choice: &Choice) {
    let call = json!({"type": "response.output_item.done", "output_index": 0, "item": {"type": "function_call", "id": "fc", "call_id": "call_x", "name": "write", "arguments": json!({"path": "out.txt", "content": "<E>", "append": true}).to_string()}});
    provider.script(key, vec![Resp::Sse { chunks: vec![sse(&[json!({"type": "response.completed", "response": {"id": "r"}}), call, Value::String("[DONE]".into())])], abort: false }], true);
    let mut cfg = config(provider.endpoint(key));
    cfg.stateless_history = stateless;
    cfg.tool_choice = choice_param(choice);
    let app = App::new(rt.clone(), Some(cfg));
    let thread = app.ensure_thread();
    let _ = app.post_and_wait(&thread, "go", None, Duration::from_secs(30));
    report.eval(Some(&("endless", stateless, choice)));
    let out = std::fs::read_to_string(app.root.join("out.txt")).unwrap_or_default();
    let n = out.matches("<E>").count();
    let requests = provider.received(key).len();
    let events = app.log_events();
    let tool_started = events.iter().filter(|e| matches!(&e.kind, EventKind::ToolStarted { .. })).count();
    let ended = events.iter().any(|e| matches!(&e.kind, EventKind::SessionEnded { reason } if reason == "max_tool_calls_exceeded"));
    let case = json!({"harness": "c16.endless", "stateless_history": stateless, "tool_choice": format!("{choice:?}")});
    // every call - executed or refused - counts against the bound of 32 calls per run
    if n > 32 || requests > 33 || tool_started > 32 || !ended {
        report.violation(
            &format!("C16:tool_call_bound:{choice:?}"),
            case.clone(),
            &format!("a provider that answers every tool result with another call: {requests} requests, {tool_started} calls started, {n} executions, ended with max_tool_calls_exceeded = {ended}"),
        );
    }
    if !allowed(choice, "write") && n > 0 {
        report.violation(&format!("C16:barred_tool_ran:endless:{choice:?}"), case, &format!("write is barred by tool_choice {choice:?} and ran {n} times"));
    }
    report.count("endless_executions", n as u64);
    provider.forget(key);
}

/// C01 part: the session / thread counters through every branch of the tool loop (sequential
/// runs; the oracle is the per-stream numbering of the log). Scripts with at most one call x all
/// seven tool_choice settings x both history modes.
/// Identifiers the schema constrains (call id length, function name alphabet): one call whose id or
/// name is at or beyond the limits. Whatever the loop does with it - answer it, refuse it, end the
/// run - no request that fails the schema may reach the provider.
fn odd_identifier_sweep(report: &Report, rt: &Arc<tokio::runtime::Runtime>, provider: &Provider) {
    let ids: Vec<(String, &str)> = vec![("call_1".into(), "plain"), (String::new(), "empty"), ("c".repeat(64), "64_chars"), ("c".repeat(65), "65_chars"), ("c".repeat(300), "300_chars"), ("call id\u{e9}".into(), "odd_chars")];
    let names: Vec<(String, &str)> = vec![("read".into(), "read"), ("functions.noop".into(), "dotted"), ("n".repeat(64), "64_chars"), ("n".repeat(65), "65_chars"), (String::new(), "empty"), ("na me".into(), "space")];
    let cases: Vec<(usize, usize, bool)> = (0..ids.len()).flat_map(|i| (0..names.len()).flat_map(move |n| [(i, n, false), (i, n, true)])).collect();
    let invalid_ends = std::sync::atomic::AtomicU64::new(0);
    cases.par_iter().for_each(|(i, n, stateless)| {
        if report.over_cap() {
            return;
        }
        let key = format!("odd-{i}-{n}-{stateless}/v1/responses");
        let (cid, cid_label) = &ids[*i];
        let (name, name_label) = &names[*n];
        let evs = vec![
            json!({"type": "response.completed", "response": {"id": "resp_1"}}),
            json!({"type": "response.output_item.done", "output_index": 0, "item": {"type": "function_call", "id": "fc_0", "call_id": cid, "name": name, "arguments": "{\"path\":\"seed.txt\"}"}}),
            Value::String("[DONE]".into()),
        ];
        provider.script(
            &key,
            vec![Resp::Sse { chunks: vec![sse(&evs)], abort: false }, Resp::Sse { chunks: vec![sse(&[json!({"type": "response.output_text.delta", "delta": "done"}), Value::String("[DONE]".into())])], abort: false }],
            true,
        );
        let mut cfg = config(provider.endpoint(&key));
        cfg.stateless_history = *stateless;
        let app = App::new(rt.clone(), Some(cfg));
        std::fs::write(app.root.join("seed.txt"), "seed\n").unwrap();
        let thread = app.ensure_thread();
        let _ = app.post_and_wait(&thread, "go", None, Duration::from_secs(8));
        report.eval(Some(&("odd_identifier", cid_label, name_label, stateless)));
        report.count("odd_identifier_runs", 1);
        if app.log_events().iter().any(|e| matches!(&e.kind, EventKind::SessionEnded { reason } if reason == "invalid_request")) {
            invalid_ends.fetch_add(1, std::sync::atomic::Ordering::SeqCst);
        }
        for (k, r) in provider.received(&key).iter().enumerate() {
            let errs = crate::orschema::create_response_body_errors(r);
            if !errs.is_empty() {
                report.violation(
                    "C16:invalid_request_sent",
                    json!({"engine": "P", "harness": "c16.odd_identifiers", "call_id": cid_label, "name": name_label, "stateless_history": stateless}),
                    &format!("request #{k} reached the provider although it fails the schema: {}", errs.join(" | ")),
                );
                break;
            }
        }
        provider.forget(&key);
    });
    report.count("odd_identifier_runs_ended_invalid_request", invalid_ends.load(std::sync::atomic::Ordering::SeqCst));
}

/// Runs that start from a compiled context with EARLIER turns (the second message of a thread) and
/// make 1 or 2 tool rounds: in stateless-history mode every request's input extends the previous
/// request's input; and no request that fails the schema is sent.
fn prior_turn_sweep(report: &Report, rt: &Arc<tokio::runtime::Runtime>, provider: &Provider) {
    let items = [Item::WriteA, Item::Read, Item::Unknown, Item::BadArgs];
    let cases: Vec<(Item, usize, bool, Choice)> = items
        .iter()
        .flat_map(|it| [1usize, 2].into_iter().flat_map(move |rounds| [false, true].into_iter().flat_map(move |st| [Choice::Auto, Choice::NoneMode].into_iter().map(move |c| (it.clone(), rounds, st, c)))))
        .collect();
    cases.par_iter().enumerate().for_each(|(n, (item, rounds, stateless, choice))| {
        if report.over_cap() {
            return;
        }
        let key = format!("prior-{n}/v1/responses");
        let text = |t: &str| Resp::Sse { chunks: vec![sse(&[json!({"type": "response.output_text.delta", "delta": t}), Value::String("[DONE]".into())])], abort: false };
        provider.script(&key, vec![text("first answer")], true);
        let mut cfg = config(provider.endpoint(&key));
        cfg.tool_choice = choice_param(choice);
        cfg.stateless_history = *stateless;
        let app = App::new(rt.clone(), Some(cfg));
        std::fs::write(app.root.join("seed.txt"), "seed\n").unwrap();
        let thread = app.ensure_thread();
        let _ = app.post_and_wait(&thread, "first question", None, Duration::from_secs(8));
        provider.forget(&key);
        let call = |k: usize| {
            Resp::Sse {
                chunks: vec![sse(&[
                    json!({"type": "response.completed", "response": {"id": format!("resp_{k}")}}),
                    json!({"type": "response.output_item.done", "output_index": 0, "item": {"type": "function_call", "id": format!("fc_{k}"), "call_id": format!("call_{k}"), "name": item_tool(item), "arguments": item_args(item)}}),
                    Value::String("[DONE]".into()),
                ])],
                abort: false,
            }
        };
        let mut responses: Vec<Resp> = (0..*rounds).map(call).collect();
        responses.push(text("done"));
        provider.script(&key, responses, true);
        let _ = app.post_and_wait(&thread, "second question", None, Duration::from_secs(8));
        let received = provider.received(&key);
        report.eval(Some(&("prior_turn", item, rounds, stateless, choice)));
        report.count("prior_turn_runs", 1);
        let case = json!({"engine": "P", "harness": "c16.prior_turn", "item": format!("{item:?}"), "tool_rounds": rounds, "stateless_history": stateless, "tool_choice": format!("{choice:?}")});
        if received.len() != rounds + 1 {
            report.violation("C16:request_count:prior_turn", case.clone(), &format!("{} requests for {rounds} tool round(s) after an earlier turn", received.len()));
        }
        for (k, r) in received.iter().enumerate() {
            let errs = crate::orschema::create_response_body_errors(r);
            if !errs.is_empty() {
                report.violation("C16:invalid_request_sent", case.clone(), &format!("request #{k} reached the provider although it fails the schema: {}", errs.join(" | ")));
                break;
            }
        }
        if *stateless {
            for k in 1..received.len() {
                let a = received[k - 1]["input"].as_array().cloned().unwrap_or_default();
                let b = received[k]["input"].as_array().cloned().unwrap_or_default();
                if b.len() < a.len() || b[..a.len()] != a[..] {
                    report.violation(
                        "C16:stateless_history_not_extending",
                        case.clone(),
                        &format!("request #{k}'s input ({} items) does not extend request #{}'s ({} items): the first differing position holds {} vs {}", b.len(), k - 1, a.len(), a.iter().zip(b.iter()).find(|(x, y)| x != y).map(|(x, _)| crate::common::compact(x, 120)).unwrap_or_else(|| "-".into()), a.iter().zip(b.iter()).find(|(x, y)| x != y).map(|(_, y)| crate::common::compact(y, 120)).unwrap_or_else(|| "(shorter)".into())),
                    );
                    break;
                }
            }
        }
        provider.forget(&key);
    });
}

pub fn numbering_sweep(report: &Report) {
    let rt = new_mt_rt();
    let provider = Provider::start(&rt);
    let all: Vec<Script> = scripts(Tier::Quick).into_iter().filter(|s| s.items.len() <= 1).collect();
    report.set_extra("tool_loop_numbering_scripts", json!(all.len()));
    let counter = std::sync::atomic::AtomicUsize::new(0);
    let pool = rayon::ThreadPoolBuilder::new().num_threads(12).build().expect("pool");
    pool.install(|| {
        all.par_iter().for_each(|s| {
            if report.over_cap() {
                return;
            }
            for c in [Choice::Auto, Choice::NoneMode, Choice::Required, Choice::FnWrite, Choice::FnRead, Choice::AllowedRead, Choice::AllowedEmpty] {
                for stateless in [false, true] {
                    let n = counter.fetch_add(1, std::sync::atomic::Ordering::SeqCst);
                    run_case(report, &rt, &provider, &format!("c01n-{n}/v1/responses"), s, &c, stateless, true);
                    report.count("tool_loop_runs_numbering_checked", 1);
                }
            }
        });
    });
}

pub fn run(opts: Opts) -> i32 {
    let report = Report::new("C16", "exploration", opts.clone());
    if let Some(path) = &opts.replay {
        report.replay_by_re_enumeration(path);
    }
    report.set_rule(
        "scripts: every set of 0..2 (quick) / 0..3 (thorough) distinct function-call items from {write A, write B (append, so a double \
         execution is visible), read, unknown tool, invalid arguments} x argument delivery {done item, deltas, arguments.done, superseded \
         deltas then done} x output_index {in order, reversed, missing (ties)} x duplicates {none, repeated done, shared call id, a call id coming back on a non-adjacent third item} x \
         {[DONE], none} x item ids {present, missing}; tool_choice in {auto, none, required, function(write), function(read), \
         allowed[read], allowed[]} (all 7 on scripts with <=1 item, auto+none+function(read) otherwise in quick); both history modes; \
         plus an endless-call script under tool_choice {auto, none, function(read)} (executed and refused calls both count against the bound of 32); judged on the requests the provider received (each also against the schema files, compiled independently of the gate under test), the appended file and the log; plus one call whose call id / function name is at or beyond the schema's limits (6 ids x 6 names x 2 history modes), and 32 runs that start from a compiled context with an earlier turn and make 1 or 2 tool rounds",
    );
    report.assume("reference: a call is completed by its output_item.done; distinct call ids, ordered by output_index with emission order breaking ties; a repeated done / shared call id denotes ONE call");
    let tier = report.tier();
    let rt = new_mt_rt();
    let provider = Provider::start(&rt);
    let all = scripts(tier);
    report.set_extra("scripts", json!(all.len()));
    report.sample(json!({"script": format!("{:?}", all[5]), "events": events_of(&all[5])}));
    report.sample(json!({"script": format!("{:?}", all[all.len() / 2])}));
    report.sample(json!({"script": format!("{:?}", all[all.len() - 1])}));
    let counter = std::sync::atomic::AtomicUsize::new(0);
    let pool = rayon::ThreadPoolBuilder::new().num_threads(12).build().expect("pool");
    pool.install(|| {
        all.par_iter().for_each(|s| {
            if report.over_cap() {
                return;
            }
            let choices: Vec<Choice> = if s.items.len() <= 1 || tier == Tier::Thorough {
                vec![Choice::Auto, Choice::NoneMode, Choice::Required, Choice::FnWrite, Choice::FnRead, Choice::AllowedRead, Choice::AllowedEmpty, Choice::AllowedHostedOnly]
            } else {
                vec![Choice::Auto, Choice::NoneMode, Choice::FnRead]
            };
            for c in &choices {
                for stateless in [false, true] {
                    if tier == Tier::Quick && stateless && *c != Choice::Auto {
                        continue;
                    }
                    let n = counter.fetch_add(1, std::sync::atomic::Ordering::SeqCst);
                    run_case(&report, &rt, &provider, &format!("c16-{n}/v1/responses"), s, c, stateless, false);
                }
            }
        });
        for stateless in [false, true] {
            for c in [Choice::Auto, Choice::NoneMode, Choice::FnRead] {
                let n = counter.fetch_add(1, std::sync::atomic::Ordering::SeqCst);
                run_endless(&report, &rt, &provider, &format!("c16e-{n}/v1/responses"), stateless, &c);
            }
        }
        for stateless in [false, true] {
            for c in [Choice::Auto, Choice::Required, Choice::FnWrite, Choice::NoneMode] {
                for calls in [1usize, 2] {
                    let n = counter.fetch_add(1, std::sync::atomic::Ordering::SeqCst);
                    run_no_response_id(&report, &rt, &provider, &format!("c16r-{n}/v1/responses"), stateless, &c, calls);
                }
            }
        }
        odd_identifier_sweep(&report, &rt, &provider);
        prior_turn_sweep(&report, &rt, &provider);
    });
    report.finish()
}
