//! C06 — a stream subscriber sees every frame exactly once, in order.
//!
//! Engine S: the real emitters (run_session, TaskEmitter::emit, ContinuityStore::append_message)
//! race the real SSE handlers (GET .../events through the production router, body polled frame by
//! frame) under the controlled scheduler. With one subscriber the interleavings are enumerated
//! without a preemption bound.

use std::pin::Pin;
use std::sync::{Arc, Mutex};
use std::task::Poll;

use axum::body::Body;
use axum::http::Request;
use http_body::Body as _;
use rip_kernel::EventKind;
use serde_json::{json, Value};
use tower::ServiceExt;

use crate::common::{Opts, Report, Tier};
use crate::fixture::{new_rt, Fx};
use crate::sched::{explore, ActorBody, ActorCtx, Exec};

#[derive(Clone, Copy, Debug, PartialEq, Eq, Hash)]
enum Kind {
    Session,
    /// a session whose input is a tool envelope: the tool's frames are emitted as ONE BATCH (the
    /// batch path of the emitter, used for tool runs and provider chunks); the log appends between
    /// its frames are scheduling points whatever the batch code looks like
    SessionTool,
    Task,
    /// two emitters of one task (its stdout and stderr readers) and one subscriber
    TaskTwoEmitters,
    Thread,
    ThreadColdCache,
    /// a session / task whose SECOND log append fails (injected I/O error): an early subscriber
    /// (attached before anything is produced) and a late one must receive the same frames
    SessionLogFailure,
    TaskLogFailure,
    /// the same producers, but the client reads NOTHING between the attach and the end of
    /// production: history non-empty and live frames pending when the body is first polled
    SessionLazyReader,
    TaskLazyReader,
    ThreadLazyReader,
    /// the thread stream while ANOTHER, longer thread is appended to as well (the continuity
    /// channel is shared by all threads; the other thread's frames carry higher seqs)
    ThreadBesideAnother,
}

/// The producer set-up a kind shares with another kind.
fn base(kind: Kind) -> Kind {
    match kind {
        Kind::SessionLazyReader => Kind::Session,
        Kind::TaskLazyReader => Kind::Task,
        Kind::ThreadLazyReader => Kind::Thread,
        k => k,
    }
}

fn lazy_reader(kind: Kind) -> bool {
    matches!(kind, Kind::SessionLazyReader | Kind::TaskLazyReader | Kind::ThreadLazyReader)
}

struct World {
    fx: Fx,
    stream_id: String,
    received: Vec<Arc<Mutex<Vec<(u64, String)>>>>,
    statuses: Vec<Arc<Mutex<Option<u16>>>>,
    expected_frames: usize,
    /// body of a subscriber attached before the execution started (log-failure kinds)
    early: Mutex<Option<Body>>,
}

/// Producer environment: the k-th log append of this actor fails.
struct FailNthAppend {
    n: std::cell::Cell<usize>,
    fail_at: usize,
}

impl crate::sched::ActorEnv for FailNthAppend {
    fn fail(&self, name: &str) -> bool {
        if name != "log.append" {
            return false;
        }
        let k = self.n.get();
        self.n.set(k + 1);
        k == self.fail_at
    }
}

/// Polls a response body until it has nothing more right now; returns the frames it yielded.
fn drain_body_now(body: &mut Body) -> Vec<(u64, String)> {
    struct Noop;
    impl std::task::Wake for Noop {
        fn wake(self: Arc<Self>) {}
    }
    let waker = std::task::Waker::from(Arc::new(Noop));
    let mut cx = std::task::Context::from_waker(&waker);
    let mut buf = String::new();
    let mut out = Vec::new();
    for _ in 0..1000 {
        match Pin::new(&mut *body).poll_frame(&mut cx) {
            Poll::Ready(Some(Ok(frame))) => {
                if let Ok(data) = frame.into_data() {
                    buf.push_str(&String::from_utf8_lossy(&data));
                    while let Some(idx) = buf.find("\n\n") {
                        let block: String = buf[..idx].to_string();
                        buf.drain(..idx + 2);
                        for line in block.lines() {
                            if let Some(rest) = line.strip_prefix("data:") {
                                if let Ok(v) = serde_json::from_str::<Value>(rest.trim_start()) {
                                    out.push((v["seq"].as_u64().unwrap_or(u64::MAX), v["id"].as_str().unwrap_or("").to_string()));
                                }
                            }
                        }
                    }
                }
            }
            _ => break,
        }
    }
    out
}

fn filter_for(kind: Kind) -> Vec<&'static str> {
    match base(kind) {
        Kind::SessionLazyReader | Kind::TaskLazyReader | Kind::ThreadLazyReader => unreachable!(),
        Kind::Session | Kind::SessionLogFailure => vec!["sess.publish", "sess.buffer", "sse.session.*", "sub.*", "start"],
        Kind::SessionTool => vec!["sess.publish", "sess.buffer", "sse.session.*", "sub.*", "start", "log.appended"],
        Kind::Task | Kind::TaskTwoEmitters | Kind::TaskLogFailure => vec!["task.publish", "task.buffer", "task.seq", "sse.task.*", "sub.*", "start"],
        Kind::Thread | Kind::ThreadColdCache | Kind::ThreadBesideAnother => vec![
            "cont.publish",
            "sse.thread.*",
            "sub.*",
            "start",
            "log.appended",
            "cache.append.open",
            "cache.append.indexes",
            "cache.try_replay.open",
            "cache.rebuild.create",
            "cache.rebuild.done",
        ],
    }
}

/// Subscriber: the real handler via the router, then the body polled frame by frame.
fn subscriber(router: axum::Router, uri: String, sink: Arc<Mutex<Vec<(u64, String)>>>, status: Arc<Mutex<Option<u16>>>, rt: Arc<tokio::runtime::Runtime>, expected: usize, producers: usize, lazy: bool) -> ActorBody {
    Box::new(move |ctx: &ActorCtx| {
        let _g = rt.enter();
        let req = Request::builder().uri(uri).body(Body::empty()).unwrap();
        let resp = ctx.block_on(router.oneshot(req)).expect("infallible");
        *status.lock().unwrap() = Some(resp.status().as_u16());
        if !resp.status().is_success() {
            return;
        }
        let mut body = resp.into_body();
        let mut buf = String::new();
        // Polling order cannot change what is received (the broadcast receiver buffers everything
        // sent after `subscribe`; capacity 16384): poll until Pending right away (the attach
        // moment), then once more after the producer has finished (drain).
        for phase in 0..2 {
            loop {
                if lazy && phase == 0 {
                    break; // a client that reads nothing until production is over
                }
                let polled = {
                    struct PollFrame<'a>(&'a mut Body);
                    impl std::future::Future for PollFrame<'_> {
                        type Output = Option<Result<http_body::Frame<axum::body::Bytes>, axum::Error>>;
                        fn poll(mut self: Pin<&mut Self>, cx: &mut std::task::Context<'_>) -> Poll<Self::Output> {
                            Pin::new(&mut *self.0).poll_frame(cx)
                        }
                    }
                    let mut f = PollFrame(&mut body);
                    ctx.poll_once(Pin::new(&mut f))
                };
                match polled {
                    Poll::Ready(Some(Ok(frame))) => {
                        if let Ok(data) = frame.into_data() {
                            buf.push_str(&String::from_utf8_lossy(&data));
                            while let Some(idx) = buf.find("\n\n") {
                                let block: String = buf[..idx].to_string();
                                buf.drain(..idx + 2);
                                for line in block.lines() {
                                    if let Some(rest) = line.strip_prefix("data:") {
                                        if let Ok(v) = serde_json::from_str::<Value>(rest.trim_start()) {
                                            let seq = v["seq"].as_u64().unwrap_or(u64::MAX);
                                            let id = v["id"].as_str().unwrap_or("").to_string();
                                            sink.lock().unwrap().push((seq, id));
                                        }
                                    }
                                }
                            }
                        }
                    }
                    Poll::Ready(Some(Err(_))) | Poll::Ready(None) => break,
                    Poll::Pending => break,
                }
                if sink.lock().unwrap().len() >= expected + 2 {
                    break; // more than possible: stop, the oracle reports it
                }
            }
            if phase == 0 {
                ctx.wait_finished("sub.drain", &(0..producers).collect::<Vec<_>>());
            }
        }
    })
}

fn make_world(kind: Kind, rt: &Arc<tokio::runtime::Runtime>, subscribers: usize) -> (World, Vec<ActorBody>) {
    let fx = Fx::new(rt.clone());
    let app = {
        let _g = rt.enter();
        ripd::verif_export::VerifApp::new(fx.engine.clone(), false)
    };
    let router = app.router();
    let mut received = Vec::new();
    let mut statuses = Vec::new();
    let mut actors: Vec<ActorBody> = Vec::new();
    let (stream_id, uri, expected_frames): (String, String, usize);
    let lazy_kind = kind;
    let kind = base(kind);
    match kind {
        Kind::SessionLazyReader | Kind::TaskLazyReader | Kind::ThreadLazyReader => unreachable!(),
        Kind::ThreadBesideAnother => {
            let store = fx.store();
            let thread = store.ensure_default().expect("thread");
            store.append_message(&thread, "u".into(), "o".into(), "m0".into()).expect("m0");
            // a second thread, already longer than the subscribed one will ever be
            let (other, _, _) = store.branch(&thread, None, None, None, "u".into(), "o".into()).expect("other thread");
            for i in 0..4 {
                store.append_message(&other, "u".into(), "o".into(), format!("x{i}")).expect("x");
            }
            let store2 = store.clone();
            let th = thread.clone();
            actors.push(Box::new(move |_ctx: &ActorCtx| {
                let _ = store2.append_message(&other, "u".into(), "o".into(), "x4".into());
                for i in 1..=2 {
                    let _ = store2.append_message(&th, "u".into(), "o".into(), format!("m{i}"));
                }
            }));
            stream_id = thread.clone();
            uri = format!("/threads/{thread}/events");
            expected_frames = 4; // created, m0, m1, m2
        }
        Kind::Session | Kind::SessionLogFailure | Kind::SessionTool => {
            let resp = rt.block_on(router.clone().oneshot(Request::builder().method("POST").uri("/sessions").body(Body::empty()).unwrap())).unwrap();
            let bytes = rt.block_on(http_body_util::BodyExt::collect(resp.into_body())).unwrap().to_bytes();
            let v: Value = serde_json::from_slice(&bytes).unwrap();
            let sid = v["session_id"].as_str().unwrap().to_string();
            let handle = rt.block_on(app.session_handle(&sid)).expect("handle");
            let engine = fx.engine.clone();
            let rt2 = rt.clone();
            let failing = kind == Kind::SessionLogFailure;
            actors.push(Box::new(move |ctx: &ActorCtx| {
                let _g = rt2.enter();
                if failing {
                    ctx.set_env(Box::new(FailNthAppend { n: std::cell::Cell::new(0), fail_at: 1 }));
                }
                let input = if kind == Kind::SessionTool { json!({"tool": "ls", "args": {}}).to_string() } else { "hello".to_string() };
                ctx.block_on(engine.verif_session_future(handle, input, None, None));
            }));
            stream_id = sid.clone();
            uri = format!("/sessions/{sid}/events");
            expected_frames = if kind == Kind::SessionTool { 5 } else { 3 }; // tool: started, tool_started, tool_stdout, tool_ended, ended
        }
        Kind::Task | Kind::TaskLogFailure => {
            let kinds = vec![
                EventKind::ToolTaskCancelRequested { task_id: "t".into(), reason: "a".into() },
                EventKind::ToolTaskCancelRequested { task_id: "t".into(), reason: "b".into() },
                EventKind::ToolTaskCancelRequested { task_id: "t".into(), reason: "c".into() },
            ];
            let (tid, fut) = rt
                .block_on(app.create_task_emit_future(json!({"tool": "bash", "args": {"command": "true"}}), kinds))
                .expect("task");
            let rt2 = rt.clone();
            let failing = kind == Kind::TaskLogFailure;
            actors.push(Box::new(move |ctx: &ActorCtx| {
                let _g = rt2.enter();
                if failing {
                    ctx.set_env(Box::new(FailNthAppend { n: std::cell::Cell::new(0), fail_at: 1 }));
                }
                ctx.block_on(fut);
            }));
            stream_id = tid.clone();
            uri = format!("/tasks/{tid}/events");
            expected_frames = 3;
        }
        Kind::TaskTwoEmitters => {
            let mk = |who: &str| {
                vec![
                    EventKind::ToolTaskCancelRequested { task_id: "t".into(), reason: format!("{who}1") },
                    EventKind::ToolTaskCancelRequested { task_id: "t".into(), reason: format!("{who}2") },
                ]
            };
            let (tid, futs) = rt
                .block_on(app.create_task_emit_futures(json!({"tool": "bash", "args": {"command": "true"}}), vec![mk("out"), mk("err")]))
                .expect("task");
            for fut in futs {
                let rt2 = rt.clone();
                actors.push(Box::new(move |ctx: &ActorCtx| {
                    let _g = rt2.enter();
                    ctx.block_on(fut);
                }));
            }
            stream_id = tid.clone();
            uri = format!("/tasks/{tid}/events");
            expected_frames = 4;
        }
        Kind::Thread | Kind::ThreadColdCache => {
            let store = fx.store();
            let thread = store.ensure_default().expect("thread");
            store.append_message(&thread, "u".into(), "o".into(), "m0".into()).expect("m0");
            if kind == Kind::ThreadColdCache {
                fx.drop_caches();
            }
            let store2 = store.clone();
            let th = thread.clone();
            actors.push(Box::new(move |_ctx: &ActorCtx| {
                for i in 1..=2 {
                    let _ = store2.append_message(&th, "u".into(), "o".into(), format!("m{i}"));
                }
            }));
            stream_id = thread.clone();
            uri = format!("/threads/{thread}/events");
            expected_frames = 4; // created, m0, m1, m2
        }
    }
    // log-failure kinds: one subscriber is attached now, before anything is produced
    let early = if matches!(kind, Kind::SessionLogFailure | Kind::TaskLogFailure) {
        let _g = rt.enter();
        let resp = rt.block_on(router.clone().oneshot(Request::builder().uri(uri.clone()).body(Body::empty()).unwrap())).expect("infallible");
        Some(resp.into_body())
    } else {
        None
    };
    let producers = actors.len();
    for _ in 0..subscribers {
        let sink = Arc::new(Mutex::new(Vec::new()));
        let status = Arc::new(Mutex::new(None));
        received.push(sink.clone());
        statuses.push(status.clone());
        actors.push(subscriber(router.clone(), uri.clone(), sink, status, rt.clone(), expected_frames, producers, lazy_reader(lazy_kind)));
    }
    (World { fx, stream_id, received, statuses, expected_frames, early: Mutex::new(early) }, actors)
}

fn check_exec(report: &Report, kind: Kind, subscribers: usize, world: &World, exec: &Exec) {
    let case = || {
        json!({
            "engine": "S",
            "harness": format!("c06.{kind:?}"),
            "subscribers": subscribers,
            "choices": exec.choices().into_iter().filter(|_| true).collect::<Vec<_>>(),
            "choice_points_only": exec.decisions.iter().filter(|d| d.enabled.len() > 1).map(|d| d.chosen).collect::<Vec<_>>(),
            "schedule": exec.schedule_string(),
            "preemptions": exec.preemptions,
        })
    };
    if exec.deadlock {
        report.violation(&format!("C06:deadlock:{kind:?}"), case(), "no enabled actor while some are unfinished");
        return;
    }
    if !exec.panicked.is_empty() {
        report.violation(&format!("C06:panic:{kind:?}"), case(), &format!("actors panicked: {:?}", exec.panicked));
        return;
    }
    if matches!(kind, Kind::SessionLogFailure | Kind::TaskLogFailure) {
        // the log lacks the frame whose append failed; the stream is what the early subscriber saw
        let early: Vec<(u64, String)> = world.early.lock().unwrap().as_mut().map(drain_body_now).unwrap_or_default();
        if early.len() != world.expected_frames {
            report.violation(&format!("C06:early_subscriber_missed_frames:{kind:?}"), case(), &format!("the subscriber attached before production received {} of {} frames: {:?}", early.len(), world.expected_frames, early.iter().map(|e| e.0).collect::<Vec<_>>()));
            return;
        }
        for (i, sink) in world.received.iter().enumerate() {
            let got = sink.lock().unwrap().clone();
            if got != early {
                report.violation(
                    &format!("C06:late_subscriber_differs_after_log_failure:{kind:?}"),
                    case(),
                    &format!("one log append failed; the early subscriber received seqs {:?}, late subscriber {i} received {:?}", early.iter().map(|e| e.0).collect::<Vec<_>>(), got.iter().map(|e| e.0).collect::<Vec<_>>()),
                );
            }
        }
        return;
    }
    // truth: the frames of this stream in the log
    let truth: Vec<(u64, String)> = world
        .fx
        .truth_all()
        .unwrap_or_default()
        .into_iter()
        .filter(|e| e.stream_id() == world.stream_id)
        .map(|e| (e.seq, e.id.clone()))
        .collect();
    // several emitters: the stream is its frames in seq order (the log's file order is C01's business)
    let mut truth = truth;
    truth.sort();
    if truth.len() != world.expected_frames {
        report.violation(
            &format!("C06:harness:truth_frames:{kind:?}"),
            case(),
            &format!("expected {} frames in the log, found {}", world.expected_frames, truth.len()),
        );
        return;
    }
    for (i, sink) in world.received.iter().enumerate() {
        let status = *world.statuses[i].lock().unwrap();
        if status != Some(200) {
            report.violation(
                &format!("C06:attach_refused:{kind:?}"),
                case(),
                &format!("subscriber {i} got HTTP status {status:?} for an existing stream"),
            );
            continue;
        }
        let got = sink.lock().unwrap().clone();
        if got != truth {
            let got_seqs: Vec<u64> = got.iter().map(|g| g.0).collect();
            let want: Vec<u64> = truth.iter().map(|g| g.0).collect();
            let sig = if got_seqs.len() < want.len() {
                format!("C06:lost_frame:{kind:?}")
            } else if got_seqs.len() > want.len() {
                format!("C06:duplicate_frame:{kind:?}")
            } else {
                format!("C06:order_or_identity:{kind:?}")
            };
            report.violation(
                &sig,
                case(),
                &format!("subscriber {i} received seqs {:?}, the stream is {:?}", got_seqs, want),
            );
        }
    }
}

fn run_harness(report: &Report, kind: Kind, subscribers: usize, bound: usize) {
    let rt = new_rt_mt();
    let filter = filter_for(kind);
    let mut outcomes: std::collections::HashSet<Vec<usize>> = std::collections::HashSet::new();
    let label = format!("{kind:?}x{subscribers}");
    let stats = {
        let rt_ref = &rt;
        let outcomes_ref = &mut outcomes;
        explore(
            bound,
            u64::MAX,
            false,
            Some(filter),
            &|| report.over_cap(),
            &|| make_world(kind, rt_ref, subscribers),
            &mut |world: &World, exec: &Exec| {
                report.eval(Some(&(kind, subscribers, exec.trace_hash())));
                // outcome = position (in the producer's step sequence) at which each subscriber step happened
                let attach: Vec<usize> = exec
                    .steps
                    .iter()
                    .enumerate()
                    .filter(|(_, s)| s.actor != 0 && (s.name.starts_with("sse.") ))
                    .map(|(i, _)| exec.steps[..i].iter().filter(|s| s.actor == 0).count())
                    .collect();
                outcomes_ref.insert(attach);
                check_exec(report, kind, subscribers, world, exec);
            },
        )
    };
    report.add_states(stats.distinct_traces.len() as u64, stats.steps);
    report.count(&format!("executions[{label}]"), stats.executions);
    report.count(&format!("distinct_attach_positions[{label}]"), outcomes.len() as u64);
    report.max_counter(&format!("max_choice_points[{label}]"), stats.max_decisions as u64);
    for (k, n) in stats.by_preemptions.iter().enumerate() {
        report.count(&format!("executions_with_{k}_preemptions[{label}]"), *n);
    }
    if stats.capped {
        report.not_exhaustive(&format!("{label}: wall cap hit after {} executions", stats.executions));
    }
    if outcomes.len() < 2 {
        report.violation(
            "C06:vacuous",
            json!({"harness": label}),
            "exploration is vacuous: fewer than two distinct attach positions were explored",
        );
    }
    report.add_traces_validated(stats.executions);
}

fn new_rt_mt() -> Arc<tokio::runtime::Runtime> {
    let _ = new_rt;
    Arc::new(tokio::runtime::Builder::new_multi_thread().worker_threads(1).enable_all().build().expect("rt"))
}

/// A client that has attached and then does NOT read while the stream goes on (engine P, no
/// scheduler): the handler has subscribed and taken its snapshot, the body is not polled, N frames
/// are produced, then the body is read to the end. The join must hold for a lag of N = 4 096
/// frames - a quarter of the channel capacity of the code under test (16 384), which is the lag it
/// is built to absorb; beyond that capacity the handlers skip what the channel dropped (recorded
/// as a limit in DESIGN.md).
fn stalled_client(report: &Report) {
    const N: usize = 4096;
    let rt = new_rt_mt();
    for kind in ["task", "thread"] {
        if report.over_cap() {
            return;
        }
        let fx = Fx::new(rt.clone());
        let app = {
            let _g = rt.enter();
            ripd::verif_export::VerifApp::new(fx.engine.clone(), false)
        };
        let router = app.router();
        let (stream_id, uri, produce): (String, String, Box<dyn FnOnce()>) = if kind == "task" {
            let kinds: Vec<EventKind> = (0..N).map(|i| EventKind::ToolTaskCancelRequested { task_id: "t".into(), reason: format!("r{i}") }).collect();
            let (tid, fut) = rt.block_on(app.create_task_emit_future(json!({"tool": "bash", "args": {"command": "true"}}), kinds)).expect("task");
            let rt2 = rt.clone();
            (tid.clone(), format!("/tasks/{tid}/events"), Box::new(move || rt2.block_on(fut)))
        } else {
            let store = fx.store();
            let thread = store.ensure_default().expect("thread");
            let t2 = thread.clone();
            (thread.clone(), format!("/threads/{thread}/events"), Box::new(move || {
                for i in 0..N {
                    let _ = store.append_message(&t2, "u".into(), "o".into(), format!("m{i}"));
                }
            }))
        };
        // attach: the handler subscribes and snapshots; the body is left unread
        let resp = rt.block_on(router.clone().oneshot(Request::builder().uri(&uri).body(Body::empty()).unwrap())).expect("infallible");
        if !resp.status().is_success() {
            crate::common::machinery_failure(&format!("c06.stalled_client: GET {uri} answered {}", resp.status()));
        }
        produce();
        let truth: Vec<u64> = fx.truth_all().unwrap_or_default().iter().filter(|e| e.stream_id() == stream_id).map(|e| e.seq).collect();
        // now read: until everything that was produced has arrived (or 30 s have passed - the
        // oracle must not depend on how fast this machine drains a body), then a little longer
        // for anything that should not be there
        let mut body = resp.into_body();
        let mut buf = String::new();
        let mut got: Vec<u64> = Vec::new();
        let started = std::time::Instant::now();
        rt.block_on(async {
            loop {
                let complete = got.len() >= truth.len();
                let patience = if complete { std::time::Duration::from_millis(300) } else { std::time::Duration::from_secs(30).saturating_sub(started.elapsed()) };
                if patience.is_zero() {
                    break;
                }
                match tokio::time::timeout(patience, http_body_util::BodyExt::frame(&mut body)).await {
                    Ok(Some(Ok(frame))) => {
                        if let Ok(data) = frame.into_data() {
                            buf.push_str(&String::from_utf8_lossy(&data));
                            while let Some(idx) = buf.find("\n\n") {
                                let block: String = buf[..idx].to_string();
                                buf.drain(..idx + 2);
                                for line in block.lines() {
                                    if let Some(rest) = line.strip_prefix("data:") {
                                        if let Ok(v) = serde_json::from_str::<Value>(rest.trim_start()) {
                                            if let Some(seq) = v["seq"].as_u64() {
                                                got.push(seq);
                                            }
                                        }
                                    }
                                }
                            }
                        }
                    }
                    _ => break,
                }
            }
        });
        report.eval(Some(&("stalled_client", kind)));
        report.count("stalled_client_frames_expected", truth.len() as u64);
        if truth.len() < N {
            crate::common::machinery_failure(&format!("c06.stalled_client: only {} frames were produced", truth.len()));
        }
        if got != truth {
            let first_bad = got.iter().zip(truth.iter()).position(|(a, b)| a != b).unwrap_or(got.len().min(truth.len()));
            report.violation(
                &format!("C06:stalled_client:{kind}"),
                json!({"engine": "P", "harness": "c06.stalled_client", "stream": kind, "frames_produced_while_unread": N}),
                &format!("a client attached to the {kind} stream and read nothing while {N} frames were produced; it then received {} of {} frames, the first deviation at position {first_bad} (got seq {:?}, due {:?})", got.len(), truth.len(), got.get(first_bad), truth.get(first_bad)),
            );
        }
    }
}

pub fn replay(report: &Report, case: &Value) {
    if case["harness"] == "c06.stalled_client" {
        rip_kernel::verif::clear();
        stalled_client(report);
        return;
    }
    let kind = match case["harness"].as_str().unwrap_or("") {
        "c06.Session" => Kind::Session,
        "c06.SessionTool" => Kind::SessionTool,
        "c06.Task" => Kind::Task,
        "c06.TaskTwoEmitters" => Kind::TaskTwoEmitters,
        "c06.SessionLogFailure" => Kind::SessionLogFailure,
        "c06.TaskLogFailure" => Kind::TaskLogFailure,
        "c06.Thread" => Kind::Thread,
        "c06.SessionLazyReader" => Kind::SessionLazyReader,
        "c06.TaskLazyReader" => Kind::TaskLazyReader,
        "c06.ThreadLazyReader" => Kind::ThreadLazyReader,
        "c06.ThreadBesideAnother" => Kind::ThreadBesideAnother,
        _ => Kind::ThreadColdCache,
    };
    let subscribers = case["subscribers"].as_u64().unwrap_or(1) as usize;
    let prefix: Vec<usize> = case["choice_points_only"].as_array().map(|a| a.iter().filter_map(|v| v.as_u64().map(|x| x as usize)).collect()).unwrap_or_default();
    let rt = new_rt_mt();
    let mut first: Option<Vec<String>> = None;
    for round in 0..2 {
        let (world, actors) = make_world(kind, &rt, subscribers);
        let exec = crate::sched::run_once(actors, &prefix, false, Some(filter_for(kind)));
        println!("replay round {round}: schedule {:?}", exec.schedule_string());
        for (i, sink) in world.received.iter().enumerate() {
            println!("  subscriber {i} received seqs {:?}", sink.lock().unwrap().iter().map(|g| g.0).collect::<Vec<_>>());
        }
        match &first {
            None => first = Some(exec.schedule_string()),
            Some(f) => {
                if *f != exec.schedule_string() {
                    crate::common::machinery_failure("replay is not deterministic: two runs of the same choices gave different schedules");
                }
            }
        }
        if round == 1 {
            report.eval(Some(&"replay"));
            check_exec(report, kind, subscribers, &world, &exec);
        }
    }
}

pub fn run(opts: Opts) -> i32 {
    let report = Report::new("C06", "model_checking", opts.clone());
    report.set_rule(
        "engine S: for each stream kind (session: real run_session stub run; task: 3 frames through the real TaskEmitter; thread: 2 \
         append_message calls, with the sidecar present and with it deleted) every interleaving of the producer's publish/record steps \
         with the real handler's subscribe / snapshot / body-poll steps is executed (one subscriber: no preemption bound; two \
         subscribers: preemption bound 2); a state is a distinct executed schedule (trace of (actor, hook)); transitions = scheduling steps",
    );
    report.assume("scheduling granularity = hook points (publish, buffer lock, subscribe, snapshot, sidecar/log effects); lag beyond the 16384-frame channel capacity is outside the quantifier");
    report.assume("a Pending body poll is an observation ('nothing more now'); the subscriber polls again only after another actor stepped");
    crate::sched::install_hooks();
    if let Some(path) = &opts.replay {
        let case = crate::common::load_replay_case(path);
        replay(&report, &case);
        return report.finish();
    }
    let tier = report.tier();
    let kinds = [Kind::Session, Kind::Task, Kind::Thread, Kind::ThreadColdCache];
    std::thread::scope(|scope| {
        for kind in kinds {
            let report = &report;
            scope.spawn(move || run_harness(report, kind, 1, usize::MAX));
            if tier == Tier::Thorough || kind == Kind::Session {
                scope.spawn(move || run_harness(report, kind, 2, 2));
            }
        }
        // the batch path of the session emitter (a tool run): one subscriber, all interleavings
        {
            let report = &report;
            scope.spawn(move || run_harness(report, Kind::SessionTool, 1, usize::MAX));
        }
        // two emitters + one subscriber: three actors, bounded
        let report = &report;
        let b = tier.pick(2, 3);
        scope.spawn(move || run_harness(report, Kind::TaskTwoEmitters, 1, b));
        // environment answer "error": the second log append of the producer fails
        // a client that reads nothing while the stream is produced; a thread beside another thread
        for kind in [Kind::SessionLazyReader, Kind::TaskLazyReader, Kind::ThreadLazyReader, Kind::ThreadBesideAnother] {
            scope.spawn(move || run_harness(report, kind, 1, usize::MAX));
        }
        scope.spawn(move || run_harness(report, Kind::SessionLogFailure, 1, usize::MAX));
        scope.spawn(move || run_harness(report, Kind::TaskLogFailure, 1, usize::MAX));
    });
    // engine P part: the real runtime, no scheduler hooks
    rip_kernel::verif::clear();
    stalled_client(&report);
    report.sample(json!({"harness": "c06.Session", "actors": ["producer: run_session('hello')", "subscriber: GET /sessions/{id}/events"], "schedule_example": ["0:start", "0:sess.publish", "1:start", "1:sse.session.subscribe", "1:sse.session.snapshot", "0:sess.buffer", "..."]}));
    report.finish()
}
