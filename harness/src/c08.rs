//! C08 — the compiled context is a pure function of thread truth up to the cut point.
//!
//! Bounded exhaustive enumeration of thread histories x every message as anchor, executed through
//! the real compile entry (`compile_context_bundle_for_run`, exported). O1: the result must be the
//! same for caches intact / messages+runs family deleted / all caches deleted / k extra frames
//! appended after the cut. O2: it must equal a reference of the documented contract.

use std::sync::Arc;

use rayon::prelude::*;
use rip_kernel::{Event, EventKind, StreamKind};
use ripd::ContinuityRunLink;
use serde_json::{json, Value};

use crate::common::{Opts, Report, Tier};
use crate::fixture::{new_rt, Fx};
use crate::hops::{apply, name, sequences, thread_events, Track, H};

#[derive(Debug, Clone, PartialEq)]
struct Compiled {
    from_seq: u64,
    from_message_id: Option<String>,
    strategy: String,
    checkpoints: Vec<(String, u64)>, // (checkpoint id, to_seq) ascending
    dialogue: Vec<(String, String)>,  // (role, content) of user/assistant items
}

fn compile(fx: &Fx, thread: &str, anchor: &str) -> Result<Compiled, String> {
    let link = ContinuityRunLink { continuity_id: thread.to_string(), message_id: anchor.to_string(), actor_id: "u".into(), origin: "o".into() };
    let v = fx.engine.verif_compile_context(&link, "run-x")?;
    let checkpoints = v["compaction_checkpoints"]
        .as_array()
        .cloned()
        .unwrap_or_default()
        .iter()
        .map(|c| (c["checkpoint_id"].as_str().unwrap_or("").to_string(), c["to_seq"].as_u64().unwrap_or(0)))
        .collect();
    let mut dialogue = Vec::new();
    for item in v["items"].as_array().cloned().unwrap_or_default() {
        let role = item["role"].as_str().unwrap_or("").to_string();
        if role == "user" || role == "assistant" {
            let content = match &item["content"] {
                Value::String(s) => s.clone(),
                Value::Array(parts) => parts.iter().filter_map(|p| p["text"].as_str()).collect::<Vec<_>>().join(""),
                other => other.to_string(),
            };
            dialogue.push((role, content));
        }
    }
    Ok(Compiled {
        from_seq: v["from_seq"].as_u64().unwrap_or(0),
        from_message_id: v["from_message_id"].as_str().map(|s| s.to_string()),
        strategy: v["compiler_strategy"].as_str().unwrap_or("").to_string(),
        checkpoints,
        dialogue,
    })
}

/// One scripted provider for the whole check (its own runtime); every run uses a fresh key.
fn provider() -> &'static crate::provx::Provider {
    static P: std::sync::OnceLock<(crate::provx::Provider, Arc<tokio::runtime::Runtime>)> = std::sync::OnceLock::new();
    &P.get_or_init(|| {
        let rt = crate::provx::new_mt_rt();
        (crate::provx::Provider::start(&rt), rt)
    })
    .0
}

static PROVIDER_KEY: std::sync::atomic::AtomicUsize = std::sync::atomic::AtomicUsize::new(0);

fn message_content(e: &Event) -> Option<String> {
    match &e.kind {
        EventKind::ContinuityMessageAppended { content, .. } => Some(content.clone()),
        _ => None,
    }
}

/// Reference of the documented contract (context_bundle.md, ADR-0010/0018).
fn reference(fx: &Fx, events: &[Event], anchor: &str) -> Result<Compiled, String> {
    let msgs: Vec<&Event> = events.iter().filter(|e| crate::fixture::is_message(e)).collect();
    let idx = msgs.iter().position(|e| e.id == anchor).ok_or("anchor not found")?;
    let head = events.last().map(|e| e.seq).unwrap_or(0);
    let cut = match msgs.get(idx + 1) {
        Some(next) => next.seq - 1,
        None => head,
    }
    .max(msgs[idx].seq);
    // eligible cumulative checkpoints, latest frame per to_seq
    let mut by_to_seq: std::collections::BTreeMap<u64, String> = std::collections::BTreeMap::new();
    for e in events {
        if let EventKind::ContinuityCompactionCheckpointCreated { checkpoint_id, summary_kind, to_seq, .. } = &e.kind {
            if summary_kind == "cumulative_v1" && *to_seq <= cut {
                by_to_seq.insert(*to_seq, checkpoint_id.clone());
            }
        }
    }
    let mut selected: Vec<(String, u64)> = Vec::new();
    if let Some((&latest, id)) = by_to_seq.iter().next_back() {
        selected.push((id.clone(), latest));
        let mut cur = latest;
        while selected.len() < 3 {
            if cur <= 1 {
                break;
            }
            let threshold = cur / 2;
            let Some((&s, id)) = by_to_seq.range(..=threshold).next_back() else { break };
            if s >= cur {
                break;
            }
            selected.push((id.clone(), s));
            cur = s;
        }
    }
    selected.sort_by_key(|c| c.1);
    let after = selected.last().map(|c| c.1);
    let strategy = match selected.len() {
        0 => "recent_messages_v1",
        1 => "summaries_recent_messages_v1",
        _ => "hierarchical_summaries_recent_messages_v1",
    };
    let mut chosen: Vec<&Event> = msgs.iter().copied().filter(|e| e.seq <= cut && after.map(|a| e.seq > a).unwrap_or(true)).collect();
    if chosen.len() > 16 {
        chosen = chosen[chosen.len() - 16..].to_vec();
    }
    let mut dialogue = Vec::new();
    for m in chosen {
        dialogue.push(("user".to_string(), message_content(m).unwrap_or_default()));
        // the run that ended for this message at or before the cut (last one wins)
        let mut sess: Option<String> = None;
        for e in events {
            if e.seq > cut {
                break;
            }
            if let EventKind::ContinuityRunEnded { run_session_id, message_id, .. } = &e.kind {
                if *message_id == m.id {
                    sess = Some(run_session_id.clone());
                }
            }
        }
        if let Some(s) = sess {
            let text: String = fx
                .truth(StreamKind::Session, &s)
                .iter()
                .filter_map(|e| match &e.kind {
                    EventKind::OutputTextDelta { delta } => Some(delta.clone()),
                    _ => None,
                })
                .collect();
            if !text.is_empty() {
                dialogue.push(("assistant".to_string(), text));
            }
        }
    }
    Ok(Compiled { from_seq: cut, from_message_id: Some(anchor.to_string()), strategy: strategy.to_string(), checkpoints: selected, dialogue })
}

fn case_json(hist_names: &[String], anchor_idx: usize, variant: &str) -> Value {
    json!({"engine": "H-histories", "harness": "c08.compile", "history": hist_names, "anchor": format!("message#{anchor_idx}"), "variant": variant})
}

fn short(c: &Compiled) -> String {
    format!(
        "from_seq={} strategy={} checkpoints={:?} dialogue={:?}",
        c.from_seq,
        c.strategy,
        c.checkpoints.iter().map(|c| c.1).collect::<Vec<_>>(),
        c.dialogue.iter().map(|(r, t)| format!("{}:{}", &r[..1], crate::common::truncate(t, 12))).collect::<Vec<_>>()
    )
}

fn diff_class(a: &Compiled, b: &Compiled) -> &'static str {
    if a.from_seq != b.from_seq {
        "from_seq"
    } else if a.checkpoints != b.checkpoints || a.strategy != b.strategy {
        "selected_checkpoints"
    } else if a.dialogue.len() != b.dialogue.len() {
        "message_count"
    } else {
        "message_content_or_order"
    }
}

fn check_history(report: &Report, rt: &Arc<tokio::runtime::Runtime>, hist_names: Vec<String>, build: &dyn Fn(&mut Fx, &mut Track), max_anchors: usize) {
    let mut fx = Fx::new(rt.clone());
    let thread = fx.store().ensure_default().expect("thread");
    let mut t = Track::new(thread.clone());
    build(&mut fx, &mut t);
    let events = thread_events(&fx, &thread);
    let msg_ids: Vec<String> = events.iter().filter(|e| crate::fixture::is_message(e)).map(|e| e.id.clone()).collect();
    let picks: Vec<usize> = if msg_ids.len() <= max_anchors {
        (0..msg_ids.len()).collect()
    } else {
        let n = msg_ids.len();
        let mut p = vec![0, 1, n / 2, n.saturating_sub(17), n.saturating_sub(16), n - 2, n - 1];
        p.sort();
        p.dedup();
        p
    };
    // store variants (each a fresh authority on a copy)
    let no_mr = {
        let c = fx.copy(true);
        if let Ok(rd) = std::fs::read_dir(c.cache_dir()) {
            for e in rd.flatten() {
                if e.file_name().to_string_lossy().contains(".mr.") {
                    let _ = std::fs::remove_file(e.path());
                }
            }
        }
        c
    };
    let no_cache = fx.copy(false);
    let restarted = fx.copy(true);
    for &i in &picks {
        let anchor = &msg_ids[i];
        let want = reference(&fx, &events, anchor);
        let base = compile(&fx, &thread, anchor);
        report.eval(Some(&(&hist_names, i)));
        match (&base, &want) {
            (Ok(got), Ok(w)) => {
                if got != w {
                    report.violation(
                        &format!("C08:reference:{}", diff_class(got, w)),
                        case_json(&hist_names, i, "warm"),
                        &format!("compiled {} ; reference {}", short(got), short(w)),
                    );
                }
            }
            (Err(e), Ok(_)) => report.violation("C08:compile_error", case_json(&hist_names, i, "warm"), &format!("compile failed: {e}")),
            _ => {}
        }
        let Ok(base) = base else { continue };
        for (variant, store) in [("restarted", &restarted), ("mr_family_deleted", &no_mr), ("all_caches_deleted", &no_cache)] {
            report.eval(None::<&u8>);
            match compile(store, &thread, anchor) {
                Ok(got) => {
                    if got != base {
                        report.violation(
                            &format!("C08:path_differential:{variant}:{}", diff_class(&got, &base)),
                            case_json(&hist_names, i, variant),
                            &format!("{variant}: {} ; caches intact: {}", short(&got), short(&base)),
                        );
                    }
                }
                Err(e) => report.violation(&format!("C08:compile_error:{variant}"), case_json(&hist_names, i, variant), &format!("compile failed: {e}")),
            }
        }
    }
    // (v) what a REAL provider run logs (selection decided, context compiled, the bundle artifact)
    // is what the compile entry returns for the same anchor in the same state
    if hist_names.len() <= 3 || hist_names.len() >= 15 {
        let store = fx.store();
        if let Ok(m) = store.append_message(&thread, "u".into(), "o".into(), "real run".into()) {
            let handle = fx.engine.create_session();
            let sid = handle.session_id.clone();
            if store.append_run_spawned(&thread, &m, &sid, "u".into(), "o".into()).is_ok() {
                let want = compile(&fx, &thread, &m);
                let key = format!("c08-{}/v1/responses", PROVIDER_KEY.fetch_add(1, std::sync::atomic::Ordering::SeqCst));
                provider().script(&key, vec![crate::provx::Resp::Sse { chunks: vec![crate::provx::sse(&[json!({"type": "response.output_text.delta", "delta": "ok"}), json!({"type": "response.completed", "response": {"id": "r1"}}), Value::String("[DONE]".into())])], abort: false }], true);
                let cfg = crate::provx::config(provider().endpoint(&key));
                let link = ContinuityRunLink { continuity_id: thread.clone(), message_id: m.clone(), actor_id: "u".into(), origin: "o".into() };
                fx.rt.block_on(fx.engine.verif_session_future(handle, "real run".into(), Some(link), Some(cfg)));
                provider().forget(&key);
                report.eval(None::<&u8>);
                let events = crate::hops::thread_events(&fx, &thread);
                let decided = events.iter().find_map(|e| match &e.kind {
                    EventKind::ContinuityContextSelectionDecided { run_session_id, compiler_strategy, compaction_checkpoints, compaction_checkpoint, .. } if *run_session_id == sid => {
                        Some((compiler_strategy.clone(), serde_json::to_value(compaction_checkpoints).unwrap_or(Value::Null), serde_json::to_value(compaction_checkpoint).unwrap_or(Value::Null)))
                    }
                    _ => None,
                });
                let compiled = events.iter().find_map(|e| match &e.kind {
                    EventKind::ContinuityContextCompiled { run_session_id, bundle_artifact_id, compiler_strategy, from_seq, from_message_id, .. } if *run_session_id == sid => {
                        Some((bundle_artifact_id.clone(), compiler_strategy.clone(), *from_seq, from_message_id.clone()))
                    }
                    _ => None,
                });
                let anchor_idx = msg_ids.len();
                match (&want, decided, compiled) {
                    (Ok(w), Some((d_strategy, d_ckpts, d_primary)), Some((bundle_id, c_strategy, c_from_seq, c_from_msg))) => {
                        let d_ids: Vec<(String, u64)> = d_ckpts.as_array().cloned().unwrap_or_default().iter().map(|c| (c["checkpoint_id"].as_str().unwrap_or("").to_string(), c["to_seq"].as_u64().unwrap_or(0))).collect();
                        let bundle: Value = std::fs::read(fx.root.join(".rip/artifacts/blobs").join(&bundle_id)).ok().and_then(|b| serde_json::from_slice(&b).ok()).unwrap_or(Value::Null);
                        let b_dialogue: Vec<(String, String)> = bundle["items"]
                            .as_array()
                            .cloned()
                            .unwrap_or_default()
                            .iter()
                            .filter_map(|item| {
                                let role = item["role"].as_str().unwrap_or("").to_string();
                                if role != "user" && role != "assistant" {
                                    return None;
                                }
                                let content = match &item["content"] {
                                    Value::String(s) => s.clone(),
                                    Value::Array(parts) => parts.iter().filter_map(|p| p["text"].as_str()).collect::<Vec<_>>().join(""),
                                    other => other.to_string(),
                                };
                                Some((role, content))
                            })
                            .collect();
                        let mut diffs = Vec::new();
                        if d_strategy != w.strategy || c_strategy != w.strategy {
                            diffs.push(format!("strategy: decided {d_strategy:?}, compiled {c_strategy:?}, compile entry {:?}", w.strategy));
                        }
                        if d_ids != w.checkpoints {
                            diffs.push(format!("decided checkpoints {:?}, compile entry {:?}", d_ids, w.checkpoints));
                        }
                        // the decision's primary checkpoint is the NEWEST selected one (the summary the
                        // bundle's messages come after), or absent when none was selected
                        let newest = w.checkpoints.iter().max_by_key(|c| c.1).cloned();
                        let primary = d_primary.get("checkpoint_id").and_then(|x| x.as_str()).map(|id| (id.to_string(), d_primary["to_seq"].as_u64().unwrap_or(0)));
                        if primary != newest {
                            diffs.push(format!("the decision names {:?} as its checkpoint; the newest selected one is {:?}", primary, newest));
                        }
                        if c_from_seq != w.from_seq || c_from_msg != w.from_message_id {
                            diffs.push(format!("compiled frame cut ({c_from_seq}, {c_from_msg:?}), compile entry ({}, {:?})", w.from_seq, w.from_message_id));
                        }
                        if b_dialogue != w.dialogue {
                            diffs.push(format!("bundle artifact dialogue {:?}, compile entry {:?}", b_dialogue.iter().map(|d| d.1.chars().take(12).collect::<String>()).collect::<Vec<_>>(), w.dialogue.iter().map(|d| d.1.chars().take(12).collect::<String>()).collect::<Vec<_>>()));
                        }
                        if !diffs.is_empty() {
                            report.violation("C08:logged_decision_differs_from_compile", case_json(&hist_names, anchor_idx, "real provider run"), &diffs.join("; "));
                        }
                        report.count("real_runs_whose_logged_decision_was_compared", 1);
                    }
                    (Ok(_), d, c) => report.violation("C08:decision_frames_missing", case_json(&hist_names, anchor_idx, "real provider run"), &format!("a provider run logged selection_decided: {}, context_compiled: {}", d.is_some(), c.is_some())),
                    (Err(_), _, _) => {}
                }
            }
        }
    }
    // (iv) frames appended after the cut do not change earlier anchors
    if msg_ids.len() >= 1 {
        let before: Vec<(usize, Result<Compiled, String>)> = picks.iter().filter(|&&i| i + 1 < msg_ids.len()).map(|&i| (i, compile(&fx, &thread, &msg_ids[i]))).collect();
        let _ = apply(&mut fx, &mut t, &H::Side);
        let _ = apply(&mut fx, &mut t, &H::Msg);
        let _ = apply(&mut fx, &mut t, &H::Ckpt(0));
        for (i, b) in before {
            report.eval(None::<&u8>);
            let a = compile(&fx, &thread, &msg_ids[i]);
            if let (Ok(a), Ok(b)) = (&a, &b) {
                if a != b {
                    report.violation(
                        &format!("C08:later_frames_changed_bundle:{}", diff_class(a, b)),
                        case_json(&hist_names, i, "after appending side effect + message + checkpoint"),
                        &format!("after later appends: {} ; before: {}", short(a), short(b)),
                    );
                }
            }
        }
    }
}

pub fn run(opts: Opts) -> i32 {
    if let Some(spec) = opts.extra.iter().find_map(|a| a.strip_prefix("race=")) {
        let spec = spec.to_string();
        return crate::race::worker(opts, "C08", "exploration", &spec);
    }
    let report = Report::new("C08", "exploration", opts.clone());
    if let Some(path) = &opts.replay {
        report.replay_by_re_enumeration(path);
    }
    report.set_rule(
        "every history of <=4 (quick) / <=5 (thorough) ops from {message, answered run, open run with its real session frames, run_ended for the oldest open run, side \
         effects, cursor, checkpoint at the last message, checkpoint at the first message} plus every history of <=5 (quick) / <=6 (thorough) ops from {message, open run, run_ended, run_ended with reason provider_error} that contains a failed end or has full length, plus macro threads (15/16/17/18/33 messages, \
         17 answered runs, 20 messages with a checkpoint after the 2nd, 5th and 11th, thorough: 18 x 600 KiB messages) x EVERY message as \
         anchor (macro threads: first, second, middle, 17th/16th from the end, last two): compile through the real entry on the warm \
         store, a restarted store, a store without the messages+runs cache family and a store without caches, compare with a reference of \
         the documented contract, then append frames after the cut and compile the earlier anchors again; distinct = (history, anchor)",
    );
    report.assume("reference: cut = seq before the next message (else head); eligible = cumulative checkpoints with to_seq <= cut, latest frame per to_seq; hierarchy = latest, then the latest with to_seq <= floor(prev/2), <= 3, ascending; messages = last <= 16 with selected.to_seq < seq <= cut, each followed by the non-empty reply of the run that ended for it at or before the cut");
    report.assume("the engine-S sub-check of the design (compile racing an appender) is not built; stale-cache behaviour belongs to C04");
    let tier = report.tier();
    // an open run has REAL session frames (its reply is in the log before its run_ended frame is)
    let alphabet = vec![H::Msg, H::Run, H::RunOpenReal, H::RunEndOldest, H::Side, H::Cursor(0), H::Ckpt(0), H::Ckpt(1)];
    let mut hs = sequences(&alphabet, tier.pick(4, 5));
    // overlapping runs that end late and / or failed after producing output
    for h in sequences(&[H::Msg, H::RunOpenReal, H::RunEndOldest, H::RunEndOldestFailed], tier.pick(5, 6)) {
        if h.iter().any(|o| matches!(o, H::RunEndOldestFailed)) || h.len() == tier.pick(5, 6) {
            hs.push(h);
        }
    }
    hs.retain(|h| h.iter().any(|o| matches!(o, H::Msg | H::Run | H::RunOpenReal)));
    report.set_extra("histories", json!(hs.len()));
    report.sample(json!({"history": hs[50].iter().map(name).collect::<Vec<_>>(), "anchors": "every message"}));
    report.sample(json!({"history": "33 x msg", "anchors": "first, second, middle, 17th/16th from the end, last two"}));
    report.sample(json!({"history": hs[hs.len() - 1].iter().map(name).collect::<Vec<_>>()}));
    hs.par_iter().for_each_init(new_rt, |rt, h| {
        if report.over_cap() {
            return;
        }
        let names: Vec<String> = h.iter().map(name).collect();
        check_history(&report, rt, names, &|fx, t| {
            for op in h {
                let _ = apply(fx, t, op);
            }
        }, 8);
    });
    // macro threads
    let mut macros: Vec<(String, Box<dyn Fn(&mut Fx, &mut Track) + Sync + Send>)> = Vec::new();
    for n in [15usize, 16, 17, 18, 33] {
        macros.push((format!("{n} x msg"), Box::new(move |fx, t| {
            for _ in 0..n {
                let _ = apply(fx, t, &H::Msg);
            }
        })));
    }
    macros.push(("17 x run".into(), Box::new(|fx, t| {
        for _ in 0..17 {
            let _ = apply(fx, t, &H::Run);
        }
    })));
    macros.push(("20 x msg with checkpoints after #2, #5, #11".into(), Box::new(|fx, t| {
        for i in 0..20 {
            let _ = apply(fx, t, &H::Msg);
            if i == 1 || i == 4 || i == 10 {
                let _ = apply(fx, t, &H::Ckpt(0));
            }
            if i % 3 == 0 {
                let _ = apply(fx, t, &H::Side);
            }
        }
    })));
    // messages+runs sidecar larger than the first tail windows (256 KiB doubling): anchors that sit
    // inside a partial tail window
    macros.push(("40 x 20KiB msg".into(), Box::new(|fx, t| {
        let store = fx.store();
        for i in 0..40 {
            if let Ok(id) = store.append_message(&t.thread, "u".into(), "o".into(), format!("{i}:{}", "w".repeat(20 * 1024))) {
                t.last_msg = Some(id);
            }
        }
    })));
    if tier == Tier::Thorough {
        macros.push(("18 x 600KiB msg".into(), Box::new(|fx, t| {
            let store = fx.store();
            for _ in 0..18 {
                if let Ok(id) = store.append_message(&t.thread, "u".into(), "o".into(), "z".repeat(600 * 1024)) {
                    t.last_msg = Some(id);
                }
            }
        })));
    }
    macros.par_iter().for_each_init(new_rt, |rt, (label, build)| {
        let anchors = if label.starts_with("40 x") { 40 } else { 8 };
        check_history(&report, rt, vec![label.clone()], &|fx, t| build(fx, t), anchors);
    });
    // engine S at system-call granularity: a compile racing ONE concurrent append (every file-system
    // call of either is a scheduling point); the compiled context must be that of one of the two
    // sequential orders, and the caches left behind must be transparent
    {
        use crate::race::{job, Pre, Reader, Writer, PRES, WRITERS};
        let tier = report.tier();
        let mut jobs = Vec::new();
        let t = tier.as_str();
        let cap = report.opts.wall_cap_s;
        if tier == Tier::Quick {
            for w in [Writer::Message, Writer::RunEnded, Writer::SideEffect] {
                jobs.push(job(t, "c08", cap, Pre::OpenTurn, Reader::Compile(1), w, 1));
            }
            jobs.push(job(t, "c08", cap, Pre::OpenTurnNoCaches, Reader::Compile(1), Writer::Message, 1));
            jobs.push(job(t, "c08", cap, Pre::LongWithCheckpoint, Reader::Compile(17), Writer::Message, 1));
            jobs.push(job(t, "c08", cap, Pre::LongWithCheckpoint, Reader::Compile(8), Writer::Checkpoint, 1));
        } else {
            for pre in PRES {
                let anchors: Vec<usize> = if pre == Pre::LongWithCheckpoint { vec![0, 8, 17] } else { vec![0, 1] };
                for a in anchors {
                    for w in WRITERS {
                        let tail_anchor = a == if pre == Pre::LongWithCheckpoint { 17 } else { 1 };
                        if w == Writer::Checkpoint && tail_anchor {
                            continue; // see race::Writer::Checkpoint
                        }
                        jobs.push(job(t, "c08", cap, pre, Reader::Compile(a), w, 1));
                    }
                }
            }
            jobs.push(job(t, "c08", cap, Pre::OpenTurn, Reader::Compile(1), Writer::Message, 2));
            jobs.push(job(t, "c08", cap, Pre::OpenTurn, Reader::Compile(1), Writer::RunEnded, 2));
        }
        report.set_extra("race_configs", json!(jobs.len()));
        crate::common::run_workers(&report, jobs, 16, &crate::race::shim_env());
    }
    report.finish()
}
