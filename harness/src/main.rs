mod common;
mod fixture;
mod queries;
mod race;
mod hops;
mod provx;
mod orschema;
mod sched;
mod c01;
mod c02;
mod c03;
mod c04;
mod c05;
mod c06;
mod c07;
mod c07s;
mod c08;
mod c09;
mod c10;
mod c11;
mod c12;
mod c13;
mod c14;
mod c15;
mod c16;
mod c17;
mod c18;
mod c18proc;
mod c19;
mod c20;
mod c20cli;

fn main() {
    // no TLS is ever used by the harness; loading the system trust store costs 60 ms per reqwest client
    std::env::set_var("SSL_CERT_FILE", "/dev/null");
    std::env::set_var("SSL_CERT_DIR", "/nonexistent");
    let args: Vec<String> = std::env::args().skip(1).collect();
    let Some(which) = args.first().cloned() else {
        eprintln!("usage: vc <check> [--tier quick|thorough] [--replay file] [--wall-cap s]");
        std::process::exit(2);
    };
    let opts = common::parse_opts(&args[1..]);
    let code = match which.to_ascii_lowercase().as_str() {
        "bench-fx" => {
            let rt = fixture::new_rt();
            let t = std::time::Instant::now();
            for _ in 0..20 {
                let fx = fixture::Fx::new(rt.clone());
                let th = fx.store().ensure_default().unwrap();
                fx.answered_run(&th, "hi").unwrap();
            }
            println!("20 fixtures + run: {:?}", t.elapsed());
            let t = std::time::Instant::now();
            for _ in 0..20 {
                let _fx = fixture::Fx::new(rt.clone());
            }
            println!("20 fixtures: {:?}", t.elapsed());
            let t = std::time::Instant::now();
            for _ in 0..20 {
                let _c = reqwest::Client::new();
            }
            println!("20 reqwest clients: {:?}", t.elapsed());
            let fx = fixture::Fx::new(rt.clone());
            let th = fx.store().ensure_default().unwrap();
            let t = std::time::Instant::now();
            for _ in 0..100 {
                fx.answered_run(&th, "hi").unwrap();
            }
            println!("100 runs: {:?}", t.elapsed());
            0
        }
        "c01" => c01::run(opts),
        "c02" => c02::run(opts),
        "c03" => c03::run(opts),
        "c04" => c04::run(opts),
        "c05" => c05::run(opts),
        "c05-worker" => c05::worker(&args[1..]),
        "c06" => c06::run(opts),
        "c07" => c07::run(opts),
        "c08" => c08::run(opts),
        "c09" => c09::run(opts),
        "c10" => c10::run(opts),
        "c11" => c11::run(opts),
        "c12" => c12::run(opts),
        "c13" => c13::run(opts),
        "c14" => c14::run(opts),
        "c15" => c15::run(opts),
        "c16" => c16::run(opts),
        "c17" => c17::run(opts),
        "c18" => c18::run(opts),
        "c19" => c19::run(opts),
        "c20" => c20::run(opts),
        other => {
            eprintln!("unknown check {other}");
            2
        }
    };
    std::process::exit(code);
}
