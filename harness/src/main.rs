mod common;
mod c12;
mod c13;
mod c14;
mod c15;
mod c20;

fn main() {
    let args: Vec<String> = std::env::args().skip(1).collect();
    let Some(which) = args.first().cloned() else {
        eprintln!("usage: vc <check> [--tier quick|thorough] [--replay file] [--wall-cap s]");
        std::process::exit(2);
    };
    let opts = common::parse_opts(&args[1..]);
    let code = match which.to_ascii_lowercase().as_str() {
        "c12" => c12::run(opts),
        "c13" => c13::run(opts),
        "c14" => c14::run(opts),
        "c15" => c15::run(opts),
        "c20" => c20::run(opts),
        other => {
            eprintln!("unknown check {other}");
            2
        }
    };
    std::process::exit(code);
}
