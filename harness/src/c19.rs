//! C19 — secrets never reach frames, artifacts, caches, logs or diagnostics.
//!
//! Engine P over configurations: the full product of secret source x run outcome x request dump
//! (x per-request overrides in thorough), each in its own subprocess with a cleared environment
//! (configuration and environment are process-global; the engine is built with
//! `OpenResponsesConfig::from_env()` exactly as `serve` does). A canary secret must be absent from
//! every persisted byte, every router response and the process output, while the scripted provider
//! must have received it.

use std::process::{Command, Stdio};
use std::time::Duration;

use rayon::prelude::*;
use serde_json::{json, Value};

use crate::common::{machinery_failure, scratch_dir, Opts, Report, Tier};
use crate::provx::{new_mt_rt, sse, App, Provider, Resp};

const CANARY: &str = "sk-CANARY-9f2b7c41d8e64a0fb3c5";

const SOURCES: [&str; 18] = [
    "env_rip_key",
    // the same variable with surrounding whitespace (a trailing newline from `$(cat keyfile)`)
    "env_rip_key_padded",
    "env_openai_key",
    "env_openrouter_key",
    "inline_global",
    "inline_custom",
    "inline_project",
    "inline_project_parent",
    "env_indirection",
    "secret_header",
    "secret_header_and_key",
    "secret_header_value_with_newline",
    "secret_header_name_with_colon",
    // configuration layers that hold the inline key on a line that does not parse: whatever the
    // diagnostics say about the error, they must not quote the secret
    "malformed_project_single_quoted_key",
    "malformed_global_semicolon_after_key",
    "malformed_parent_unquoted_member",
    // layers that PARSE but do not have the documented shape, the secret sitting at the mis-typed
    // spot: whatever the diagnostics say about the shape, they must not quote the value
    "misshaped_headers_as_one_string",
    "misshaped_provider_entry_is_the_key",
];
const OUTCOMES: [&str; 6] = ["success_with_tool_call", "http_401_echoing_request", "transport_error", "provider_500", "tool_failure", "call_without_response_id"];

fn encodings() -> Vec<(String, String)> {
    let b64 = {
        // minimal base64 (standard alphabet)
        let t = b"ABCDEFGHIJKLMNOPQRSTUVWXYZabcdefghijklmnopqrstuvwxyz0123456789+/";
        let bytes = CANARY.as_bytes();
        let mut out = String::new();
        for c in bytes.chunks(3) {
            let n = (c[0] as u32) << 16 | (*c.get(1).unwrap_or(&0) as u32) << 8 | *c.get(2).unwrap_or(&0) as u32;
            out.push(t[(n >> 18) as usize & 63] as char);
            out.push(t[(n >> 12) as usize & 63] as char);
            out.push(if c.len() > 1 { t[(n >> 6) as usize & 63] as char } else { '=' });
            out.push(if c.len() > 2 { t[n as usize & 63] as char } else { '=' });
        }
        out
    };
    let pct: String = CANARY.bytes().map(|b| if b.is_ascii_alphanumeric() { (b as char).to_string() } else { format!("%{b:02X}") }).collect();
    vec![("raw".into(), CANARY.to_string()), ("base64".into(), b64.trim_end_matches('=').to_string()), ("percent".into(), pct)]
}

fn find_secret(bytes: &[u8]) -> Option<String> {
    let text = String::from_utf8_lossy(bytes);
    for (name, enc) in encodings() {
        if text.contains(&enc) {
            return Some(name);
        }
    }
    None
}

// ---------------------------------------------------------------------------------------------
// Worker: one configuration in a clean process

fn worker(args: &[String]) -> i32 {
    let get = |k: &str| args.iter().find_map(|a| a.strip_prefix(&format!("{k}=")).map(|s| s.to_string()));
    let source = get("source").unwrap_or_default();
    let outcome = get("outcome").unwrap_or_default();
    let dump = get("dump").as_deref() == Some("1");
    let overrides = get("overrides").as_deref() == Some("1");
    let dir = scratch_dir("c19");
    let home = dir.path().join("home");
    let cfg_home = dir.path().join("cfghome");
    let proj_parent = dir.path().join("proj");
    std::fs::create_dir_all(&home).unwrap();
    std::fs::create_dir_all(&cfg_home).unwrap();
    // clear everything that could configure a provider, then set this case's variables
    for (k, _) in std::env::vars() {
        if k.starts_with("RIP_") || k.starts_with("OPENAI_") || k.starts_with("OPENROUTER_") {
            std::env::remove_var(k);
        }
    }
    std::env::set_var("HOME", &home);
    std::env::set_var("RIP_CONFIG_HOME", &cfg_home);
    if dump {
        std::env::set_var("RIP_OPENRESPONSES_DUMP_REQUEST", "1");
    }
    let rt = new_mt_rt();
    let provider = Provider::start(&rt);
    let key = match source.as_str() {
        "env_openai_key" => "openai.com/v1/responses",
        "env_openrouter_key" => "openrouter.ai/api/v1/responses",
        _ => "v1/responses",
    };
    let mut endpoint = provider.endpoint(key);
    if outcome == "transport_error" {
        endpoint = format!("http://127.0.0.1:1/{key}"); // nothing listens on port 1
    }
    // provider script per outcome
    let call = json!({"type": "response.output_item.done", "output_index": 0, "item": {"type": "function_call", "id": "fc", "call_id": "c1", "name": if outcome == "tool_failure" { "read" } else { "write" }, "arguments": if outcome == "tool_failure" { json!({"path": "missing.txt"}).to_string() } else { json!({"path": "o.txt", "content": "x"}).to_string() }}});
    let first = Resp::Sse { chunks: vec![sse(&[json!({"type": "response.completed", "response": {"id": "r1"}}), call.clone(), Value::String("[DONE]".into())])], abort: false };
    let second = Resp::Sse { chunks: vec![sse(&[json!({"type": "response.output_text.delta", "delta": "ok"}), Value::String("[DONE]".into())])], abort: false };
    match outcome.as_str() {
        "http_401_echoing_request" => {
            provider.script(key, vec![Resp::Http { status: 401, body: "unauthorized;".into() }], true);
            provider.runs.lock().unwrap().get_mut(key).unwrap().echo_body_in_error = true;
        }
        "provider_500" => provider.script(key, vec![Resp::Http { status: 500, body: "boom".into() }], true),
        // a tool call but no response id: in the stateful mode the loop cannot continue (its error path)
        "call_without_response_id" => provider.script(key, vec![Resp::Sse { chunks: vec![sse(&[call.clone(), Value::String("[DONE]".into())])], abort: false }, second.clone()], true),
        _ => provider.script(key, vec![first, second], true),
    }
    // workspace + configuration files
    let root = proj_parent.join("repo/ws");
    std::fs::create_dir_all(&root).unwrap();
    std::fs::create_dir_all(proj_parent.join("repo/.git")).unwrap();
    let provider_cfg = |api_key: Option<Value>, headers: Option<Value>| {
        let mut p = json!({"endpoint": endpoint});
        if let Some(k) = api_key {
            p["api_key"] = k;
        }
        if let Some(h) = headers {
            p["headers"] = h;
        }
        json!({"provider": {"fixture": p}, "model": "fixture/fixture-model"})
    };
    let mut expect_key_received = true;
    let mut expect_header_received = false;
    let mut key_source_label: Option<&str> = None;
    match source.as_str() {
        "env_rip_key" => {
            std::env::set_var("RIP_OPENRESPONSES_ENDPOINT", &endpoint);
            std::env::set_var("RIP_OPENRESPONSES_API_KEY", CANARY);
            key_source_label = Some("env:RIP_OPENRESPONSES_API_KEY");
        }
        "env_rip_key_padded" => {
            std::env::set_var("RIP_OPENRESPONSES_ENDPOINT", &endpoint);
            std::env::set_var("RIP_OPENRESPONSES_API_KEY", format!(" {CANARY}\n"));
            key_source_label = Some("env:RIP_OPENRESPONSES_API_KEY");
            // a value with a newline may be refused as a header: reaching the provider is not demanded
            expect_key_received = false;
        }
        "env_openai_key" => {
            std::env::set_var("RIP_OPENRESPONSES_ENDPOINT", &endpoint);
            std::env::set_var("OPENAI_API_KEY", CANARY);
            key_source_label = Some("env:OPENAI_API_KEY");
        }
        "env_openrouter_key" => {
            std::env::set_var("RIP_OPENRESPONSES_ENDPOINT", &endpoint);
            std::env::set_var("OPENROUTER_API_KEY", CANARY);
            key_source_label = Some("env:OPENROUTER_API_KEY");
        }
        "inline_global" => std::fs::write(cfg_home.join("config.json"), provider_cfg(Some(json!(CANARY)), None).to_string()).unwrap(),
        "inline_custom" => {
            let p = dir.path().join("custom.json");
            std::fs::write(&p, provider_cfg(Some(json!(CANARY)), None).to_string()).unwrap();
            std::env::set_var("RIP_CONFIG", &p);
        }
        "inline_project" => std::fs::write(root.join("rip.json"), provider_cfg(Some(json!(CANARY)), None).to_string()).unwrap(),
        "inline_project_parent" => std::fs::write(proj_parent.join("repo/rip.jsonc"), format!("// comment\n{}", provider_cfg(Some(json!(CANARY)), None))).unwrap(),
        "env_indirection" => {
            std::env::set_var("MY_PROVIDER_TOKEN", CANARY);
            std::fs::write(root.join("rip.json"), provider_cfg(Some(json!({"env": "MY_PROVIDER_TOKEN"})), None).to_string()).unwrap();
        }
        "secret_header" => {
            expect_key_received = false;
            expect_header_received = true;
            std::fs::write(root.join("rip.json"), provider_cfg(None, Some(json!({"X-Upstream-Token": CANARY}))).to_string()).unwrap();
        }
        "secret_header_and_key" => {
            expect_header_received = true;
            std::fs::write(root.join("rip.json"), provider_cfg(Some(json!(CANARY)), Some(json!({"X-Upstream-Token": CANARY}))).to_string()).unwrap();
        }
        "secret_header_value_with_newline" => {
            expect_key_received = false;
            std::fs::write(root.join("rip.json"), provider_cfg(None, Some(json!({"X-Upstream-Token": format!("{CANARY}\n")}))).to_string()).unwrap();
        }
        "secret_header_name_with_colon" => {
            expect_key_received = false;
            std::fs::write(root.join("rip.json"), provider_cfg(None, Some(json!({"X-Upstream-Token:": CANARY}))).to_string()).unwrap();
        }
        "malformed_project_single_quoted_key" => {
            expect_key_received = false;
            std::fs::write(root.join("rip.jsonc"), format!("{{\n  \"provider\": {{\"fixture\": {{\"endpoint\": \"{endpoint}\",\n    \"api_key\": '{CANARY}'}}}},\n  \"model\": \"fixture/fixture-model\"\n}}\n")).unwrap();
        }
        "malformed_global_semicolon_after_key" => {
            expect_key_received = false;
            std::fs::write(cfg_home.join("config.jsonc"), format!("{{\n  \"provider\": {{\"fixture\": {{\n    \"api_key\": \"{CANARY}\"; \"endpoint\": \"{endpoint}\"}}}},\n  \"model\": \"fixture/fixture-model\"\n}}\n")).unwrap();
            std::fs::write(cfg_home.join("config.json"), format!("{{\n  \"provider\": {{\"fixture\": {{\n    \"api_key\": \"{CANARY}\"; \"endpoint\": \"{endpoint}\"}}}},\n  \"model\": \"fixture/fixture-model\"\n}}\n")).unwrap();
        }
        "malformed_parent_unquoted_member" => {
            expect_key_received = false;
            std::fs::write(proj_parent.join("repo/rip.json"), format!("{{\n  \"provider\": {{\"fixture\": {{\"endpoint\": \"{endpoint}\",\n    api_key: \"{CANARY}\"}}}},\n  \"model\": \"fixture/fixture-model\"\n}}\n")).unwrap();
        }
        "misshaped_headers_as_one_string" => {
            expect_key_received = false;
            std::fs::write(root.join("rip.json"), json!({"provider": {"fixture": {"endpoint": endpoint, "headers": format!("X-Api-Key: {CANARY}")}}, "model": "fixture/fixture-model"}).to_string()).unwrap();
        }
        "misshaped_provider_entry_is_the_key" => {
            expect_key_received = false;
            std::fs::write(cfg_home.join("config.json"), json!({"provider": {"fixture": CANARY}, "model": "fixture/fixture-model"}).to_string()).unwrap();
        }
        other => machinery_failure(&format!("unknown source {other}")),
    }
    // the authority, built as `serve` builds it
    let data = dir.path().join("data");
    let (engine, vapp) = {
        let _g = rt.enter();
        let engine = std::sync::Arc::new(ripd::SessionEngine::new(data.clone(), root.clone(), ripd::verif_export::OpenResponsesConfig::from_env()).expect("engine"));
        let vapp = ripd::verif_export::VerifApp::new(engine.clone(), false);
        (engine, vapp)
    };
    let dir_path = dir.path().to_path_buf();
    let app = App { dir, data: data.clone(), root: root.clone(), engine, app: vapp, rt: rt.clone() };
    let mut responses: Vec<(String, Vec<u8>)> = Vec::new();
    let (_, doctor) = app.request("GET", "/config/doctor", None);
    responses.push(("GET /config/doctor".into(), doctor.clone()));
    let thread = app.ensure_thread();
    let ov = if overrides { Some(json!({"endpoint": endpoint, "model": "override-model"})) } else { None };
    let posted = app.post_and_wait(&thread, "hello", ov, Duration::from_secs(8));
    if let Ok((_, sid)) = &posted {
        // the frames a stream subscriber would be sent are the session's log frames
        let frames: Vec<Value> = app.log_events().iter().filter(|e| e.stream_id() == sid).map(crate::fixture::event_json).collect();
        responses.push(("session frames".into(), serde_json::to_vec(&frames).unwrap_or_default()));
    }
    let (_, b) = app.request("GET", &format!("/threads/{thread}"), None);
    responses.push(("GET /threads/{id}".into(), b));
    let (_, b) = app.request("POST", "/threads/unknown/messages", Some(json!({"content": "x"})));
    responses.push(("POST /threads/unknown/messages".into(), b));
    // oracle
    let mut leaks: Vec<Value> = Vec::new();
    for (what, bytes) in &responses {
        if let Some(enc) = find_secret(bytes) {
            leaks.push(json!({"where": what, "encoding": enc}));
        }
    }
    for (base, label) in [(data.clone(), "data"), (root.join(".rip"), "workspace/.rip")] {
        for (path, content) in crate::common::tree_snapshot(&base) {
            if let Some(bytes) = content {
                if let Some(enc) = find_secret(&bytes) {
                    leaks.push(json!({"where": format!("{label}/{path}"), "encoding": enc}));
                }
            }
        }
    }
    let headers = provider.received_headers(key);
    let key_received = headers.iter().any(|h| h.iter().any(|(k, v)| k == "authorization" && v.contains(CANARY)));
    let header_received = headers.iter().any(|h| h.iter().any(|(k, v)| k == "x-upstream-token" && v.contains(CANARY)));
    let doc: Value = serde_json::from_slice(&doctor).unwrap_or(Value::Null);
    let _ = dir_path;
    println!(
        "{}",
        json!({
            "t": "c19",
            "leaks": leaks,
            "run_ok": posted.is_ok(),
            "key_received": key_received,
            "header_received": header_received,
            "expect_key_received": expect_key_received && outcome != "transport_error",
            "expect_header_received": expect_header_received && outcome != "transport_error",
            "doctor_has_api_key": doc["openresponses"]["has_api_key"],
            "doctor_api_key_source": doc["openresponses"]["api_key_source"],
            "expected_source_label": key_source_label,
            "requests": provider.received(key).len(),
        })
    );
    0
}

/// The CLI's own failure output. `rip` is started with the key in its environment (directly, or as
/// the provider-specific variable that `--provider` copies over) in situations in which it can
/// only fail: the store's authority never becomes reachable (a live process holds the lock and
/// advertises nothing: the client gives up after its 8 s deadline), or the server it is pointed
/// at refuses the connection. Whatever it prints, the key is not in it.
fn cli_failures(report: &Report) {
    let bin = format!("{}/target/debug/rip", crate::common::VERIF_DIR);
    if !std::path::Path::new(&bin).exists() {
        machinery_failure(&format!("{bin} is missing: ./vcheck C19 builds it (cargo build -p rip-cli)"));
    }
    let scenarios: Vec<(&str, Vec<&str>, Vec<(&str, &str)>, bool)> = vec![
        ("authority_unreachable:config_doctor", vec!["config", "doctor"], vec![("RIP_OPENRESPONSES_API_KEY", CANARY)], true),
        ("authority_unreachable:run_provider_openai", vec!["run", "hello", "--provider", "openai"], vec![("OPENAI_API_KEY", CANARY)], true),
        ("authority_unreachable:threads_list", vec!["threads", "list"], vec![("RIP_OPENRESPONSES_API_KEY", CANARY), ("OPENROUTER_API_KEY", CANARY)], true),
        ("server_refuses:run", vec!["run", "hello", "--server", "http://127.0.0.1:9"], vec![("RIP_OPENRESPONSES_API_KEY", CANARY)], false),
        ("server_refuses:config_doctor", vec!["config", "--server", "http://127.0.0.1:9", "doctor"], vec![("OPENAI_API_KEY", CANARY)], false),
    ];
    std::thread::scope(|scope| {
        for (label, args, envs, held_lock) in &scenarios {
            let bin = bin.clone();
            scope.spawn(move || {
                let dir = crate::common::scratch_dir("c19cli");
                let data = dir.path().join("data");
                let ws = dir.path().join("ws");
                std::fs::create_dir_all(data.join("authority")).unwrap();
                std::fs::create_dir_all(&ws).unwrap();
                if *held_lock {
                    // this process is alive and never serves: the lock is valid, meta.json never appears
                    let rec = json!({"pid": std::process::id(), "started_at_ms": 1, "workspace_root": ws.to_string_lossy()});
                    std::fs::write(data.join("authority/lock.json"), format!("{rec}\n")).unwrap();
                }
                let mut cmd = Command::new(&bin);
                cmd.args(args).env_clear().env("PATH", std::env::var("PATH").unwrap_or_default()).env("HOME", dir.path().join("home")).env("RIP_DATA_DIR", &data).env("RIP_WORKSPACE_ROOT", &ws).current_dir(&ws).stdin(Stdio::null()).stdout(Stdio::piped()).stderr(Stdio::piped());
                for (k, v) in envs {
                    cmd.env(k, v);
                }
                let started = std::time::Instant::now();
                let mut child = cmd.spawn().unwrap_or_else(|e| machinery_failure(&format!("cannot start rip: {e}")));
                // the client's own deadline is 8 s; 30 s is a hang
                let out = loop {
                    match child.try_wait() {
                        Ok(Some(_)) => break child.wait_with_output().expect("output"),
                        Ok(None) if started.elapsed() > std::time::Duration::from_secs(30) => {
                            let _ = child.kill();
                            break child.wait_with_output().expect("output");
                        }
                        Ok(None) => std::thread::sleep(std::time::Duration::from_millis(50)),
                        Err(e) => machinery_failure(&format!("wait for rip: {e}")),
                    }
                };
                report.eval(Some(&("cli_failure", label)));
                report.count("cli_failure_runs", 1);
                if out.status.success() {
                    report.count("cli_failure_runs_that_did_not_fail", 1);
                } else {
                    report.count("cli_failure_runs_with_error_exit", 1);
                }
                let all = [out.stdout.clone(), out.stderr.clone()].concat();
                if let Some(enc) = find_secret(&all) {
                    report.violation(
                        &format!("C19:secret_in_cli_output:{label}"),
                        json!({"engine": "P", "harness": "c19.cli_failures", "scenario": label, "args": args, "env": envs.iter().map(|(k, _)| *k).collect::<Vec<_>>()}),
                        &format!("`rip {}` failed and printed the key ({enc}): {}", args.join(" "), String::from_utf8_lossy(&out.stderr).replace(CANARY, "<KEY>").chars().take(300).collect::<String>()),
                    );
                }
            });
        }
    });
}

pub fn run(opts: Opts) -> i32 {
    if opts.extra.iter().any(|a| a == "worker") {
        return worker(&opts.extra);
    }
    let report = Report::new("C19", "exploration", opts.clone());
    if let Some(path) = &opts.replay {
        report.replay_by_re_enumeration(path);
    }
    report.set_rule(
        "the product secret source {RIP_OPENRESPONSES_API_KEY, OPENAI_API_KEY, OPENROUTER_API_KEY (selected by the endpoint substring), inline \
         api_key in the global / custom (RIP_CONFIG) / project / parent-project config layer, {env: NAME} indirection, secret header, header + \
         key, header value with a trailing newline, header name with a colon, three configuration layers whose line with the inline key does not parse (single-quoted value, ';' after the member, unquoted member name)} x outcome {success with a tool call, HTTP 401 echoing the \
         request body, transport error, HTTP 500, tool failure} x request dump {on; thorough: on, off} x per-request overrides {none; \
         thorough: none, endpoint+model}; each configuration runs in its own subprocess with a cleared environment; a case is one \
         configuration",
    );
    report.assume("decides the property for the enumerated configurations and outcomes only: absence of a flow on formatting paths this product does not drive is not established by enumeration");
    report.assume("a 30-byte canary is searched raw, base64- and percent-encoded in every file under the data dir and workspace .rip/, in /config/doctor, the session's frames, error responses and the worker's stdout/stderr");
    let tier = report.tier();
    let mut cases: Vec<(String, String, bool, bool)> = Vec::new();
    for s in SOURCES {
        for o in OUTCOMES {
            for dump in [true, false] {
                for ov in [false, true] {
                    if tier == Tier::Quick && (!dump || ov) {
                        continue;
                    }
                    cases.push((s.to_string(), o.to_string(), dump, ov));
                }
            }
        }
    }
    report.set_extra("configurations", json!(cases.len()));
    report.sample(json!({"source": "inline_project_parent", "outcome": "http_401_echoing_request", "dump": true}));
    report.sample(json!({"source": "secret_header_value_with_newline", "outcome": "success_with_tool_call", "dump": true}));
    report.sample(json!({"source": "env_openai_key", "outcome": "transport_error", "dump": true}));
    let exe = std::env::current_exe().expect("exe");
    let pool = rayon::ThreadPoolBuilder::new().num_threads(12).build().expect("pool");
    std::thread::scope(|scope| {
    let report_ref = &report;
    scope.spawn(move || cli_failures(report_ref));
    pool.install(|| {
        cases.par_iter().for_each(|(source, outcome, dump, ov)| {
            if report.over_cap() {
                return;
            }
            let out = Command::new(&exe)
                .args(["c19", "worker", &format!("source={source}"), &format!("outcome={outcome}"), &format!("dump={}", *dump as u8), &format!("overrides={}", *ov as u8)])
                .stdin(Stdio::null())
                .stdout(Stdio::piped())
                .stderr(Stdio::piped())
                .output()
                .unwrap_or_else(|e| machinery_failure(&format!("spawn c19 worker: {e}")));
            let stdout = String::from_utf8_lossy(&out.stdout).to_string();
            let Some(v) = stdout.lines().filter_map(|l| serde_json::from_str::<Value>(l).ok()).find(|v| v["t"] == "c19") else {
                machinery_failure(&format!("c19 worker {source}/{outcome} gave no result; stderr: {}", String::from_utf8_lossy(&out.stderr).chars().take(600).collect::<String>()));
            };
            report.eval(Some(&(source, outcome, dump, ov)));
            let case = json!({"engine": "P", "harness": "c19.secrets", "source": source, "outcome": outcome, "request_dump": dump, "per_request_overrides": ov});
            for leak in v["leaks"].as_array().cloned().unwrap_or_default() {
                let place = leak["where"].as_str().unwrap_or("?");
                let class = if place.starts_with("data/events") || place == "session frames" {
                    "frames"
                } else if place.starts_with("data/snapshots") {
                    "snapshot"
                } else if place.contains(".rip/artifacts") {
                    "artifact"
                } else if place.starts_with("data/continuity") {
                    "cache"
                } else if place.starts_with("GET /config/doctor") {
                    "doctor"
                } else {
                    "other"
                };
                report.violation(&format!("C19:secret_in_{class}:{source}"), case.clone(), &format!("the canary secret ({}) appears in {place}", leak["encoding"]));
            }
            let worker_output = [out.stdout.clone(), out.stderr.clone()].concat();
            // the result line itself never contains the canary; anything else on stdout/stderr is process output
            if let Some(enc) = find_secret(&worker_output) {
                report.violation(&format!("C19:secret_in_process_output:{source}"), case.clone(), &format!("the canary secret ({enc}) appears in the process output"));
            }
            if v["expect_key_received"] == json!(true) && v["key_received"] != json!(true) {
                report.violation("C19:vacuous:key_not_received", case.clone(), "the provider never received the API key: the configuration did not take effect, the case is vacuous");
            }
            if v["expect_header_received"] == json!(true) && v["header_received"] != json!(true) {
                report.violation("C19:vacuous:header_not_received", case.clone(), "the provider never received the secret header");
            }
            if v["key_received"] == json!(true) {
                report.count("configs_in_which_the_provider_received_the_key", 1);
                if v["doctor_has_api_key"] != json!(true) {
                    report.violation("C19:doctor_has_api_key", case.clone(), "the key is in use but /config/doctor does not report has_api_key");
                }
                if let Some(want) = v["expected_source_label"].as_str() {
                    if v["doctor_api_key_source"].as_str() != Some(want) {
                        report.violation("C19:doctor_source_label", case.clone(), &format!("doctor reports source {} for a key from {want}", v["doctor_api_key_source"]));
                    }
                }
            }
        });
    });
    });
    report.finish()
}
