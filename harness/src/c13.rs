//! C13 — no path argument can reach outside the workspace root.
//!
//! Bounded exhaustive enumeration of a path-string grammar in every path-taking argument of the
//! real tools (through the real ToolRunner with the production checkpoint hook, and POST /tasks
//! through the real router), for process cwd == root and != root (worker subprocesses).
//! Oracle: a sentinel tree with canaries outside the root must stay byte-identical, the canary
//! must never appear in any output or under .rip, refused paths must fail and change nothing.

use std::collections::BTreeMap;
use std::path::{Component, Path, PathBuf};
use std::sync::Arc;

use http_body_util::BodyExt;
use rip_kernel::{Event, EventKind};
use rip_tools::{ToolInvocation, ToolRunner};
use serde_json::{json, Value};
use tower::ServiceExt;

use crate::common::{run_workers, scratch_dir, tree_snapshot, Opts, Report, Tier};

const CANARY: &str = "CANARY-7f3a9c-outside-root";

type Tree = BTreeMap<String, Option<Vec<u8>>>;

struct Sandbox {
    _dir: tempfile::TempDir,
    top: PathBuf,
    outer: PathBuf,
    root: PathBuf,
    data: PathBuf,
    elsewhere: PathBuf,
}

fn build_files(sb: &Sandbox) {
    let _ = std::fs::remove_dir_all(&sb.top.join("l1"));
    std::fs::create_dir_all(sb.root.join("d")).unwrap();
    std::fs::create_dir_all(sb.outer.join("d")).unwrap();
    std::fs::create_dir_all(&sb.elsewhere).unwrap();
    std::fs::write(sb.outer.join("a"), format!("{CANARY} outer/a\n")).unwrap();
    std::fs::write(sb.outer.join("d/a"), format!("{CANARY} outer/d/a\n")).unwrap();
    std::fs::write(sb.outer.join("secret.txt"), format!("{CANARY} secret\n")).unwrap();
    std::fs::write(sb.top.join("l1/l2/a"), format!("{CANARY} l2/a\n")).unwrap();
    std::fs::write(sb.top.join("l1/a"), format!("{CANARY} l1/a\n")).unwrap();
    std::fs::write(sb.elsewhere.join("a"), format!("{CANARY} elsewhere/a\n")).unwrap();
    // directories outside the root that LOOK like a checkpoint (parsable metadata + a stored
    // file): an id that is used as a path finds them
    for dir in [sb.outer.clone(), sb.outer.join("d"), sb.top.join("l1/l2"), sb.elsewhere.clone()] {
        std::fs::create_dir_all(dir.join("files")).unwrap();
        std::fs::write(dir.join("checkpoint.json"), r#"{"id":"decoy","session_id":"sess","label":"decoy","created_at_ms":1,"files":[{"path":"stolen.txt","exists":true,"sha256":null}]}"#).unwrap();
        std::fs::write(dir.join("files/stolen.txt"), format!("{CANARY} decoy checkpoint\n")).unwrap();
    }
    std::fs::write(sb.root.join("a"), "root-a\n").unwrap();
    std::fs::write(sb.root.join("d/a"), "root-d-a\n").unwrap();
    std::fs::write(sb.root.join("d/b"), "root-d-b\n").unwrap();
}

fn sandbox() -> Sandbox {
    let dir = scratch_dir("c13");
    let top = dir.path().to_path_buf();
    let outer = top.join("l1/l2/outer");
    let root = outer.join("root");
    let data = top.join("data");
    let elsewhere = top.join("l1/l2/elsewhere");
    let sb = Sandbox { _dir: dir, top, outer, root, data, elsewhere };
    build_files(&sb);
    sb
}

/// (outside tree, inside tree): everything under top/l1 split at the root directory.
fn observe(sb: &Sandbox) -> (Tree, Tree) {
    let all = tree_snapshot(&sb.top.join("l1"));
    let root_rel = "l2/outer/root";
    let mut outside = Tree::new();
    let mut inside = Tree::new();
    for (k, v) in all {
        if k == format!("{root_rel}/") {
            continue;
        }
        if let Some(rest) = k.strip_prefix(&format!("{root_rel}/")) {
            inside.insert(rest.to_string(), v);
        } else if k.ends_with('/') {
            // a directory outside the root: its modification time shows an entry that was created
            // and removed again (a temporary file next to the root leaves nothing else behind)
            let m = std::fs::metadata(sb.top.join("l1").join(&k)).and_then(|m| m.modified()).ok().and_then(|t| t.duration_since(std::time::UNIX_EPOCH).ok()).map(|d| d.as_nanos().to_string().into_bytes());
            outside.insert(k, m);
        } else {
            outside.insert(k, v);
        }
    }
    (outside, inside)
}

fn tree_diff(before: &Tree, after: &Tree) -> Vec<String> {
    let mut out = Vec::new();
    for (k, v) in after {
        match before.get(k) {
            None => out.push(format!("+{k}")),
            Some(b) if b != v => out.push(format!("~{k}")),
            _ => {}
        }
    }
    for k in before.keys() {
        if !after.contains_key(k) {
            out.push(format!("-{k}"));
        }
    }
    out
}

fn contains_canary(tree: &Tree, prefix: &str) -> Option<String> {
    for (k, v) in tree {
        if !k.starts_with(prefix) {
            continue;
        }
        if let Some(bytes) = v {
            if bytes.windows(CANARY.len()).any(|w| w == CANARY.as_bytes()) {
                return Some(k.clone());
            }
        }
    }
    None
}

// ---------------------------------------------------------------------------------------------
// Path grammar

fn path_strings(sb: &Sandbox, tier: Tier) -> Vec<String> {
    let long = "x".repeat(300);
    let segs: Vec<&str> = vec!["a", "d", "..", ".", "", "ä", &long];
    let max_len = tier.pick(2, 3);
    let mut seqs: Vec<Vec<&str>> = Vec::new();
    let mut frontier: Vec<Vec<&str>> = vec![vec![]];
    for _ in 0..max_len {
        let mut next = Vec::new();
        for s in &frontier {
            for seg in &segs {
                let mut t = s.clone();
                t.push(*seg);
                next.push(t);
            }
        }
        seqs.extend(next.iter().cloned());
        frontier = next;
    }
    let mut out: Vec<String> = Vec::new();
    let abs_outer = sb.outer.to_string_lossy().to_string();
    let abs_root = sb.root.to_string_lossy().to_string();
    for s in &seqs {
        let rel = s.join("/");
        out.push(rel.clone());
        out.push(format!("{rel}/"));
        // leading "/" forms are anchored inside the scratch area so that a broken resolver can
        // never touch the real file system root
        out.push(format!("{abs_outer}/{rel}"));
        out.push(format!("{abs_root}/{rel}"));
        if s.len() > 1 {
            out.push(s.join("\\"));
        }
    }
    // quick tier additionally gets the deeper escapes the two-segment grammar cannot spell
    out.push("../../a".to_string());
    out.push("d/../../a".to_string());
    out.push("a/../../outer/secret.txt".to_string());
    out.push("../root/a".to_string());
    out.push("./../a".to_string());
    // whitespace-padded forms of everything that must be refused or confined (a resolver that
    // validates the raw string and uses a trimmed one, or the reverse)
    let padded: Vec<String> = out.iter().filter(|p| p.starts_with('/') || p.contains("..")).flat_map(|p| [format!(" {p}"), format!("{p} ")]).collect();
    out.extend(padded);
    out.sort();
    out.dedup();
    out
}

fn has_parent(p: &str) -> bool {
    Path::new(p).components().any(|c| matches!(c, Component::ParentDir))
}

fn is_abs(p: &str) -> bool {
    Path::new(p).is_absolute()
}

// ---------------------------------------------------------------------------------------------
// Arguments under test

#[derive(Clone, Copy, Debug, PartialEq, Eq, Hash)]
enum Arg {
    Read,
    WriteAtomic,
    WriteAppend,
    WritePlain,
    Ls,
    Grep,
    PatchAdd,
    PatchDelete,
    PatchUpdate,
    PatchMoveTo,
    CheckpointCreate,
    /// a checkpoint request of two files: an existing file of the workspace FIRST, then the path
    /// under test (a refusal of the second must leave nothing of the first behind)
    CheckpointCreateSecondFile,
    CheckpointRewindId,
    BashCwd,
    TaskCwd,
}

const ARGS: [Arg; 15] = [
    Arg::Read,
    Arg::WriteAtomic,
    Arg::WriteAppend,
    Arg::WritePlain,
    Arg::Ls,
    Arg::Grep,
    Arg::PatchAdd,
    Arg::PatchDelete,
    Arg::PatchUpdate,
    Arg::PatchMoveTo,
    Arg::CheckpointCreate,
    Arg::CheckpointCreateSecondFile,
    Arg::CheckpointRewindId,
    Arg::BashCwd,
    Arg::TaskCwd,
];

fn invocation(arg: Arg, p: &str) -> Option<ToolInvocation> {
    let inv = |name: &str, args: Value| ToolInvocation { name: name.to_string(), args, timeout_ms: None };
    Some(match arg {
        Arg::Read => inv("read", json!({"path": p})),
        Arg::WriteAtomic => inv("write", json!({"path": p, "content": "W"})),
        Arg::WriteAppend => inv("write", json!({"path": p, "content": "W", "append": true})),
        Arg::WritePlain => inv("write", json!({"path": p, "content": "W", "atomic": false})),
        Arg::Ls => inv("ls", json!({"path": p, "recursive": true})),
        Arg::Grep => inv("grep", json!({"pattern": "CANARY", "path": p})),
        Arg::PatchAdd => inv("apply_patch", json!({"patch": format!("*** Begin Patch\n*** Add File: {p}\n+W\n*** End Patch")})),
        Arg::PatchDelete => inv("apply_patch", json!({"patch": format!("*** Begin Patch\n*** Delete File: {p}\n*** End Patch")})),
        Arg::PatchUpdate => inv(
            "apply_patch",
            json!({"patch": format!("*** Begin Patch\n*** Update File: {p}\n@@\n+W\n*** End Patch")}),
        ),
        Arg::PatchMoveTo => inv(
            "apply_patch",
            json!({"patch": format!("*** Begin Patch\n*** Update File: d/b\n*** Move to: {p}\n@@\n+W\n*** End Patch")}),
        ),
        Arg::BashCwd => inv("bash", json!({"command": "echo probe > probe.txt; cat a 2>/dev/null", "cwd": p})),
        Arg::CheckpointCreate | Arg::CheckpointCreateSecondFile | Arg::CheckpointRewindId | Arg::TaskCwd => return None,
    })
}

#[derive(Debug)]
struct Outcome {
    success: bool,
    output: String,
}

fn outcome_of(events: &[Event]) -> Outcome {
    let mut success = false;
    for e in events {
        match &e.kind {
            EventKind::ToolEnded { exit_code, .. } => success = *exit_code == 0,
            EventKind::CheckpointCreated { auto: false, .. } | EventKind::CheckpointRewound { .. } => success = true,
            _ => {}
        }
    }
    Outcome {
        success,
        output: serde_json::to_string(events).unwrap_or_default(),
    }
}

struct Ctx {
    sb: Sandbox,
    rt: tokio::runtime::Runtime,
    runner: Arc<ToolRunner>,
    /// the production router; rebuilt every 100 tasks: the server keeps every task's handle (with
    /// its pre-allocated 16 384-slot channel, ~1 MB) for its whole life, which a worker that spawns
    /// thousands of tasks cannot afford
    app: std::cell::RefCell<ripd::verif_export::VerifApp>,
    engine: Arc<ripd::SessionEngine>,
    tasks_on_this_app: std::cell::Cell<usize>,
    cwd_mode: String,
}

fn run_task_cwd(ctx: &Ctx, p: &str) -> Outcome {
    if ctx.tasks_on_this_app.get() >= 100 {
        let _g = ctx.rt.enter();
        *ctx.app.borrow_mut() = ripd::verif_export::VerifApp::new(ctx.engine.clone(), false);
        ctx.tasks_on_this_app.set(0);
    }
    ctx.tasks_on_this_app.set(ctx.tasks_on_this_app.get() + 1);
    let router = ctx.app.borrow().router();
    ctx.rt.block_on(async move {
        let body = json!({"tool": "bash", "args": {"command": "echo probe > probe.txt; cat a 2>/dev/null", "cwd": p}});
        let req = axum::http::Request::builder()
            .method("POST")
            .uri("/tasks")
            .header("content-type", "application/json")
            .body(axum::body::Body::from(body.to_string()))
            .unwrap();
        let resp = router.clone().oneshot(req).await.unwrap();
        let status = resp.status();
        let bytes = resp.into_body().collect().await.unwrap().to_bytes();
        if !status.is_success() {
            return Outcome { success: false, output: String::from_utf8_lossy(&bytes).to_string() };
        }
        let v: Value = serde_json::from_slice(&bytes).unwrap_or(Value::Null);
        let id = v["task_id"].as_str().unwrap_or("").to_string();
        let mut last = Value::Null;
        for _ in 0..2000 {
            let req = axum::http::Request::builder()
                .uri(format!("/tasks/{id}"))
                .body(axum::body::Body::empty())
                .unwrap();
            let resp = router.clone().oneshot(req).await.unwrap();
            let bytes = resp.into_body().collect().await.unwrap().to_bytes();
            last = serde_json::from_slice(&bytes).unwrap_or(Value::Null);
            let st = last["status"].as_str().unwrap_or("");
            if matches!(st, "exited" | "failed" | "cancelled") {
                break;
            }
            tokio::time::sleep(std::time::Duration::from_millis(2)).await;
        }
        // also pull stdout
        let req = axum::http::Request::builder()
            .uri(format!("/tasks/{id}/output?stream=stdout"))
            .body(axum::body::Body::empty())
            .unwrap();
        let resp = router.clone().oneshot(req).await.unwrap();
        let out = resp.into_body().collect().await.unwrap().to_bytes();
        let success = last["status"].as_str() == Some("exited") && last["exit_code"].as_i64() == Some(0);
        Outcome {
            success,
            output: format!("{last} {}", String::from_utf8_lossy(&out)),
        }
    })
}

fn run_case(ctx: &Ctx, arg: Arg, p: &str, seq: &mut u64) -> Outcome {
    match arg {
        Arg::CheckpointCreate | Arg::CheckpointCreateSecondFile => {
            let files = if arg == Arg::CheckpointCreate { vec![PathBuf::from(p)] } else { vec![PathBuf::from("d/b"), PathBuf::from(p)] };
            let events = ctx.runner.create_checkpoint("sess", seq, "l".into(), files);
            let mut out = outcome_of(&events);
            // a created checkpoint is then rewound: rewind must not reach outside either
            if let Some(id) = events.iter().find_map(|e| match &e.kind {
                EventKind::CheckpointCreated { checkpoint_id, .. } => Some(checkpoint_id.clone()),
                _ => None,
            }) {
                let ev2 = ctx.runner.rewind_checkpoint("sess", seq, &id);
                out.output.push_str(&serde_json::to_string(&ev2).unwrap_or_default());
            }
            out
        }
        Arg::CheckpointRewindId => {
            let events = ctx.runner.rewind_checkpoint("sess", seq, p);
            outcome_of(&events)
        }
        Arg::TaskCwd => run_task_cwd(ctx, p),
        _ => {
            let inv = invocation(arg, p).expect("invocation");
            let events = ctx.rt.block_on(ctx.runner.run("sess", seq, inv));
            outcome_of(&events)
        }
    }
}

fn must_refuse(ctx: &Ctx, arg: Arg, p: &str) -> bool {
    match arg {
        Arg::CheckpointRewindId => false, // an id, not a path: only "unknown id fails" applies (checked via no-effect)
        Arg::CheckpointCreate | Arg::CheckpointCreateSecondFile => has_parent(p) || (is_abs(p) && !Path::new(p).starts_with(&ctx.sb.root)),
        _ => has_parent(p) || is_abs(p),
    }
}

fn case_json(ctx: &Ctx, arg: Arg, p: &str) -> Value {
    let shown = p
        .replace(&ctx.sb.root.to_string_lossy().to_string(), "<ROOT>")
        .replace(&ctx.sb.outer.to_string_lossy().to_string(), "<OUTER>");
    json!({
        "engine": "H-inputs",
        "harness": "c13.paths",
        "argument": format!("{arg:?}"),
        "path": if shown.len() > 120 { format!("{}…(len {})", crate::common::truncate(&shown, 100), shown.len()) } else { shown.clone() },
        "path_kind": {"absolute": is_abs(p), "parent_segments": has_parent(p)},
        "process_cwd": ctx.cwd_mode,
        "path_template": shown,
    })
}

fn worker(opts: Opts) -> i32 {
    let report = Report::new("C13", "exploration", opts.clone());
    let cwd_mode = opts.extra.iter().find_map(|a| a.strip_prefix("cwd=").map(|s| s.to_string())).unwrap_or("root".into());
    let shard: usize = opts.extra.iter().find_map(|a| a.strip_prefix("shard=").and_then(|s| s.parse().ok())).unwrap_or(0);
    let of: usize = opts.extra.iter().find_map(|a| a.strip_prefix("of=").and_then(|s| s.parse().ok())).unwrap_or(1);
    let sb = sandbox();
    let cwd = if cwd_mode == "root" { sb.root.clone() } else { sb.elsewhere.clone() };
    std::env::set_current_dir(&cwd).expect("chdir");
    let rt = tokio::runtime::Builder::new_multi_thread().worker_threads(2).enable_all().build().expect("rt");
    let engine = Arc::new(ripd::SessionEngine::new(sb.data.clone(), sb.root.clone(), None).expect("engine"));
    let runner = engine.verif_tool_runner();
    let app = {
        let _g = rt.enter();
        ripd::verif_export::VerifApp::new(engine.clone(), false)
    };
    let ctx = Ctx { sb, rt, runner, app: std::cell::RefCell::new(app), engine: engine.clone(), tasks_on_this_app: std::cell::Cell::new(0), cwd_mode };
    let paths = path_strings(&ctx.sb, report.tier());
    // the engine created root/.rip: pristine = after engine construction
    let (mut pristine_out, mut pristine_in) = observe(&ctx.sb);
    let mut seq = 0u64;
    let mut idx = 0usize;
    for p in &paths {
        for arg in ARGS {
            idx += 1;
            if idx % of != shard {
                continue;
            }
            if report.over_cap() {
                break;
            }
            let outcome = run_case(&ctx, arg, p, &mut seq);
            let (out_after, in_after) = observe(&ctx.sb);
            let refused_expected = must_refuse(&ctx, arg, p);
            report.eval(Some(&(format!("{arg:?}"), p.replace(&ctx.sb.top.to_string_lossy().to_string(), "<T>"), &ctx.cwd_mode)));
            if refused_expected {
                report.count("cases_expected_refusal", 1);
            }
            let d_out = tree_diff(&pristine_out, &out_after);
            if !d_out.is_empty() {
                report.violation(
                    &format!("C13:outside_modified:{arg:?}"),
                    case_json(&ctx, arg, p),
                    &format!("tree outside the workspace root changed: {:?}", d_out),
                );
            }
            if outcome.output.contains(CANARY) {
                report.violation(
                    &format!("C13:outside_read:output:{arg:?}"),
                    case_json(&ctx, arg, p),
                    &format!("canary from outside the root appears in the tool output: {}", crate::common::truncate(&outcome.output, 300)),
                );
            }
            if let Some(f) = contains_canary(&in_after, "") {
                report.violation(
                    &format!("C13:outside_read:copied_into_root:{arg:?}"),
                    case_json(&ctx, arg, p),
                    &format!("canary from outside the root was copied to {f} under the root"),
                );
            }
            let d_in_all = tree_diff(&pristine_in, &in_after);
            // task/tool bookkeeping (log artifacts of a failed task) is a record of the refusal,
            // like its frames in the event log; it is not judged as a side effect
            let d_in: Vec<String> = d_in_all.iter().filter(|d| !d[1..].starts_with(".rip/artifacts")).cloned().collect();
            if d_in.len() != d_in_all.len() {
                report.count("info_refusal_bookkeeping_artifacts", 1);
            }
            if refused_expected {
                if outcome.success {
                    report.violation(
                        &format!("C13:not_refused:{arg:?}"),
                        case_json(&ctx, arg, p),
                        &format!("a path that is absolute / has a parent-directory segment was accepted: {}", crate::common::truncate(&outcome.output, 300)),
                    );
                }
                if !d_in.is_empty() {
                    let store_only = d_in.iter().all(|d| d[1..].starts_with(".rip/checkpoints"));
                    let sig = if store_only {
                        format!("C13:refused_side_effect:checkpoint_store:{arg:?}")
                    } else {
                        format!("C13:refused_side_effect:workspace:{arg:?}")
                    };
                    report.violation(
                        &sig,
                        case_json(&ctx, arg, p),
                        &format!("a refused request left side effects under the root: {:?}", d_in.iter().take(6).collect::<Vec<_>>()),
                    );
                }
            }
            if !d_out.is_empty() || !d_in_all.is_empty() {
                // restore the pristine sandbox for the next case
                build_files(&ctx.sb);
                // build_files re-creates the whole tree: the directory this process stands in is a new
                // one now (the old inode is gone and relative lookups in it fail)
                std::env::set_current_dir(if ctx.cwd_mode == "root" { &ctx.sb.root } else { &ctx.sb.elsewhere }).expect("chdir");
                let _ = std::fs::remove_dir_all(ctx.sb.root.join(".rip"));
                let _ = rip_workspace::Workspace::new(&ctx.sb.root);
                let (o, i) = observe(&ctx.sb);
                pristine_out = o;
                pristine_in = i;
            }
        }
    }
    if shard == 0 {
        report.sample(json!({"argument": "WriteAtomic", "path": "../a", "cwd": ctx.cwd_mode}));
        report.sample(json!({"argument": "CheckpointCreate", "path": "<OUTER>/d/a", "cwd": ctx.cwd_mode}));
        report.sample(json!({"argument": "TaskCwd", "path": "d/../..", "cwd": ctx.cwd_mode}));
    }
    std::env::set_current_dir("/").ok();
    report.finish()
}

pub fn run(opts: Opts) -> i32 {
    if std::env::var("VC_WORKER").is_ok() {
        return worker(opts);
    }
    let report = Report::new("C13", "exploration", opts.clone());
    report.set_rule(
        "path strings = every sequence of 1..2 (quick) / 1..3 (thorough) segments from {a, d, '..', '.', '', 'ä', 300x'x'} joined by '/', \
         each also with a trailing '/', as an absolute path anchored outside the root, as an absolute path anchored inside the root, and \
         joined by '\\\\', plus 5 deeper escapes, plus every absolute or '..'-containing string with a leading / trailing space; every string is supplied as each of 14 path-taking arguments (read, write atomic/append/plain, \
         ls, grep, patch add/delete/update/move-to, checkpoint create(+rewind), checkpoint rewind id, bash cwd, task cwd via POST /tasks) for \
         process cwd = root and != root; a case is distinct by (argument, path, cwd mode)",
    );
    report.assume("absolute test paths are anchored inside the scratch area (a leading '/' form that would address the real file system root is not generated)");
    report.assume("no symlinks in the workspace (resolvers are lexical by design)");
    report.assume("checkpoint creation is meant to accept an absolute path inside the root (C14's quantifier uses that form): refusal is demanded for '..' segments and absolute paths outside the root");
    if let Some(path) = &opts.replay {
        let case = crate::common::load_replay_case(path);
        println!("replay: run `vc c13` worker on path {} argument {} cwd {}", case["path_template"], case["argument"], case["process_cwd"]);
        return replay(&report, &case);
    }
    let shards = 8usize;
    let mut jobs = Vec::new();
    for cwd in ["root", "elsewhere"] {
        for s in 0..shards {
            jobs.push(vec![
                "c13".to_string(),
                "--tier".into(),
                report.tier().as_str().into(),
                "--wall-cap".into(),
                format!("{}", report.opts.wall_cap_s),
                format!("cwd={cwd}"),
                format!("shard={s}"),
                format!("of={shards}"),
            ]);
        }
    }
    run_workers(&report, jobs, 16, &[]);
    report.finish()
}

fn replay(report: &Report, case: &Value) -> i32 {
    // Re-executes exactly one (argument, path, cwd) case in-process (cwd is changed for this process).
    let cwd_mode = case["process_cwd"].as_str().unwrap_or("root").to_string();
    let sb = sandbox();
    let cwd = if cwd_mode == "root" { sb.root.clone() } else { sb.elsewhere.clone() };
    std::env::set_current_dir(&cwd).expect("chdir");
    let rt = tokio::runtime::Builder::new_multi_thread().worker_threads(2).enable_all().build().expect("rt");
    let engine = Arc::new(ripd::SessionEngine::new(sb.data.clone(), sb.root.clone(), None).expect("engine"));
    let runner = engine.verif_tool_runner();
    let app = {
        let _g = rt.enter();
        ripd::verif_export::VerifApp::new(engine.clone(), false)
    };
    let ctx = Ctx { sb, rt, runner, app: std::cell::RefCell::new(app), engine: engine.clone(), tasks_on_this_app: std::cell::Cell::new(0), cwd_mode };
    let p = case["path_template"]
        .as_str()
        .unwrap_or("")
        .replace("<ROOT>", &ctx.sb.root.to_string_lossy())
        .replace("<OUTER>", &ctx.sb.outer.to_string_lossy());
    let arg = ARGS.iter().copied().find(|a| format!("{a:?}") == case["argument"].as_str().unwrap_or("")).unwrap_or(Arg::Read);
    let (o0, i0) = observe(&ctx.sb);
    let mut seq = 0;
    let outcome = run_case(&ctx, arg, &p, &mut seq);
    let (o1, i1) = observe(&ctx.sb);
    println!("outcome success={} output={}", outcome.success, crate::common::truncate(&outcome.output, 500));
    println!("outside diff: {:?}\ninside diff: {:?}", tree_diff(&o0, &o1), tree_diff(&i0, &i1));
    report.eval(Some(&"replay"));
    if !tree_diff(&o0, &o1).is_empty() {
        report.violation(&format!("C13:outside_modified:{arg:?}"), case.clone(), "outside tree changed");
    }
    if outcome.output.contains(CANARY) {
        report.violation(&format!("C13:outside_read:output:{arg:?}"), case.clone(), "canary from outside the root appears in the tool output");
    }
    if let Some(f) = contains_canary(&i1, "") {
        report.violation(&format!("C13:outside_read:copied_into_root:{arg:?}"), case.clone(), &format!("canary from outside the root was copied to {f} under the root"));
    }
    if must_refuse(&ctx, arg, &p) && (outcome.success || !tree_diff(&i0, &i1).is_empty()) {
        report.violation(&format!("C13:not_refused_or_side_effect:{arg:?}"), case.clone(), "refusal clause violated");
    }
    std::env::set_current_dir("/").ok();
    report.finish()
}
