//! Real-code fixture: a temp data dir + workspace with an EventLog / ContinuityStore /
//! SessionEngine opened on it, plus the history-op executor shared by the history checks.

use std::path::{Path, PathBuf};
use std::sync::Arc;

use rip_kernel::{Event, EventKind, StreamKind};
use rip_log::EventLog;
use ripd::{ContinuityRunLink, ContinuityStore, SessionEngine, ToolSideEffects};
use serde_json::{json, Value};

pub struct Fx {
    pub dir: tempfile::TempDir,
    pub data: PathBuf,
    pub root: PathBuf,
    pub engine: Arc<SessionEngine>,
    pub rt: Arc<tokio::runtime::Runtime>,
}

pub fn new_rt() -> Arc<tokio::runtime::Runtime> {
    Arc::new(
        tokio::runtime::Builder::new_current_thread()
            .enable_all()
            .build()
            .expect("rt"),
    )
}

impl Fx {
    pub fn new(rt: Arc<tokio::runtime::Runtime>) -> Self {
        let dir = crate::common::scratch_dir("fx");
        let data = dir.path().join("data");
        let root = dir.path().join("ws");
        std::fs::create_dir_all(&root).unwrap();
        let engine = {
            let _g = rt.enter();
            Arc::new(SessionEngine::new(data.clone(), root.clone(), None).expect("engine"))
        };
        Self { dir, data, root, engine, rt }
    }

    /// Opens an existing store directory (data + workspace) under a fresh authority.
    pub fn open(dir: tempfile::TempDir, data: PathBuf, root: PathBuf, rt: Arc<tokio::runtime::Runtime>) -> Self {
        let engine = {
            let _g = rt.enter();
            Arc::new(SessionEngine::new(data.clone(), root.clone(), None).expect("engine"))
        };
        Self { dir, data, root, engine, rt }
    }

    /// A copy of this store (data dir and workspace) in a new scratch dir, optionally without the
    /// rebuildable caches, opened under a fresh authority.
    pub fn copy(&self, with_caches: bool) -> Fx {
        let dir = crate::common::scratch_dir("fxc");
        let data = dir.path().join("data");
        let root = dir.path().join("ws");
        let _ = crate::common::copy_dir(&self.data, &data);
        let _ = crate::common::copy_dir(&self.root, &root);
        if !with_caches {
            let _ = std::fs::remove_dir_all(data.join("continuity_streams"));
        }
        Fx::open(dir, data, root, self.rt.clone())
    }

    /// Re-open everything on the same directories (authority restart).
    pub fn restart(&mut self) {
        let engine = {
            let _g = self.rt.enter();
            Arc::new(SessionEngine::new(self.data.clone(), self.root.clone(), None).expect("engine"))
        };
        self.engine = engine;
    }

    pub fn store(&self) -> Arc<ContinuityStore> {
        self.engine.continuities()
    }

    pub fn log_path(&self) -> PathBuf {
        self.data.join("events.jsonl")
    }

    pub fn log_bytes(&self) -> Vec<u8> {
        std::fs::read(self.log_path()).unwrap_or_default()
    }

    pub fn cache_dir(&self) -> PathBuf {
        self.data.join("continuity_streams")
    }

    pub fn drop_caches(&self) {
        let _ = std::fs::remove_dir_all(self.cache_dir());
    }

    /// Truth: frames of one stream replayed from the log by a fresh EventLog.
    pub fn truth(&self, kind: StreamKind, id: &str) -> Vec<Event> {
        let log = EventLog::new(self.log_path()).expect("log");
        log.replay()
            .unwrap_or_default()
            .into_iter()
            .filter(|e| e.stream_kind() == kind && e.stream_id() == id)
            .collect()
    }

    pub fn truth_all(&self) -> std::io::Result<Vec<Event>> {
        EventLog::new(self.log_path())?.replay()
    }

    pub fn validated(&self) -> std::io::Result<Vec<Event>> {
        EventLog::new(self.log_path())?.replay_validated()
    }

    /// Runs a stub session (no provider) linked to `thread` for a fresh message: the real
    /// message -> run_spawned -> run_session -> run_ended path, driven to completion.
    pub fn answered_run(&self, thread: &str, content: &str) -> Result<(String, String), String> {
        let store = self.store();
        let message_id = store.append_message(thread, "user".into(), "verif".into(), content.to_string())?;
        let handle = self.engine.create_session();
        let session_id = handle.session_id.clone();
        store.append_run_spawned(thread, &message_id, &session_id, "user".into(), "verif".into())?;
        let link = ContinuityRunLink {
            continuity_id: thread.to_string(),
            message_id: message_id.clone(),
            actor_id: "user".into(),
            origin: "verif".into(),
        };
        let fut = self.engine.verif_session_future(handle, content.to_string(), Some(link), None);
        self.rt.block_on(fut);
        Ok((message_id, session_id))
    }

    pub fn side_effect(&self, thread: &str, message_id: &str, session_id: &str, n: u64) -> Result<String, String> {
        let link = ContinuityRunLink {
            continuity_id: thread.to_string(),
            message_id: message_id.to_string(),
            actor_id: "user".into(),
            origin: "verif".into(),
        };
        self.store().append_tool_side_effects(
            &link,
            session_id,
            ToolSideEffects {
                tool_id: format!("tool-{n}"),
                tool_name: "write".into(),
                affected_paths: Some(vec![format!("f{n}")]),
                checkpoint_id: None,
            },
        )
    }
}

pub fn event_json(e: &Event) -> Value {
    serde_json::to_value(e).unwrap_or(Value::Null)
}

pub fn kind_name(e: &Event) -> String {
    event_json(e).get("type").and_then(|v| v.as_str()).unwrap_or("?").to_string()
}

pub fn is_message(e: &Event) -> bool {
    matches!(e.kind, EventKind::ContinuityMessageAppended { .. })
}

pub fn cache_files(dir: &Path) -> Vec<PathBuf> {
    let mut out: Vec<PathBuf> = std::fs::read_dir(dir)
        .map(|rd| rd.flatten().map(|e| e.path()).filter(|p| p.is_file()).collect())
        .unwrap_or_default();
    out.sort();
    out
}

pub fn shape(events: &[Event]) -> Vec<Value> {
    events.iter().map(|e| json!({"seq": e.seq, "type": kind_name(e)})).collect()
}
