//! Engine S — stateless schedule explorer (CHESS style) over OS threads running the real code.
//!
//! Exactly one actor holds the run token. An actor runs until it reaches a hook of
//! `rip_kernel::verif` (point / lock_point / span / retry_sleep), parks there, and the controller
//! picks the next actor from the enabled set according to the current choice sequence. A
//! `lock_point` carries a predicate over the *real* lock (try_lock / available permits); the
//! controller evaluates it while every actor is parked, so an actor is only ever scheduled into an
//! acquire that will succeed. Search: depth-first over choice sequences with a preemption bound.

use std::cell::RefCell;
use std::future::Future;
use std::panic::{catch_unwind, AssertUnwindSafe};
use std::pin::Pin;
use std::sync::atomic::{AtomicBool, Ordering};
use std::sync::{Arc, Condvar, Mutex};
use std::task::{Context, Poll, Wake, Waker};
use std::time::{Duration, Instant};

use crate::common::{hash64, machinery_failure};

#[derive(Clone, Debug, PartialEq, Eq)]
pub struct Step {
    pub actor: usize,
    pub name: String,
}

#[derive(Clone, Debug)]
pub struct Decision {
    /// enabled actors in canonical order (running actor first if enabled, then ascending ids)
    pub enabled: Vec<usize>,
    pub chosen: usize,
    pub running_enabled: bool,
}

#[derive(Clone, Debug)]
pub struct SpanEvent {
    pub actor: usize,
    pub name: String,
    pub begin: bool,
    pub label: String,
    pub at_step: usize,
}

#[derive(Clone, Copy, PartialEq, Eq, Debug)]
enum Status {
    NotStarted,
    Running,
    Parked,
    /// blocked in the kernel on a lock without a hook that a parked actor holds (opt-in, see `stalls`)
    Stalled,
    Finished,
    Panicked,
}

struct PredPtr(*const (dyn Fn() -> bool));
unsafe impl Send for PredPtr {}

struct ActorState {
    status: Status,
    at: String,
    pred: Option<PredPtr>,
    crashed: bool,
}

struct Inner {
    actors: Vec<ActorState>,
    token: Option<usize>,
    abort: bool,
    steps: Vec<Step>,
    spans: Vec<SpanEvent>,
    progress: u64,
}

pub struct Sched {
    inner: Mutex<Inner>,
    cv: Condvar,
    pub span_yields: bool,
    /// hook names that are scheduling points in this harness (None = all)
    filter: Option<Vec<&'static str>>,
    /// per actor: number of steps granted to *other* actors (readable from predicates)
    others_steps: Vec<std::sync::atomic::AtomicU64>,
    finished: std::sync::atomic::AtomicU64,
    finished_flags: Vec<AtomicBool>,
    /// actor threads that were retired in place (parked for good inside a system call) and must not be joined
    detached: Vec<AtomicBool>,
    /// record hooks outside the filter as "@name" marks in the step list (no scheduling point)
    marks: bool,
    /// opt-in ("@stalls" in the filter; only for harnesses whose actors never wait for anything but
    /// locks): an actor that sleeps in the kernel without reaching a hook is blocked on a lock the
    /// code under test takes without a hook; the controller then lets another actor run instead of
    /// giving up, and the stalled one parks at its next hook
    stalls: bool,
    tids: Vec<std::sync::atomic::AtomicI32>,
    pub stall_count: std::sync::atomic::AtomicU64,
    n: usize,
}

struct AbortUnwind;
/// Unwind payload of an actor that "dies" at a hook (crash injection): treated as a finished actor.
struct CrashUnwind;

thread_local! {
    /// (hooks still to pass before dying, flag raised at death)
    static CRASH: RefCell<Option<(usize, Arc<AtomicBool>)>> = const { RefCell::new(None) };
}

/// Called after a hook granted the token: dies here when the actor's crash point is reached, i.e.
/// immediately BEFORE the effect that follows the hook.
fn maybe_crash() {
    let die = CRASH.with(|c| {
        let mut c = c.borrow_mut();
        match c.as_mut() {
            Some((0, flag)) => {
                flag.store(true, Ordering::SeqCst);
                true
            }
            Some((k, _)) => {
                *k -= 1;
                false
            }
            None => false,
        }
    });
    if die {
        CRASH.with(|c| *c.borrow_mut() = None);
        std::panic::resume_unwind(Box::new(CrashUnwind));
    }
}

thread_local! {
    static CURRENT: RefCell<Option<(Arc<Sched>, usize)>> = const { RefCell::new(None) };
}

fn current() -> Option<(Arc<Sched>, usize)> {
    CURRENT.with(|c| c.borrow().clone())
}

impl Sched {
    fn new(n: usize, span_yields: bool, filter: Option<Vec<&'static str>>) -> Self {
        let marks = filter.as_ref().map(|f| f.contains(&"@marks")).unwrap_or(false);
        let stalls = filter.as_ref().map(|f| f.contains(&"@stalls")).unwrap_or(false);
        Self {
            marks,
            stalls,
            tids: (0..n).map(|_| std::sync::atomic::AtomicI32::new(0)).collect(),
            stall_count: std::sync::atomic::AtomicU64::new(0),
            detached: (0..n).map(|_| AtomicBool::new(false)).collect(),
            filter,
            others_steps: (0..n).map(|_| std::sync::atomic::AtomicU64::new(0)).collect(),
            finished: std::sync::atomic::AtomicU64::new(0),
            finished_flags: (0..n).map(|_| AtomicBool::new(false)).collect(),
            n,
            inner: Mutex::new(Inner {
                actors: (0..n)
                    .map(|_| ActorState { status: Status::NotStarted, at: String::new(), pred: None, crashed: false })
                    .collect(),
                token: None,
                abort: false,
                steps: Vec::new(),
                spans: Vec::new(),
                progress: 0,
            }),
            cv: Condvar::new(),
            span_yields,
        }
    }

    /// Called by an actor thread at a scheduling point. Parks until the controller grants the token.
    fn yield_at(&self, id: usize, name: &str, pred: Option<&(dyn Fn() -> bool)>) {
        let mut g = self.inner.lock().unwrap();
        if g.abort {
            drop(g);
            std::panic::resume_unwind(Box::new(AbortUnwind));
        }
        g.actors[id].status = Status::Parked;
        g.actors[id].at = name.to_string();
        // SAFETY: the pointer is only dereferenced by the controller while this thread is parked
        // inside this call (the referent outlives the call).
        g.actors[id].pred = pred.map(|p| PredPtr(unsafe { std::mem::transmute::<&(dyn Fn() -> bool), *const (dyn Fn() -> bool)>(p) }));
        if g.token == Some(id) {
            g.token = None;
        }
        self.cv.notify_all();
        loop {
            if g.abort {
                g.actors[id].pred = None;
                drop(g);
                std::panic::resume_unwind(Box::new(AbortUnwind));
            }
            if g.token == Some(id) && g.actors[id].status == Status::Running {
                g.actors[id].pred = None;
                return;
            }
            g = self.cv.wait(g).unwrap();
        }
    }

    /// What the thread epilogue does, for an actor that stops in place (crash injected inside a
    /// system call, or abort): the thread never runs again and is not joined.
    fn retire_in_place(&self, id: usize) -> ! {
        {
            let mut g = self.inner.lock().unwrap();
            g.actors[id].status = Status::Finished;
            g.actors[id].pred = None;
            if g.token == Some(id) {
                g.token = None;
            }
            g.progress += 1;
            self.detached[id].store(true, Ordering::SeqCst);
            self.finished.fetch_add(1, Ordering::SeqCst);
            self.finished_flags[id].store(true, Ordering::SeqCst);
            self.cv.notify_all();
        }
        loop {
            std::thread::park();
        }
    }

    /// `yield_at` for callers that must not unwind (the callback from the system-call shim runs
    /// on top of C frames): on abort the actor is retired in place instead.
    fn yield_at_nounwind(&self, id: usize, name: &str) {
        let mut g = self.inner.lock().unwrap();
        if g.abort {
            drop(g);
            self.retire_in_place(id);
        }
        g.actors[id].status = Status::Parked;
        g.actors[id].at = name.to_string();
        g.actors[id].pred = None;
        if g.token == Some(id) {
            g.token = None;
        }
        self.cv.notify_all();
        loop {
            if g.abort {
                drop(g);
                self.retire_in_place(id);
            }
            if g.token == Some(id) && g.actors[id].status == Status::Running {
                return;
            }
            g = self.cv.wait(g).unwrap();
        }
    }

    fn record_mark(&self, id: usize, name: &str) {
        let mut g = self.inner.lock().unwrap();
        g.steps.push(Step { actor: id, name: format!("@{name}") });
    }

    fn record_span(&self, id: usize, name: &str, begin: bool, label: &str) {
        let mut g = self.inner.lock().unwrap();
        let at_step = g.steps.len();
        g.spans.push(SpanEvent { actor: id, name: name.to_string(), begin, label: label.to_string(), at_step });
    }

    pub fn progress(&self) -> u64 {
        self.inner.lock().unwrap().progress
    }

    fn wants(&self, name: &str) -> bool {
        match &self.filter {
            None => true,
            Some(list) => list.iter().any(|p| {
                if let Some(prefix) = p.strip_suffix('*') {
                    name.starts_with(prefix)
                } else {
                    *p == name
                }
            }),
        }
    }
}

/// The process-wide hook handler: dispatches to the scheduler of the calling actor thread; calls
/// from any other thread (blocking pool, runtime workers) pass through untouched.
pub struct SchedHooks;

impl rip_kernel::verif::Hooks for SchedHooks {
    fn point(&self, name: &'static str) {
        if let Some((s, id)) = current() {
            if s.wants(name) {
                s.yield_at(id, name, None);
                maybe_crash();
            } else if s.marks {
                s.record_mark(id, name);
            }
        }
    }
    fn lock_point(&self, name: &'static str, is_free: &dyn Fn() -> bool) {
        if let Some((s, id)) = current() {
            // A lock point outside the harness's filter is not a choice point as long as the lock
            // is free (nobody can hold it: holders never park inside a section without wanted
            // points). If it is not free the actor must still park: it may never block in the kernel.
            if !s.wants(name) && is_free() {
                return;
            }
            s.yield_at(id, name, Some(is_free));
        }
    }
    fn span(&self, name: &'static str, begin: bool, label: &str) {
        if let Some((s, id)) = current() {
            s.record_span(id, name, begin, label);
            if s.span_yields {
                let n = format!("{name}.{}", if begin { "begin" } else { "end" });
                s.yield_at(id, &n, None);
            }
        }
    }
    fn pid(&self) -> Option<u32> {
        ENV.with(|e| e.borrow().as_ref().and_then(|e| e.pid()))
    }
    fn pid_alive(&self, pid: u32) -> Option<bool> {
        ENV.with(|e| e.borrow().as_ref().and_then(|e| e.pid_alive(pid)))
    }
    fn kill_errno(&self, pid: u32) -> Option<i32> {
        ENV.with(|e| e.borrow().as_ref().and_then(|e| e.kill_errno(pid)))
    }
    fn ping(&self, endpoint: &str) -> Option<bool> {
        ENV.with(|e| e.borrow().as_ref().and_then(|e| e.ping(endpoint)))
    }
    fn fail(&self, name: &'static str) -> bool {
        ENV.with(|e| e.borrow().as_ref().map(|e| e.fail(name)).unwrap_or(false))
    }
    fn spawn(&self, name: &'static str, fut: rip_kernel::verif::SpawnedFuture) -> Option<rip_kernel::verif::SpawnedFuture> {
        ENV.with(|e| match e.borrow().as_ref() {
            Some(env) => env.spawn(name, fut),
            None => Some(fut),
        })
    }
    fn clock_offset(&self) -> Option<Duration> {
        ENV.with(|e| e.borrow().as_ref().and_then(|e| e.clock_offset()))
    }
    fn retry_sleep(&self, name: &'static str) -> bool {
        // the actor's own clock advances by one retry interval, then the others may run
        let has_clock = ENV.with(|e| e.borrow().as_ref().map(|e| e.on_sleep()).unwrap_or(false));
        if let Some((s, id)) = current() {
            s.yield_at(id, name, None);
            return true;
        }
        has_clock
    }
}

/// Environment seams an actor can install for itself (C18).
pub trait ActorEnv {
    fn pid(&self) -> Option<u32> {
        None
    }
    fn pid_alive(&self, _pid: u32) -> Option<bool> {
        None
    }
    fn kill_errno(&self, _pid: u32) -> Option<i32> {
        None
    }
    fn ping(&self, _endpoint: &str) -> Option<bool> {
        None
    }
    /// Monotonic clock of this actor (offset from a fixed base); `None` = the real clock.
    fn clock_offset(&self) -> Option<Duration> {
        None
    }
    /// A retry sleep of the code under test: advance the actor's clock. True = the env owns time
    /// (the real sleep is skipped also outside the scheduler).
    fn on_sleep(&self) -> bool {
        false
    }
    /// Fault injection (environment answer "error") for the operation behind `name`.
    fn fail(&self, _name: &str) -> bool {
        false
    }
    /// Spawn seam: keep the task (to run it as an actor of its own) and return `None`.
    fn spawn(&self, _name: &str, fut: rip_kernel::verif::SpawnedFuture) -> Option<rip_kernel::verif::SpawnedFuture> {
        Some(fut)
    }
}

thread_local! {
    static ENV: RefCell<Option<Box<dyn ActorEnv>>> = const { RefCell::new(None) };
}

/// Engine S over system calls: asks the preloaded shim (harness/shim/crashshim.c) to call back
/// before every file-system call on a path under $RIPV_PREFIX. Returns false when the shim is
/// not loaded in this process.
pub fn install_fs_callback() -> bool {
    unsafe {
        let sym = libc::dlsym(libc::RTLD_DEFAULT, c"ripv_set_fs_callback".as_ptr());
        if sym.is_null() {
            return false;
        }
        let set: extern "C" fn(extern "C" fn(*const std::os::raw::c_char, *const std::os::raw::c_char)) = std::mem::transmute(sym);
        set(fs_callback);
        true
    }
}

/// File names with run-specific parts (uuids, pids, timestamps) normalised, so that the same
/// schedule has the same step names in every execution.
fn normalise_file_name(path: &str) -> String {
    let base = path.rsplit('/').next().unwrap_or(path);
    let mut out = String::new();
    let mut run = String::new();
    let flush = |run: &mut String, out: &mut String| {
        if !run.is_empty() {
            // hex / digit runs of 4+ characters are ids, pids or times
            if run.len() >= 4 && run.chars().all(|c| c.is_ascii_hexdigit() || c == '-') {
                out.push('#');
            } else {
                out.push_str(run);
            }
            run.clear();
        }
    };
    for c in base.chars() {
        if c.is_ascii_hexdigit() || (c == '-' && !run.is_empty()) {
            run.push(c);
        } else {
            flush(&mut run, &mut out);
            out.push(c);
        }
    }
    flush(&mut run, &mut out);
    out
}

extern "C" fn fs_callback(op: *const std::os::raw::c_char, path: *const std::os::raw::c_char) {
    let Some((s, id)) = current() else {
        return;
    };
    if !s.wants("fs.") {
        return;
    }
    let (op, path) = unsafe { (std::ffi::CStr::from_ptr(op).to_string_lossy(), std::ffi::CStr::from_ptr(path).to_string_lossy()) };
    let name = format!("fs.{op}:{}", normalise_file_name(&path));
    s.yield_at_nounwind(id, &name);
    // crash injection at system-call granularity: die BEFORE the call is performed
    let die = CRASH.with(|c| {
        let mut c = c.borrow_mut();
        match c.as_mut() {
            Some((0, flag)) => {
                flag.store(true, Ordering::SeqCst);
                true
            }
            Some((k, _)) => {
                *k -= 1;
                false
            }
            None => false,
        }
    });
    if die {
        CRASH.with(|c| *c.borrow_mut() = None);
        s.retire_in_place(id);
    }
}

/// Installs environment seams for a thread that is not an actor (post-execution checks on the
/// controller thread). `None` removes them.
pub fn set_thread_env(env: Option<Box<dyn ActorEnv>>) {
    ENV.with(|e| *e.borrow_mut() = env);
}

pub fn install_hooks() {
    rip_kernel::verif::install(Arc::new(SchedHooks));
}

/// Handle given to each actor body.
pub struct ActorCtx {
    sched: Arc<Sched>,
    pub id: usize,
}

struct FlagWaker {
    flag: AtomicBool,
    thread: std::thread::Thread,
}

impl Wake for FlagWaker {
    fn wake(self: Arc<Self>) {
        self.flag.store(true, Ordering::SeqCst);
        self.thread.unpark();
    }
}

impl ActorCtx {
    /// Explicit scheduling point.
    pub fn yield_now(&self, name: &str) {
        self.sched.yield_at(self.id, name, None);
    }

    /// Scheduling point that is enabled only while `pred` holds (evaluated by the controller).
    pub fn yield_until(&self, name: &str, pred: &(dyn Fn() -> bool)) {
        self.sched.yield_at(self.id, name, Some(pred));
    }

    pub fn set_env(&self, env: Box<dyn ActorEnv>) {
        ENV.with(|e| *e.borrow_mut() = Some(env));
    }

    /// Crash injection: this actor dies (unwinds without running the code after the hook) when it
    /// is granted its (k+1)-th `point` hook from now on; `dead` is raised at that moment.
    pub fn crash_at_hook(&self, k: usize, dead: Arc<AtomicBool>) {
        CRASH.with(|c| *c.borrow_mut() = Some((k, dead)));
    }

    /// Number of steps granted so far in this execution (a total order on harness-level events).
    pub fn step_index(&self) -> usize {
        self.sched.inner.lock().unwrap().steps.len()
    }

    /// True when some other unfinished actor is currently parked at hook `name`.
    pub fn other_parked_at(&self, name: &str) -> bool {
        let g = self.sched.inner.lock().unwrap();
        g.actors.iter().enumerate().any(|(i, a)| i != self.id && a.status == Status::Parked && a.at == name)
    }

    pub fn progress(&self) -> u64 {
        self.sched.progress()
    }

    /// Steps granted to other actors so far (atomic; usable inside `yield_until` predicates).
    pub fn others_steps(&self) -> u64 {
        self.sched.others_steps[self.id].load(Ordering::SeqCst)
    }

    /// Parks until some other actor has taken a step since `seen`, or every other actor finished.
    pub fn wait_for_others(&self, name: &str, seen: u64) {
        let s = self.sched.clone();
        let id = self.id;
        let pred = move || {
            s.others_steps[id].load(Ordering::SeqCst) > seen
                || s.finished.load(Ordering::SeqCst) as usize >= s.n - 1
        };
        self.sched.yield_at(self.id, name, Some(&pred));
    }

    /// Parks until every actor in `ids` has finished.
    pub fn wait_finished(&self, name: &str, ids: &[usize]) {
        let s = self.sched.clone();
        let ids: Vec<usize> = ids.to_vec();
        let pred = move || ids.iter().all(|&i| s.finished_flags[i].load(Ordering::SeqCst));
        self.sched.yield_at(self.id, name, Some(&pred));
    }

    pub fn others_finished(&self) -> bool {
        self.sched.finished.load(Ordering::SeqCst) as usize >= self.sched.n - 1
    }

    /// Drives a future to completion on this actor's thread. A `Pending` poll can only mean
    /// external work (blocking pool, child process, timer): the actor waits for its waker in
    /// place, keeping the token.
    pub fn block_on<F: Future>(&self, fut: F) -> F::Output {
        let mut fut = Box::pin(fut);
        let w = Arc::new(FlagWaker { flag: AtomicBool::new(true), thread: std::thread::current() });
        let waker = Waker::from(w.clone());
        let mut cx = Context::from_waker(&waker);
        let started = Instant::now();
        loop {
            if w.flag.swap(false, Ordering::SeqCst) {
                if let Poll::Ready(v) = fut.as_mut().poll(&mut cx) {
                    return v;
                }
            } else {
                std::thread::park_timeout(Duration::from_millis(50));
                if started.elapsed() > Duration::from_secs(30) {
                    let at = self.sched.inner.lock().unwrap().steps.last().cloned();
                    machinery_failure(&format!(
                        "actor {} pending for 30 s with no wake-up (unmodelled blocking); last step {:?}",
                        self.id, at
                    ));
                }
            }
        }
    }

    /// Polls once with a waker that only records the wake-up.
    pub fn poll_once<F: Future + ?Sized>(&self, fut: Pin<&mut F>) -> Poll<F::Output> {
        let w = Arc::new(FlagWaker { flag: AtomicBool::new(false), thread: std::thread::current() });
        let waker = Waker::from(w);
        let mut cx = Context::from_waker(&waker);
        fut.poll(&mut cx)
    }
}

pub type ActorBody = Box<dyn FnOnce(&ActorCtx) + Send + 'static>;

#[derive(Debug, Clone)]
pub struct Exec {
    pub steps: Vec<Step>,
    pub decisions: Vec<Decision>,
    pub spans: Vec<SpanEvent>,
    pub deadlock: bool,
    pub panicked: Vec<usize>,
    pub preemptions: usize,
    /// times an actor was found blocked on a lock without a hook (opt-in stall handling)
    pub stalls: u64,
}

impl Exec {
    pub fn choices(&self) -> Vec<usize> {
        self.decisions.iter().map(|d| d.chosen).collect()
    }
    pub fn trace_hash(&self) -> u64 {
        hash64(&self.steps.iter().map(|s| (s.actor, s.name.clone())).collect::<Vec<_>>())
    }
    pub fn schedule_string(&self) -> Vec<String> {
        self.steps.iter().map(|s| format!("{}:{}", s.actor, s.name)).collect()
    }
}

const MAX_STEPS: usize = 20_000;

/// Runs the actors once under the given choice prefix (then always choice 0 = do not preempt).
pub fn run_once(actors: Vec<ActorBody>, prefix: &[usize], span_yields: bool, filter: Option<Vec<&'static str>>) -> Exec {
    let n = actors.len();
    let sched = Arc::new(Sched::new(n, span_yields, filter));
    let mut handles = Vec::new();
    for (id, body) in actors.into_iter().enumerate() {
        let s = sched.clone();
        let h = std::thread::Builder::new()
            .name(format!("actor-{id}"))
            .spawn(move || {
                CURRENT.with(|c| *c.borrow_mut() = Some((s.clone(), id)));
                s.tids[id].store(unsafe { libc::gettid() }, Ordering::SeqCst);
                let ctx = ActorCtx { sched: s.clone(), id };
                let res = catch_unwind(AssertUnwindSafe(|| {
                    s.yield_at(id, "start", None);
                    body(&ctx);
                }));
                ENV.with(|e| *e.borrow_mut() = None);
                CRASH.with(|c| *c.borrow_mut() = None);
                CURRENT.with(|c| *c.borrow_mut() = None);
                let mut g = s.inner.lock().unwrap();
                let aborted = matches!(&res, Err(p) if p.is::<AbortUnwind>() || p.is::<CrashUnwind>());
                g.actors[id].status = if res.is_ok() || aborted { Status::Finished } else { Status::Panicked };
                g.actors[id].pred = None;
                if g.token == Some(id) {
                    g.token = None;
                }
                g.progress += 1;
                s.finished.fetch_add(1, Ordering::SeqCst);
                s.finished_flags[id].store(true, Ordering::SeqCst);
                s.cv.notify_all();
            })
            .expect("spawn actor");
        handles.push(h);
    }

    let mut decisions: Vec<Decision> = Vec::new();
    let mut running: Option<usize> = None;
    let mut deadlock = false;
    let mut preemptions = 0usize;
    {
        let mut g = sched.inner.lock().unwrap();
        loop {
            // wait until nobody is running
            let deadline = Instant::now() + Duration::from_secs(60);
            let mut sleeping_samples = 0u32;
            while g.token.is_some() || g.actors.iter().any(|a| a.status == Status::NotStarted || a.status == Status::Running) {
                let (ng, to) = sched.cv.wait_timeout(g, Duration::from_millis(if sched.stalls { 40 } else { 200 })).unwrap();
                g = ng;
                if to.timed_out() && sched.stalls {
                    // the token holder sleeps in the kernel and others are parked: it waits for a lock one of them holds
                    if let Some(r) = g.token {
                        let state = std::fs::read_to_string(format!("/proc/self/task/{}/stat", sched.tids[r].load(Ordering::SeqCst)))
                            .ok()
                            .and_then(|t| t.rsplit(')').next().map(|x| x.trim().chars().next().unwrap_or('?')))
                            .unwrap_or('?');
                        if state == 'S' && g.actors[r].status == Status::Running && g.actors.iter().any(|a| a.status == Status::Parked) {
                            sleeping_samples += 1;
                        } else {
                            sleeping_samples = 0;
                        }
                        if sleeping_samples >= 5 {
                            g.actors[r].status = Status::Stalled;
                            g.actors[r].at = format!("(blocked after {})", g.actors[r].at);
                            g.token = None;
                            sched.stall_count.fetch_add(1, Ordering::SeqCst);
                            sleeping_samples = 0;
                            continue;
                        }
                    }
                }
                if to.timed_out() && Instant::now() > deadline {
                    let at: Vec<(Status, String)> = g.actors.iter().map(|a| (a.status, a.at.clone())).collect();
                    machinery_failure(&format!("scheduler: an actor ran for 60 s without reaching a hook: {at:?}"));
                }
            }
            let mut unfinished: Vec<usize> = (0..n).filter(|&i| g.actors[i].status == Status::Parked).collect();
            if unfinished.is_empty() && g.actors.iter().any(|a| a.status == Status::Stalled) {
                // whatever a stalled actor waited for is free now: it must reach a hook or finish
                let until = Instant::now() + Duration::from_secs(5);
                while g.actors.iter().any(|a| a.status == Status::Stalled) && Instant::now() < until {
                    let (ng, _) = sched.cv.wait_timeout(g, Duration::from_millis(50)).unwrap();
                    g = ng;
                }
                if g.actors.iter().any(|a| a.status == Status::Stalled) {
                    deadlock = true;
                    for (i, a) in g.actors.iter().enumerate() {
                        if a.status == Status::Stalled {
                            sched.detached[i].store(true, Ordering::SeqCst);
                        }
                    }
                    g.abort = true;
                    sched.cv.notify_all();
                    break;
                }
                continue;
            }
            if unfinished.is_empty() {
                break;
            }
            unfinished.sort();
            let mut enabled: Vec<usize> = Vec::new();
            for &i in &unfinished {
                let ok = match &g.actors[i].pred {
                    None => true,
                    // SAFETY: actor i is parked inside yield_at, the closure it passed is alive.
                    Some(p) => unsafe { (*p.0)() },
                };
                if ok {
                    enabled.push(i);
                }
            }
            if enabled.is_empty() {
                deadlock = true;
                g.abort = true;
                sched.cv.notify_all();
                break;
            }
            let running_enabled = running.map(|r| enabled.contains(&r)).unwrap_or(false);
            if running_enabled {
                let r = running.unwrap();
                enabled.retain(|&i| i != r);
                enabled.insert(0, r);
            }
            let step_no = decisions.len();
            let chosen = if enabled.len() == 1 {
                0
            } else {
                prefix.get(decisions.iter().filter(|d| d.enabled.len() > 1).count()).copied().unwrap_or(0)
            };
            if chosen >= enabled.len() {
                machinery_failure(&format!(
                    "replay divergence: choice {chosen} out of range at decision {step_no} (enabled {:?})",
                    enabled
                ));
            }
            if chosen > 0 && running_enabled {
                preemptions += 1;
            }
            let actor = enabled[chosen];
            decisions.push(Decision { enabled: enabled.clone(), chosen, running_enabled });
            let name = g.actors[actor].at.clone();
            g.steps.push(Step { actor, name });
            g.progress += 1;
            if g.steps.len() > MAX_STEPS {
                machinery_failure("scheduler: step horizon exceeded (unbounded loop without a yield?)");
            }
            for (i, c) in sched.others_steps.iter().enumerate() {
                if i != actor {
                    c.fetch_add(1, Ordering::SeqCst);
                }
            }
            g.actors[actor].status = Status::Running;
            g.token = Some(actor);
            running = Some(actor);
            sched.cv.notify_all();
        }
    }
    for (i, h) in handles.into_iter().enumerate() {
        if !sched.detached[i].load(Ordering::SeqCst) {
            let _ = h.join();
        }
    }
    let g = sched.inner.lock().unwrap();
    let panicked = (0..n).filter(|&i| g.actors[i].status == Status::Panicked).collect();
    let _ = g.actors.iter().map(|a| a.crashed).count();
    Exec {
        steps: g.steps.clone(),
        decisions,
        spans: g.spans.clone(),
        deadlock,
        panicked,
        preemptions,
        stalls: sched.stall_count.load(Ordering::SeqCst),
    }
}

#[derive(Default, Debug, Clone)]
pub struct ExploreStats {
    pub executions: u64,
    pub steps: u64,
    pub max_decisions: usize,
    pub by_preemptions: Vec<u64>,
    pub distinct_traces: std::collections::HashSet<u64>,
    pub capped: bool,
}

/// Depth-first exploration of all schedules with at most `bound` preemptions (`usize::MAX` =
/// unbounded). Only decisions with more than one enabled actor are choice points. `make` builds
/// a fresh world + actors for every execution; `check` judges the finished execution.
pub fn explore<W>(
    bound: usize,
    max_executions: u64,
    span_yields: bool,
    filter: Option<Vec<&'static str>>,
    over_cap: &dyn Fn() -> bool,
    make: &dyn Fn() -> (W, Vec<ActorBody>),
    check: &mut dyn FnMut(&W, &Exec),
) -> ExploreStats {
    let mut stats = ExploreStats::default();
    let mut stack: Vec<Vec<usize>> = vec![vec![]];
    while let Some(prefix) = stack.pop() {
        if stats.executions >= max_executions || over_cap() {
            stats.capped = true;
            break;
        }
        let (world, actors) = make();
        let exec = run_once(actors, &prefix, span_yields, filter.clone());
        stats.executions += 1;
        stats.steps += exec.steps.len() as u64;
        stats.distinct_traces.insert(exec.trace_hash());
        if stats.by_preemptions.len() <= exec.preemptions {
            stats.by_preemptions.resize(exec.preemptions + 1, 0);
        }
        stats.by_preemptions[exec.preemptions] += 1;
        // choice points = decisions with >1 enabled
        let cps: Vec<&Decision> = exec.decisions.iter().filter(|d| d.enabled.len() > 1).collect();
        stats.max_decisions = stats.max_decisions.max(cps.len());
        check(&world, &exec);
        drop(world);
        // preemptions used before each choice point
        let mut used = 0usize;
        let mut used_before = Vec::with_capacity(cps.len());
        for d in &cps {
            used_before.push(used);
            if d.chosen > 0 && d.running_enabled {
                used += 1;
            }
        }
        for i in (prefix.len()..cps.len()).rev() {
            let d = cps[i];
            for alt in 1..d.enabled.len() {
                let cost = used_before[i] + if d.running_enabled { 1 } else { 0 };
                if cost > bound {
                    continue;
                }
                let mut p: Vec<usize> = cps[..i].iter().map(|d| d.chosen).collect();
                p.push(alt);
                stack.push(p);
            }
        }
    }
    stats
}
