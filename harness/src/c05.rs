//! C05 — a crash at any write boundary leaves a store that restarts gap-free.
//!
//! Engine K: every history of the op alphabet (depth <= d) is executed by a worker subprocess under
//! an LD_PRELOAD shim that counts mutating file-system calls on store paths and kills the process
//! (`_exit`) immediately before call number k — once for EVERY k of the history. The parent then
//! runs the recovery oracle on the directory the dead process left behind.

use std::collections::{BTreeMap, BTreeSet, HashMap};
use std::path::{Path, PathBuf};
use std::process::{Command, Stdio};
use std::sync::Arc;

use rayon::prelude::*;
use rip_kernel::{EventKind, StreamKind};
use rip_log::EventLog;
use ripd::{CompactionAutoV1Request, CompactionCheckpointCumulativeV1Request, ContinuityStore, ProviderCursorRotateV1Request};
use serde_json::{json, Value};

use crate::common::{machinery_failure, scratch_dir, Opts, Report, Tier, VERIF_DIR};

const OPS: [&str; 11] = [
    "msg",        // tiny message
    "msg9k",      // 9 KiB message (> the 8 KiB BufWriter: body and newline are separate writes)
    "run",        // message + run_spawned + stub session (frames + snapshot) + run_ended
    "side",       // tool side effects frame for the last message
    "ckpt",       // manual cumulative checkpoint (summary artifact, then frame)
    "auto",       // auto compaction stride 1 (job frames + artifacts + checkpoint frames)
    "branch",     // branch (new thread: created + branched, index.json)
    "handoff",    // handoff with markdown (artifact, new thread)
    "cursor",     // cursor set
    "rotate",     // cursor rotate (read-then-append)
    "sel",        // selection decided + compiled pair
];

// ---------------------------------------------------------------------------------------------
// Worker (runs under the shim)

fn ack(file: &Path, v: Value) {
    use std::io::Write;
    let mut f = std::fs::OpenOptions::new().create(true).append(true).open(file).expect("ack file");
    let _ = writeln!(f, "{v}");
}

/// `<op>+sess`: after the op's first frame is in the log and BEFORE the first cache effect of that
/// frame (the creation of the family's `.dirty` marker), ANOTHER run logs its session frames
/// (started / output / ended + snapshot) - what a concurrent run of the same authority does.
/// The moment is found through the shim's callback (called before every file-system call on a
/// store path); every file-system call of both runs stays a crash point.
static INJECT_ARMED: std::sync::atomic::AtomicBool = std::sync::atomic::AtomicBool::new(false);
static INJECT_CTX: std::sync::OnceLock<(Arc<ripd::SessionEngine>, Arc<tokio::runtime::Runtime>)> = std::sync::OnceLock::new();

/// `<op>+msgpark` (for ops that create a NEW thread without the seq lock: branch, handoff): when the
/// op is about to create the new thread's `.dirty` marker, a second OS thread appends a message
/// to the MAIN thread (takes the seq lock, logs the frame, creates that family's marker) and then
/// stops in the middle of its cache update for 300 ms - so for every following file-system call of
/// the op two cache families are mid-update at once, which is what a crash then finds.
static PARK_ARMED: std::sync::atomic::AtomicBool = std::sync::atomic::AtomicBool::new(false);
static PARK_MAIN_THREAD: std::sync::OnceLock<String> = std::sync::OnceLock::new();
static PARKED: std::sync::atomic::AtomicBool = std::sync::atomic::AtomicBool::new(false);
thread_local! {
    /// on the injected thread: number of its file-system calls seen since its own marker was created
    static INJECTED_AFTER_MARKER: std::cell::Cell<Option<u32>> = const { std::cell::Cell::new(None) };
    static IS_INJECTED: std::cell::Cell<bool> = const { std::cell::Cell::new(false) };
}

fn park_callback(p: &str) {
    if IS_INJECTED.with(|c| c.get()) {
        // the injected appender: let it create its marker, stop before its next effect
        let after = INJECTED_AFTER_MARKER.with(|c| c.get());
        if after.is_none() && p.ends_with(".dirty") {
            INJECTED_AFTER_MARKER.with(|c| c.set(Some(0)));
        } else if after == Some(0) {
            INJECTED_AFTER_MARKER.with(|c| c.set(Some(1)));
            PARKED.store(true, std::sync::atomic::Ordering::SeqCst);
            std::thread::sleep(std::time::Duration::from_millis(300));
        }
        return;
    }
    let main = PARK_MAIN_THREAD.get().map(|s| s.as_str()).unwrap_or("");
    if !p.ends_with(".dirty") || p.contains(main) || !PARK_ARMED.swap(false, std::sync::atomic::Ordering::SeqCst) {
        return;
    }
    if let Some((engine, _rt)) = INJECT_CTX.get() {
        let store = engine.continuities();
        let main = main.to_string();
        std::thread::spawn(move || {
            IS_INJECTED.with(|c| c.set(true));
            let _ = store.append_message(&main, "u".into(), "o".into(), "concurrent append".into());
        });
        // wait until the appender stands in the middle of its cache update (or 3 s)
        let t0 = std::time::Instant::now();
        while !PARKED.load(std::sync::atomic::Ordering::SeqCst) && t0.elapsed() < std::time::Duration::from_secs(3) {
            std::thread::sleep(std::time::Duration::from_millis(1));
        }
    }
}

extern "C" fn inject_callback(_op: *const std::os::raw::c_char, path: *const std::os::raw::c_char) {
    if path.is_null() {
        return;
    }
    if PARK_ARMED.load(std::sync::atomic::Ordering::SeqCst) || IS_INJECTED.with(|c| c.get()) {
        let p = unsafe { std::ffi::CStr::from_ptr(path) }.to_string_lossy();
        park_callback(&p);
        return;
    }
    if !INJECT_ARMED.load(std::sync::atomic::Ordering::SeqCst) {
        return;
    }
    let p = unsafe { std::ffi::CStr::from_ptr(path) }.to_string_lossy();
    if !p.ends_with(".dirty") || !INJECT_ARMED.swap(false, std::sync::atomic::Ordering::SeqCst) {
        return;
    }
    if let Some((engine, rt)) = INJECT_CTX.get() {
        let engine = engine.clone();
        let rt = rt.clone();
        let t = std::thread::spawn(move || {
            let handle = engine.create_session();
            rt.block_on(engine.verif_session_future(handle, "concurrent run".into(), None, None));
        });
        let _ = t.join();
    }
}

fn install_inject_callback() {
    unsafe {
        let sym = libc::dlsym(libc::RTLD_DEFAULT, c"ripv_set_fs_callback".as_ptr());
        if sym.is_null() {
            machinery_failure("c05 worker: the shim is not loaded (ripv_set_fs_callback not found)");
        }
        let set: extern "C" fn(extern "C" fn(*const std::os::raw::c_char, *const std::os::raw::c_char)) = std::mem::transmute(sym);
        set(inject_callback);
    }
}

pub fn worker(args: &[String]) -> i32 {
    let get = |k: &str| args.iter().find_map(|a| a.strip_prefix(&format!("{k}=")).map(|s| s.to_string()));
    let dir = PathBuf::from(get("dir").expect("dir"));
    let ack_file = PathBuf::from(get("ack").expect("ack"));
    let ops: Vec<String> = get("ops").unwrap_or_default().split(',').filter(|s| !s.is_empty()).map(|s| s.to_string()).collect();
    let data = dir.join("data");
    let root = dir.join("ws");
    std::fs::create_dir_all(&root).expect("root");
    let rt = crate::fixture::new_rt();
    let mut engine = {
        let _g = rt.enter();
        Arc::new(ripd::SessionEngine::new(data.clone(), root.clone(), None).expect("engine"))
    };
    let mut store = engine.continuities();
    if ops.iter().any(|o| o.ends_with("+sess") || o.ends_with("+msgpark")) {
        let _ = INJECT_CTX.set((engine.clone(), rt.clone()));
        install_inject_callback();
    }
    let thread = match store.ensure_default() {
        Ok(t) => t,
        Err(e) => {
            ack(&ack_file, json!({"i": -1, "ok": false, "err": e}));
            return 0;
        }
    };
    ack(&ack_file, json!({"i": -1, "ok": true, "thread": thread}));
    let mut last_msg: Option<String> = None;
    let mut last_sess = "sess-none".to_string();
    for (i, op) in ops.iter().enumerate() {
        let mut ids: Vec<String> = Vec::new();
        let mut tokens: Vec<String> = Vec::new();
        if op == "reopen" {
            // an orderly restart: the next append on a thread is the first of a process lifetime
            drop(store);
            drop(engine);
            engine = {
                let _g = rt.enter();
                Arc::new(ripd::SessionEngine::new(data.clone(), root.clone(), None).expect("engine"))
            };
            store = engine.continuities();
            ack(&ack_file, json!({"i": i, "ok": true, "ids": [], "tokens": []}));
            continue;
        }
        let op = match (op.strip_suffix("+sess"), op.strip_suffix("+msgpark")) {
            (Some(base), _) => {
                INJECT_ARMED.store(true, std::sync::atomic::Ordering::SeqCst);
                base.to_string()
            }
            (_, Some(base)) => {
                let _ = PARK_MAIN_THREAD.set(thread.clone());
                PARKED.store(false, std::sync::atomic::Ordering::SeqCst);
                PARK_ARMED.store(true, std::sync::atomic::Ordering::SeqCst);
                base.to_string()
            }
            _ => op.clone(),
        };
        let res: Result<(), String> = (|| {
            match op.as_str() {
                "msg" => {
                    let id = store.append_message(&thread, "u".into(), "o".into(), format!("m{i}"))?;
                    ids.push(id.clone());
                    last_msg = Some(id);
                }
                "msg70k" => {
                    // a frame longer than the first window of every backward tail scan (64 KiB)
                    let id = store.append_message(&thread, "u".into(), "o".into(), "y".repeat(70 * 1024))?;
                    ids.push(id.clone());
                    last_msg = Some(id);
                }
                "msg9k" => {
                    let id = store.append_message(&thread, "u".into(), "o".into(), "x".repeat(9 * 1024))?;
                    ids.push(id.clone());
                    last_msg = Some(id);
                }
                "run" => {
                    let id = store.append_message(&thread, "u".into(), "o".into(), format!("r{i}"))?;
                    let handle = engine.create_session();
                    let sid = handle.session_id.clone();
                    let rs = store.append_run_spawned(&thread, &id, &sid, "u".into(), "o".into())?;
                    let link = ripd::ContinuityRunLink { continuity_id: thread.clone(), message_id: id.clone(), actor_id: "u".into(), origin: "o".into() };
                    rt.block_on(engine.verif_session_future(handle, format!("r{i}"), Some(link), None));
                    ids.push(id.clone());
                    ids.push(rs);
                    tokens.push(sid.clone());
                    last_msg = Some(id);
                    last_sess = sid;
                }
                "side" => {
                    let Some(m) = last_msg.clone() else { return Err("n/a".into()) };
                    let link = ripd::ContinuityRunLink { continuity_id: thread.clone(), message_id: m, actor_id: "u".into(), origin: "o".into() };
                    let id = store.append_tool_side_effects(&link, &last_sess, ripd::ToolSideEffects { tool_id: format!("t{i}"), tool_name: "write".into(), affected_paths: Some(vec!["a".into()]), checkpoint_id: None })?;
                    ids.push(id);
                }
                "ckpt" => {
                    let Some(m) = last_msg.clone() else { return Err("n/a".into()) };
                    let r = store.compaction_checkpoint_cumulative_v1(
                        &thread,
                        CompactionCheckpointCumulativeV1Request { summary_markdown: Some(format!("sum{i}")), summary_artifact_id: None, to_message_id: Some(m), to_seq: None, stride_messages: None, actor_id: "u".into(), origin: "o".into() },
                    )?;
                    tokens.push(r.0);
                    tokens.push(r.1);
                }
                "auto" => {
                    let r = store.compaction_auto_v1(&thread, CompactionAutoV1Request { stride_messages: Some(1), max_new_checkpoints: Some(2), dry_run: Some(false), actor_id: "u".into(), origin: "o".into() })?;
                    if let Some(j) = r.job_id {
                        tokens.push(j);
                    }
                    for c in r.result {
                        tokens.push(c.checkpoint_id);
                        tokens.push(c.summary_artifact_id);
                    }
                }
                "branch" => {
                    let (t, _, _) = store.branch(&thread, Some("b".into()), None, None, "u".into(), "o".into())?;
                    tokens.push(t);
                }
                "handoff" => {
                    let (t, _, _) = store.handoff(&thread, None, (Some(format!("handoff {i}")), None), None, None, ("u".into(), "o".into()))?;
                    tokens.push(t);
                }
                "cursor" => {
                    let id = store.verif_append_provider_cursor_updated(&thread, "openresponses", Some("http://e".into()), Some("m".into()), Some(json!({"previous_response_id": format!("r{i}")})), "set", None)?;
                    ids.push(id);
                }
                "rotate" => {
                    let r = store.provider_cursor_rotate_v1(&thread, ProviderCursorRotateV1Request { provider: None, endpoint: None, model: None, reason: None, actor_id: "u".into(), origin: "o".into() })?;
                    if let Some(id) = r.cursor_event_id {
                        ids.push(id);
                    }
                }
                "sel" => {
                    let Some(m) = last_msg.clone() else { return Err("n/a".into()) };
                    let a = store.verif_append_context_selection_decided(&thread, &last_sess, &m, "recent_messages_v1", vec![], None)?;
                    let b = store.verif_append_context_compiled(&thread, &last_sess, "0".repeat(64).as_str(), "recent_messages_v1", 1, Some(m))?;
                    ids.push(a);
                    ids.push(b);
                }
                "wipe" => {
                    // the cache directory is lost under the running authority
                    let _ = std::fs::remove_dir_all(data.join("continuity_streams"));
                }
                "replay" => {
                    // a read that rebuilds whatever cache it cannot use
                    store.replay_events(&thread).map_err(|e| e.to_string())?;
                }
                other => return Err(format!("unknown op {other}")),
            }
            Ok(())
        })();
        if PARK_ARMED.swap(false, std::sync::atomic::Ordering::SeqCst) && res.is_ok() {
            ack(&ack_file, json!({"i": i, "ok": false, "err": "park injection point not reached"}));
            eprintln!("c05 worker: injection point not reached in {op}+msgpark");
            return 3;
        }
        if INJECT_ARMED.swap(false, std::sync::atomic::Ordering::SeqCst) && res.is_ok() {
            // the op never reached a cache effect: the history does not exercise what it claims to
            ack(&ack_file, json!({"i": i, "ok": false, "err": "injection point not reached"}));
            eprintln!("c05 worker: injection point not reached in {op}+sess");
            return 3;
        }
        ack(&ack_file, json!({"i": i, "ok": res.is_ok(), "err": res.err(), "ids": ids, "tokens": tokens}));
    }
    if PARKED.load(std::sync::atomic::Ordering::SeqCst) {
        // the no-crash pass: let the concurrent appender finish its (counted) calls
        std::thread::sleep(std::time::Duration::from_millis(500));
    }
    0
}

// ---------------------------------------------------------------------------------------------
// Parent: crash enumeration + recovery oracle

struct RunResult {
    exit: Option<i32>,
    acks: Vec<Value>,
}

fn run_worker(dir: &Path, ops: &[&str], crash_at: Option<u64>, trace: Option<&Path>) -> RunResult {
    run_worker_faulty(dir, ops, crash_at, None, trace)
}

/// `fail_at`: mutating call number k (a write) FAILS with ENOSPC instead of being performed; the
/// worker lives on and runs the history to its end.
fn run_worker_faulty(dir: &Path, ops: &[&str], crash_at: Option<u64>, fail_at: Option<u64>, trace: Option<&Path>) -> RunResult {
    let exe = std::env::current_exe().expect("exe");
    let ack = dir.join("ack.jsonl");
    let store_dir = dir.join("store");
    std::fs::create_dir_all(&store_dir).expect("store dir");
    let shim = Path::new(VERIF_DIR).join("target").join("crashshim.so");
    if !shim.exists() {
        machinery_failure("crash shim /verif/target/crashshim.so missing (run ./vcheck or tools/setup.sh)");
    }
    let mut cmd = Command::new(exe);
    cmd.arg("c05-worker")
        .arg(format!("dir={}", store_dir.display()))
        .arg(format!("ack={}", ack.display()))
        .arg(format!("ops={}", ops.join(",")))
        .env("LD_PRELOAD", &shim)
        .env("RIPV_PREFIX", store_dir.to_string_lossy().to_string())
        .stdin(Stdio::null())
        .stdout(Stdio::null())
        .stderr(Stdio::piped());
    if let Some(k) = crash_at {
        cmd.env("RIPV_CRASH_AT", k.to_string());
    } else {
        cmd.env_remove("RIPV_CRASH_AT");
    }
    if let Some(t) = trace {
        cmd.env("RIPV_TRACE", t);
    }
    if let Some(k) = fail_at {
        cmd.env("RIPV_FAIL_AT", k.to_string());
    } else {
        cmd.env_remove("RIPV_FAIL_AT");
    }
    let out = cmd.output().unwrap_or_else(|e| machinery_failure(&format!("spawn c05 worker: {e}")));
    let exit = out.status.code();
    if exit != Some(0) && exit != Some(77) {
        machinery_failure(&format!("c05 worker died unexpectedly ({:?}): {}", out.status, String::from_utf8_lossy(&out.stderr).chars().take(800).collect::<String>()));
    }
    let acks = std::fs::read_to_string(&ack)
        .unwrap_or_default()
        .lines()
        .filter_map(|l| serde_json::from_str::<Value>(l).ok())
        .collect();
    RunResult { exit, acks }
}

fn artifact_ids_of(kind: &EventKind) -> Vec<String> {
    match kind {
        EventKind::ContinuityCompactionCheckpointCreated { summary_artifact_id, .. } => vec![summary_artifact_id.clone()],
        EventKind::ContinuityHandoffCreated { summary_artifact_id: Some(a), .. } => vec![a.clone()],
        _ => vec![],
    }
}

/// The recovery oracle: every broken clause as (signature suffix, message).
fn recover_and_check(store_dir: &Path, acks: &[Value]) -> Vec<(String, String)> {
    let mut soft: Vec<(String, String)> = Vec::new();
    match recover_and_check_inner(store_dir, acks, &mut soft) {
        Ok(()) => {}
        Err(e) => soft.push(e),
    }
    soft
}

fn recover_and_check_inner(store_dir: &Path, acks: &[Value], soft: &mut Vec<(String, String)>) -> Result<(), (String, String)> {
    let data = store_dir.join("data");
    let root = store_dir.join("ws");
    let log_path = data.join("events.jsonl");
    if !log_path.exists() {
        return Ok(()); // died before the log existed: nothing was acknowledged
    }
    // (1) a fresh log parses and validates
    let log = EventLog::new(&log_path).map_err(|e| ("open_log".to_string(), e.to_string()))?;
    let events = match log.replay() {
        Ok(e) => e,
        Err(e) => return Err(("torn_or_unparsable_log".into(), format!("replay after the crash fails: {e}"))),
    };
    if let Err(e) = log.replay_validated() {
        return Err(("validated_replay_after_crash".into(), format!("validated replay after the crash fails: {e}")));
    }
    let text = std::fs::read_to_string(&log_path).unwrap_or_default();
    // (3) acknowledged operations are present exactly once
    for a in acks {
        if a["ok"].as_bool() != Some(true) {
            continue;
        }
        for id in a["ids"].as_array().cloned().unwrap_or_default() {
            let id = id.as_str().unwrap_or("");
            let n = events.iter().filter(|e| e.id == id).count();
            if n != 1 {
                return Err(("acked_frame_count".into(), format!("op #{} was acknowledged (frame id {id}) but the log holds it {n} times", a["i"])));
            }
        }
        for t in a["tokens"].as_array().cloned().unwrap_or_default() {
            let t = t.as_str().unwrap_or("");
            if !t.is_empty() && !text.contains(t) {
                return Err(("acked_token_missing".into(), format!("op #{} was acknowledged with {t}, which is nowhere in the log", a["i"])));
            }
        }
    }
    // (4) artifacts referenced by present frames exist and parse
    for e in &events {
        for art in artifact_ids_of(&e.kind) {
            let p = root.join(".rip/artifacts/blobs").join(&art);
            match std::fs::read(&p) {
                Ok(bytes) => {
                    if serde_json::from_slice::<Value>(&bytes).is_err() {
                        return Err(("artifact_unparsable".into(), format!("frame {} references artifact {art} which does not parse", crate::fixture::kind_name(e))));
                    }
                }
                Err(_) => return Err(("artifact_missing".into(), format!("frame {} references artifact {art} which does not exist", crate::fixture::kind_name(e)))),
            }
        }
    }
    // (5) restart: default thread resolves, one append per thread continues the numbering
    let threads: BTreeSet<String> = events.iter().filter(|e| e.stream_kind() == StreamKind::Continuity).map(|e| e.stream_id().to_string()).collect();
    let log2 = Arc::new(EventLog::new(&log_path).map_err(|e| ("open_log".to_string(), e.to_string()))?);
    let store = ContinuityStore::new(data.clone(), root.clone(), log2).map_err(|e| ("store_open".to_string(), e))?;
    // (6) C04 on the recovered store, before anything heals it: every read capability AND the
    // compiled context for every message anchor, with the caches as found, must equal the same on
    // a copy whose caches were removed (both under fresh authorities on private copies).
    {
        let rt = crate::fixture::new_rt();
        let mk = |with_caches: bool| {
            let copy = scratch_dir("c05c");
            let cdata = copy.path().join("data");
            let croot = copy.path().join("ws");
            let _ = crate::common::copy_dir(&data, &cdata);
            let _ = crate::common::copy_dir(&root, &croot);
            if !with_caches {
                let _ = std::fs::remove_dir_all(cdata.join("continuity_streams"));
            }
            crate::fixture::Fx::open(copy, cdata, croot, rt.clone())
        };
        let truth_fx = mk(false);
        for (t, replay_last) in threads.iter().flat_map(|t| [(t, true), (t, false)]) {
            // every (thread, order) gets its own copy: an earlier query must not heal the caches
            let found_fx = mk(true);
            let found = crate::c04::all_answers_ordered(&found_fx, t, true, 4, replay_last);
            let truth = crate::c04::truth_answers(&truth_fx, t, true, 4);
            for ((name, a), (_, b)) in found.iter().zip(truth.iter()) {
                if a != b {
                    let q = name.split('(').next().unwrap_or(name);
                    soft.push((
                        format!("recovered_cache_not_transparent:{q}"),
                        format!("{name} on the recovered store (caches as found) = {} ; with the caches removed = {}", crate::common::compact(a, 300), crate::common::compact(b, 300)),
                    ));
                    break;
                }
            }
        }
    }
    // the append is the restarted authority's FIRST operation on each thread (a replay first would
    // rebuild the caches and hide what an append onto the recovered family does)
    for t in &threads {
        if let Err(e) = store.append_message(t, "u".into(), "o".into(), "after-crash".into()) {
            return Err(("append_after_crash".into(), format!("append after restart fails on {t}: {e}")));
        }
    }
    // the thread index: every thread an acknowledged operation created (the default thread, the
    // children of acknowledged branch / handoff calls) is still listed, and the acknowledged
    // default thread is still the default
    {
        let listed: std::collections::BTreeSet<String> = store.list().into_iter().map(|m| m.continuity_id).collect();
        let acked_default = acks.iter().find(|a| a["i"] == json!(-1) && a["ok"] == json!(true)).and_then(|a| a["thread"].as_str().map(|s| s.to_string()));
        let mut acked_threads: Vec<String> = acked_default.iter().cloned().collect();
        for a in acks {
            if a["ok"] == json!(true) {
                for t in a["tokens"].as_array().cloned().unwrap_or_default() {
                    if let Some(t) = t.as_str() {
                        if t.len() == 36 && threads.iter().any(|x| x == t) {
                            acked_threads.push(t.to_string());
                        }
                    }
                }
            }
        }
        for t in &acked_threads {
            if !listed.contains(t) {
                return Err(("acknowledged_thread_not_listed_after_crash".into(), format!("thread {t} was created by an acknowledged operation; after the restart the thread index lists {listed:?}")));
            }
        }
        if let (Some(want), Ok(got)) = (&acked_default, store.ensure_default()) {
            if *want != got {
                return Err(("default_thread_changed_after_crash".into(), format!("the acknowledged default thread was {want}; after the restart ensure_default answers {got}")));
            }
        }
    }
    match store.ensure_default() {
        Err(e) => return Err(("ensure_default_after_crash".into(), format!("ensure_default after restart fails: {e}"))),
        Ok(default) => {
            // the thread the restarted authority resolves as the default one is USABLE: it may be a
            // thread the index knows and the log does not (the crash fell between the two)
            if let Err(e) = store.append_message(&default, "u".into(), "o".into(), "to the default thread".into()) {
                return Err(("default_thread_unusable_after_crash".into(), format!("ensure_default after restart answers {default}, and an append to it fails: {e}")));
            }
        }
    }
    drop(store);
    // (7) the same differential once more, after the restarted authority has appended: an append
    // onto a recovered (dropped / partly missing) cache family must not leave a partial member
    // that is then served.
    {
        let rt = crate::fixture::new_rt();
        let mk = |with_caches: bool| {
            let copy = scratch_dir("c05d");
            let cdata = copy.path().join("data");
            let croot = copy.path().join("ws");
            let _ = crate::common::copy_dir(&data, &cdata);
            let _ = crate::common::copy_dir(&root, &croot);
            if !with_caches {
                let _ = std::fs::remove_dir_all(cdata.join("continuity_streams"));
            }
            crate::fixture::Fx::open(copy, cdata, croot, rt.clone())
        };
        let truth_fx = mk(false);
        for (t, replay_last) in threads.iter().flat_map(|t| [(t, true), (t, false)]) {
            // every (thread, order) gets its own copy: an earlier query must not heal the caches
            let found_fx = mk(true);
            let found = crate::c04::all_answers_ordered(&found_fx, t, true, 4, replay_last);
            let truth = crate::c04::truth_answers(&truth_fx, t, true, 4);
            for ((name, a), (_, b)) in found.iter().zip(truth.iter()) {
                if a != b {
                    let q = name.split('(').next().unwrap_or(name);
                    soft.push((
                        format!("recovered_then_appended_cache_not_transparent:{q}"),
                        format!("{name} after restart + one append (caches as left by the restarted authority) = {} ; with the caches removed = {}", crate::common::compact(a, 300), crate::common::compact(b, 300)),
                    ));
                    break;
                }
            }
        }
    }
    let log3 = EventLog::new(&log_path).map_err(|e| ("open_log".to_string(), e.to_string()))?;
    match log3.replay_validated() {
        Ok(all) => {
            let mut per: BTreeMap<(String, String), Vec<u64>> = BTreeMap::new();
            let mut ids: HashMap<String, usize> = HashMap::new();
            for e in &all {
                per.entry((format!("{:?}", e.stream_kind()), e.stream_id().to_string())).or_default().push(e.seq);
                *ids.entry(e.id.clone()).or_insert(0) += 1;
            }
            for ((k, id), seqs) in per {
                if seqs != (0..seqs.len() as u64).collect::<Vec<_>>() {
                    return Err(("numbering_after_restart".into(), format!("stream {k}/{id} reads {seqs:?} after restart + append")));
                }
            }
            if let Some((id, n)) = ids.into_iter().find(|(_, n)| *n > 1) {
                return Err(("duplicate_frame_after_restart".into(), format!("frame id {id} appears {n} times")));
            }
        }
        Err(e) => {
            let msg = e.to_string();
            let sig = if msg.contains("sequence mismatch") { "duplicate_or_gap_seq_after_restart" } else { "torn_log_after_restart" };
            return Err((sig.into(), format!("after restart + one append per thread, validated replay fails: {msg}")));
        }
    }
    Ok(())
}

fn histories(depth: usize, alphabet: &[&'static str]) -> Vec<Vec<&'static str>> {
    let mut out: Vec<Vec<&'static str>> = vec![vec![]];
    let mut frontier: Vec<Vec<&'static str>> = vec![vec![]];
    for _ in 0..depth {
        let mut next = Vec::new();
        for h in &frontier {
            for op in alphabet {
                let mut t = h.clone();
                t.push(*op);
                next.push(t);
            }
        }
        out.extend(next.iter().cloned());
        frontier = next;
    }
    out
}

fn check_history(report: &Report, ops: &[&str]) {
    // counting pass (no crash) with a trace of the mutating calls
    let dir = scratch_dir("c05n");
    let trace = dir.path().join("trace.txt");
    let base = run_worker(dir.path(), ops, None, Some(&trace));
    if base.exit != Some(0) {
        machinery_failure("c05 counting pass did not complete");
    }
    let trace_lines: Vec<String> = std::fs::read_to_string(&trace).unwrap_or_default().lines().map(|l| l.to_string()).collect();
    let n = trace_lines.len() as u64;
    report.count("crash_points", n);
    report.max_counter("max_crash_points_per_history", n);
    // the uncrashed history itself must satisfy the oracle
    for (sig, msg) in recover_and_check(&dir.path().join("store"), &base.acks) {
        report.violation(&format!("C05:{sig}:no_crash"), json!({"engine": "K", "harness": "c05", "ops": ops, "crash_at": null}), &msg);
    }
    drop(dir);
    (0..n).into_par_iter().for_each(|k| {
        if report.over_cap() {
            return;
        }
        let dir = scratch_dir("c05k");
        let res = run_worker(dir.path(), ops, Some(k), None);
        let at = trace_lines.get(k as usize).cloned().unwrap_or_default();
        let at_short = {
            // "<k> <op> <path>" -> op + file name class
            let mut it = at.splitn(3, ' ');
            let _ = it.next();
            let op = it.next().unwrap_or("?");
            let path = it.next().unwrap_or("");
            let file = Path::new(path).file_name().map(|f| f.to_string_lossy().to_string()).unwrap_or_default();
            let class = if file == "events.jsonl" {
                "events.jsonl".to_string()
            } else if let Some(idx) = file.find('.') {
                if file.len() > 36 { format!("<id>{}", &file[idx..]) } else { file.clone() }
            } else if file.len() >= 32 {
                "<artifact>".to_string()
            } else {
                file.clone()
            };
            format!("{op} {class}")
        };
        report.eval(Some(&(ops, k)));
        if res.exit == Some(0) {
            report.count("crash_point_not_reached", 1);
        }
        let inflight = res.acks.iter().filter(|a| a["i"].as_i64().unwrap_or(-1) >= 0).count();
        let inflight_op = ops.get(inflight).copied().unwrap_or("end");
        for (sig, msg) in recover_and_check(&dir.path().join("store"), &res.acks) {
            report.violation(
                &format!("C05:{sig}:before[{at_short}]:in_flight={inflight_op}"),
                json!({"engine": "K", "harness": "c05", "ops": ops, "crash_at": k, "crash_before_call": at, "in_flight_op": inflight_op}),
                &format!("history {ops:?} killed before mutating call #{k} ({at_short}): {msg}"),
            );
        }
    });
}

/// Environment answer "error" at system-call granularity (C01's clause, engine K's machinery): for
/// every history and EVERY write call of it on a store path (log, sidecars, indexes, thread index,
/// artifacts, snapshots), that one call fails with ENOSPC - nothing is written - and the
/// authority lives on and runs the history to its end (operations may fail). Then the numbering
/// clauses: a fresh log validates, every frame an operation acknowledged is there once, a
/// restarted authority appends to every thread and the log validates again. (What the caches hold
/// after a failed cache write is C04's business under a running authority; differences are
/// counted here, not judged.)
pub fn failed_write_sweep(report: &Report, prefix: &str) {
    let tier = report.tier();
    let alphabet: Vec<&'static str> = vec!["msg", "run", "side", "cursor", "ckpt", "auto", "branch", "handoff", "msg9k"];
    let mut hists: Vec<Vec<&'static str>> = alphabet.iter().map(|a| vec![*a]).collect();
    for a in &alphabet {
        for b in ["msg", "ckpt", "branch"] {
            hists.push(vec![*a, b]);
            if tier == crate::common::Tier::Thorough {
                hists.push(vec![b, *a, "msg"]);
            }
        }
    }
    hists.push(vec!["msg", "reopen", "msg"]);
    hists.push(vec!["msg", "reopen", "ckpt", "msg"]);
    report.set_extra("failed_write_histories", json!(hists.len()));
    hists.par_iter().for_each(|ops| {
        if report.over_cap() {
            return;
        }
        let dir = scratch_dir("c05w");
        let trace = dir.path().join("trace.txt");
        let base = run_worker(dir.path(), ops, None, Some(&trace));
        if base.exit != Some(0) {
            machinery_failure("failed-write sweep: counting pass did not complete");
        }
        let trace_lines: Vec<String> = std::fs::read_to_string(&trace).unwrap_or_default().lines().map(|l| l.to_string()).collect();
        drop(dir);
        let writes: Vec<(u64, String)> = trace_lines
            .iter()
            .enumerate()
            .filter_map(|(k, l)| {
                let mut it = l.splitn(3, ' ');
                let _ = it.next();
                let op = it.next().unwrap_or("");
                let path = it.next().unwrap_or("");
                if op.starts_with("write") || op.starts_with("pwrite") {
                    let file = Path::new(path).file_name().map(|f| f.to_string_lossy().to_string()).unwrap_or_default();
                    let class = if file == "events.jsonl" {
                        "events.jsonl".to_string()
                    } else if file.len() > 36 {
                        file.find('.').map(|i| format!("<id>{}", &file[i..])).unwrap_or_else(|| "<artifact>".into())
                    } else {
                        file
                    };
                    Some((k as u64, format!("{op} {class}")))
                } else {
                    None
                }
            })
            .collect();
        writes.par_iter().for_each(|(k, at)| {
            if report.over_cap() {
                return;
            }
            let dir = scratch_dir("c05f");
            let res = run_worker_faulty(dir.path(), ops, None, Some(*k), None);
            report.eval(Some(&("failed_write", ops, k)));
            report.count("failed_write_points", 1);
            if res.exit != Some(0) {
                report.violation(&format!("{prefix}:authority_died_on_failed_write:{at}"), json!({"engine": "K", "harness": "c05.failed_writes", "ops": ops, "failed_call": k, "call": at}), &format!("history {ops:?}: write call #{k} ({at}) failed with ENOSPC and the process ended with {:?}", res.exit));
                return;
            }
            let failed_ops = res.acks.iter().filter(|a| a["ok"] == json!(false)).count();
            if failed_ops > 0 {
                report.count("failed_write_points_at_which_an_operation_failed", 1);
            }
            for (sig, msg) in recover_and_check(&dir.path().join("store"), &res.acks) {
                if sig.starts_with("recovered_cache_not_transparent") {
                    report.count("info_cache_differences_after_a_failed_write", 1);
                    continue;
                }
                // which stream's numbering broke (a thread's, a session's, a task's)
                let stream = msg.split("for stream ").nth(1).and_then(|r| r.split('/').next()).map(|k| format!(":stream={k}")).unwrap_or_default();
                report.violation(
                    &format!("{prefix}:{sig}:failed[{at}]{stream}"),
                    json!({"engine": "K", "harness": "c05.failed_writes", "ops": ops, "failed_call": k, "call": at}),
                    &format!("history {ops:?}, write call #{k} ({at}) failed with ENOSPC (nothing written), the authority ran on: {msg}"),
                );
            }
        });
    });
}

/// Replay of one failed-write case (reported under `prefix`, i.e. by C01).
pub fn replay_failed_write(report: &Report, case: &Value, prefix: &str) {
    let ops_owned: Vec<String> = case["ops"].as_array().map(|a| a.iter().filter_map(|v| v.as_str().map(|s| s.to_string())).collect()).unwrap_or_default();
    let ops: Vec<&str> = ops_owned.iter().map(|s| s.as_str()).collect();
    let k = case["failed_call"].as_u64();
    let dir = scratch_dir("c05r");
    let res = run_worker_faulty(dir.path(), &ops, None, k, None);
    report.eval(Some(&"replay"));
    println!("worker exit {:?}, acks {:?}", res.exit, res.acks);
    let fails: Vec<(String, String)> = recover_and_check(&dir.path().join("store"), &res.acks).into_iter().filter(|(s, _)| !s.starts_with("recovered_cache_not_transparent")).collect();
    if fails.is_empty() && res.exit == Some(0) {
        println!("replay: the numbering clauses hold");
    }
    if res.exit != Some(0) {
        report.violation(&format!("{prefix}:authority_died_on_failed_write"), case.clone(), &format!("the process ended with {:?}", res.exit));
    }
    for (sig, msg) in fails {
        report.violation(&format!("{prefix}:{sig}:failed_write"), case.clone(), &msg);
    }
}

pub fn replay(report: &Report, case: &Value) {
    let ops_owned: Vec<String> = case["ops"].as_array().map(|a| a.iter().filter_map(|v| v.as_str().map(|s| s.to_string())).collect()).unwrap_or_default();
    let ops: Vec<&str> = ops_owned.iter().map(|s| s.as_str()).collect();
    let k = case["crash_at"].as_u64();
    let dir = scratch_dir("c05r");
    let res = run_worker(dir.path(), &ops, k, None);
    report.eval(Some(&"replay"));
    println!("worker exit {:?}, acks {:?}", res.exit, res.acks);
    let fails = recover_and_check(&dir.path().join("store"), &res.acks);
    if fails.is_empty() {
        println!("replay: recovery oracle holds");
    }
    for (sig, msg) in fails {
        report.violation(&format!("C05:{sig}"), case.clone(), &msg);
    }
}

pub fn run(opts: Opts) -> i32 {
    let report = Report::new("C05", "fault_enumeration", opts.clone());
    report.set_rule(
        "every history of <=2 ops (quick; thorough: <=3 over all 11 ops, <=4 over the 5 cheapest) from {message, 9 KiB message, linked stub run, \
         side effects, manual checkpoint, auto compaction, branch, handoff, cursor set, cursor rotate, selection+compiled} after an implicit \
         open+ensure_default is run by a subprocess under an LD_PRELOAD shim; for EVERY mutating file-system call k on a store path \
         (open-create/trunc, write, pwrite, rename, unlink, mkdir, ftruncate) plus a 70 KiB message (longer than the first tail-scan window) before and after every op, plus 7 histories that crash inside a cache rebuild (caches lost then read; orderly restart then first append; threads longer than the writer's buffer, with and without a foreign last frame), plus 11 histories in which another run logs its session frames between an op's log append and its cache append (<op>+sess); the process is killed immediately before call k and the recovery \
         oracle runs on what is left; a case = (history, k), all distinct",
    );
    report.assume("crash model = process death at syscall boundaries, each write(2) atomic; no power loss / reordered write-back (rip never fsyncs)");
    report.assume("the shim intercepts libc's open/openat/creat/write/writev/pwrite/rename*/unlink*/mkdir*/rmdir/ftruncate/link/symlink; Rust std reaches the kernel through these on glibc");
    if let Some(path) = &opts.replay {
        let case = crate::common::load_replay_case(path);
        replay(&report, &case);
        return report.finish();
    }
    let tier = report.tier();
    let mut hs: Vec<Vec<&'static str>> = histories(tier.pick(2, 3), &OPS);
    if tier == Tier::Thorough {
        let cheap = ["msg", "msg9k", "side", "cursor", "ckpt"];
        for h in histories(4, &cheap) {
            if h.len() == 4 {
                hs.push(h);
            }
        }
    }
    // one frame longer than the first window of the backward tail scans, before and after every op
    hs.push(vec!["msg70k"]);
    for op in OPS {
        hs.push(vec![op, "msg70k"]);
        hs.push(vec!["msg70k", op]);
    }
    // an op whose first frame is logged, then another run's session frames, then the op's cache writes
    for op in ["msg+sess", "side+sess", "ckpt+sess", "cursor+sess", "sel+sess", "rotate+sess"] {
        if op != "rotate+sess" {
            hs.push(vec!["msg", op]); // (nothing to rotate without a cursor)
        }
        hs.push(vec!["run", "cursor", op]);
    }
    // crashes INSIDE a cache rebuild (a read after the caches were lost; the first append of a
    // process lifetime), on threads longer than the writer's buffer, with and without another
    // thread owning the log's last frame
    for h in [
        vec!["msg9k", "msg9k", "branch", "wipe", "replay"],
        vec!["msg9k", "msg9k", "wipe", "replay"],
        vec!["msg70k", "branch", "wipe", "replay"],
        vec!["run", "ckpt", "msg9k", "branch", "wipe", "replay"],
        vec!["msg9k", "msg9k", "branch", "reopen", "msg"],
        vec!["msg9k", "msg9k", "reopen", "msg"],
        vec!["run", "ckpt", "msg9k", "branch", "reopen", "side"],
    ] {
        hs.push(h);
    }
    // two cache families mid-update at once: a lock-free thread creation (branch / handoff) with an
    // append to the main thread stopped in the middle of its cache update
    for op in ["branch+msgpark", "handoff+msgpark"] {
        hs.push(vec!["msg", op]);
        hs.push(vec!["run", "ckpt", op]);
    }
    report.set_extra("histories", json!(hs.len()));
    report.sample(json!({"ops": ["msg9k", "ckpt"], "crash": "before every mutating call k"}));
    report.sample(json!({"ops": ["run", "branch"], "crash": "before every mutating call k"}));
    report.sample(json!({"ops": [], "crash": "during open + ensure_default"}));
    // histories in parallel (each parallelises over its crash points too)
    hs.par_iter().for_each(|h| {
        if report.over_cap() {
            return;
        }
        check_history(&report, h);
    });
    report.finish()
}
