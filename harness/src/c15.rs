//! C15 — provider stream decoding is lossless and chunking-invariant.
//!
//! Bounded exhaustive enumeration: SSE byte streams built from a block alphabet x ALL chunk
//! partitions (streams <= limit bytes) or all 1-splits, 2-splits and byte-at-a-time (longer
//! streams), each fed through the real SSE pipe (push_bytes -> SseDecoder -> EventFrameMapper ->
//! sink) via the exported receive-loop body. Oracles: single-chunk vs partition (differential),
//! a reference SSE parser, delta concatenation, seq contiguity.

use futures_util::FutureExt;
use rayon::prelude::*;
use rip_kernel::{Event, EventKind, ProviderEventStatus};
use rip_log::EventLog;
use serde_json::{json, Value};

use crate::common::{machinery_failure, Opts, Report};

#[derive(Clone, Debug, PartialEq)]
struct Obs {
    frames: Vec<Value>,
    saw_done: bool,
    next_seq: u64,
    calls: Vec<Value>,
}

fn project(frames: &[Event]) -> Vec<Value> {
    frames
        .iter()
        .map(|e| match &e.kind {
            EventKind::ProviderEvent {
                provider,
                status,
                event_name,
                data,
                raw,
                errors,
                response_errors,
            } => json!({
                "seq": e.seq, "k": "provider_event", "provider": provider,
                "status": match status { ProviderEventStatus::Event => "event", ProviderEventStatus::Done => "done", ProviderEventStatus::InvalidJson => "invalid_json" },
                "event_name": event_name, "data": data, "raw": raw, "errors": errors, "response_errors": response_errors,
            }),
            EventKind::OutputTextDelta { delta } => json!({"seq": e.seq, "k": "output_text_delta", "delta": delta}),
            other => json!({"seq": e.seq, "k": "other", "debug": format!("{other:?}")}),
        })
        .collect()
}

fn run_pipe(log: &EventLog, offset: u64, chunks: &[Vec<u8>]) -> Obs {
    run_pipe_mode(log, offset, chunks, false)
}

/// `compat` = the validation mode of stateless-history runs (missing item ids are tolerated for
/// VALIDATION; the payload carried by the frame is still the provider's).
fn run_pipe_mode(log: &EventLog, offset: u64, chunks: &[Vec<u8>], compat: bool) -> Obs {
    let fut = ripd::verif_export::sse_pipe_run(log, "s", offset, chunks, compat);
    let Some((frames, saw_done, next_seq, calls)) = fut.now_or_never() else {
        machinery_failure("sse pipe future did not complete on first poll");
    };
    Obs {
        frames: project(&frames),
        saw_done,
        next_seq,
        calls,
    }
}

// ---------------------------------------------------------------------------------------------
// Reference SSE parser (WHATWG event-stream field grammar restricted to LF/CRLF; data lines joined
// by \n; event dispatched on a blank line; comments and unknown fields ignored; an unterminated
// final block is discarded; everything after the first [DONE] event is outside the stream).

#[derive(Debug, Clone, PartialEq)]
struct RefEvent {
    event_name: Option<String>,
    payload: String,
}

fn reference_events(stream: &[u8]) -> (Vec<RefEvent>, bool) {
    let text = String::from_utf8_lossy(stream).to_string();
    let mut events = Vec::new();
    let mut data: Vec<String> = Vec::new();
    let mut name: Option<String> = None;
    let mut rest: &str = &text;
    let mut done = false;
    while let Some(idx) = rest.find('\n') {
        let line = &rest[..idx];
        rest = &rest[idx + 1..];
        let line = line.trim_end_matches('\r');
        if line.is_empty() {
            if !data.is_empty() {
                let payload = data.join("\n");
                let is_done = payload == "[DONE]";
                events.push(RefEvent { event_name: if is_done { None } else { name.clone() }, payload });
                data.clear();
                name = None;
                if is_done {
                    done = true;
                    break;
                }
            }
            continue;
        }
        if let Some(v) = line.strip_prefix("data:") {
            data.push(v.trim_start().to_string());
        } else if let Some(v) = line.strip_prefix("event:") {
            let v = v.trim();
            name = if v.is_empty() { None } else { Some(v.to_string()) };
        }
    }
    // End of body: a lone CR is a line terminator too (SSE allows CR, LF and CRLF), so a body that
    // ends between the CR and the LF of its final blank line still completes that blank line.
    if !done && !rest.is_empty() && rest.ends_with('\r') && rest.trim_end_matches('\r').is_empty() && !data.is_empty() {
        let payload = data.join("\n");
        let is_done = payload == "[DONE]";
        events.push(RefEvent { event_name: if is_done { None } else { name.clone() }, payload });
        if is_done {
            done = true;
        }
    }
    (events, done)
}

fn check_reference(stream: &[u8], single: &Obs, offset: u64) -> Result<(), (String, String)> {
    let (expected, done) = reference_events(stream);
    let provider: Vec<&Value> = single.frames.iter().filter(|f| f["k"] == "provider_event").collect();
    if provider.len() != expected.len() {
        return Err((
            "C15:lossless:event_count".into(),
            format!("{} provider-event frames for {} server-sent events", provider.len(), expected.len()),
        ));
    }
    let mut expected_text = String::new();
    for (f, e) in provider.iter().zip(expected.iter()) {
        let status = f["status"].as_str().unwrap_or("");
        if e.payload == "[DONE]" {
            if status != "done" || f["raw"].as_str() != Some("[DONE]") {
                return Err(("C15:lossless:done_marker".into(), format!("terminal marker mapped to {f}")));
            }
            continue;
        }
        match serde_json::from_str::<Value>(&e.payload) {
            Ok(v) => {
                if status != "event" || f["data"] != v {
                    return Err((
                        "C15:lossless:payload".into(),
                        format!("event payload {} decoded as {}", e.payload, f),
                    ));
                }
                if v.get("type").and_then(|t| t.as_str()) == Some("response.output_text.delta") {
                    if let Some(d) = v.get("delta").and_then(|d| d.as_str()) {
                        expected_text.push_str(d);
                    }
                }
            }
            Err(_) => {
                if status != "invalid_json" || f["raw"].as_str() != Some(e.payload.as_str()) {
                    return Err((
                        "C15:lossless:invalid_json_payload".into(),
                        format!("non-JSON payload {:?} decoded as {}", e.payload, f),
                    ));
                }
            }
        }
        let got_name = f["event_name"].as_str().map(|s| s.to_string());
        if got_name != e.event_name {
            return Err((
                "C15:lossless:event_name".into(),
                format!("event name {:?} decoded as {:?}", e.event_name, got_name),
            ));
        }
    }
    let text: String = single
        .frames
        .iter()
        .filter(|f| f["k"] == "output_text_delta")
        .map(|f| f["delta"].as_str().unwrap_or("").to_string())
        .collect();
    if text != expected_text {
        return Err((
            "C15:lossless:output_text".into(),
            format!("derived output text {text:?} != concatenation of deltas {expected_text:?}"),
        ));
    }
    let _ = done; // the loop's internal 'saw [DONE]' flag is not observable (finish() ignores it): not judged
    for (i, f) in single.frames.iter().enumerate() {
        if f["seq"].as_u64() != Some(offset + i as u64) {
            return Err((
                "C15:seq:gap".into(),
                format!("frame {i} has seq {} (offset {offset})", f["seq"]),
            ));
        }
    }
    if single.next_seq != offset + single.frames.len() as u64 {
        return Err((
            "C15:seq:next".into(),
            format!("next seq {} after {} frames from offset {offset}", single.next_seq, single.frames.len()),
        ));
    }
    Ok(())
}

// ---------------------------------------------------------------------------------------------
// Stream alphabet

fn blocks(eol: &[u8]) -> Vec<(&'static str, Vec<u8>)> {
    let line = |parts: &[&[u8]]| -> Vec<u8> {
        let mut v = Vec::new();
        for p in parts {
            v.extend_from_slice(p);
            v.extend_from_slice(eol);
        }
        v
    };
    vec![
        ("data:1", line(&[b"data: 1", b""])),
        ("done", line(&[b"data: [DONE]", b""])),
        ("bad_json", line(&[b"data: {bad", b""])),
        ("comment", line(&[b": c"])),
        ("data:ff", line(&[b"data: \xff", b""])),
        ("data:trunc3+a", line(&[b"data: \xe2\x82a", b""])),
        ("data:overlong", line(&[b"data: \xc0\xaf", b""])),
        ("data:4byte", line(&["data: \"😀\"".as_bytes(), b""])),
        ("two_line", line(&[b"data: a", b"data: b", b""])),
        ("event_name", line(&[b"event: x", b"data: 1", b""])),
        ("unknown_field", line(&[b"foo: bar"])),
        (
            "text_delta(é)",
            line(&["data: {\"type\":\"response.output_text.delta\",\"delta\":\"é\"}".as_bytes(), b""]),
        ),
        (
            "fn_call_done",
            line(&[
                b"data: {\"type\":\"response.output_item.done\",\"output_index\":0,\"item\":{\"type\":\"function_call\",\"id\":\"i1\",\"call_id\":\"c1\",\"name\":\"ls\",\"arguments\":\"{}\"}}",
                b"",
            ]),
        ),
        // the SSE event NAME and the payload TYPE disagree: the name is transport, the type decides
        ("text_delta under event:message", line(&[b"event: message", b"data: {\"type\":\"response.output_text.delta\",\"delta\":\"A\"}", b""])),
        (
            "args_delta under event:output_text.delta",
            line(&[b"event: response.output_text.delta", b"data: {\"type\":\"response.function_call_arguments.delta\",\"item_id\":\"i1\",\"delta\":\"{p\"}", b""]),
        ),
        // a function call item WITHOUT an id (tolerated for validation in the compat mode)
        ("fn_call_done_without_id", line(&[b"data: {\"type\":\"response.output_item.done\",\"output_index\":0,\"item\":{\"type\":\"function_call\",\"call_id\":\"c1\",\"name\":\"ls\",\"arguments\":\"{}\"}}", b""])),
        ("data:e9 trunc2 at eol", line(&[b"data: \"\xc3\"", b""])),
        ("bare_cr_in_payload", line(&[b"data: a\rb", b""])),
        // U+FEFF inside a payload is a character like any other, wherever a chunk boundary falls
        ("text_delta(U+FEFF inside)", line(&["data: {\"type\":\"response.output_text.delta\",\"delta\":\"a\u{feff}b\"}".as_bytes(), b""])),
        // blanks at the END of a data line belong to the payload (only one leading space is syntax)
        ("data_lines_with_trailing_blanks", line(&[b"data: said:  ", b"data: later\t", b""])),
        ("done_followed_by_a_blank", line(&[b"data: [DONE] ", b""])),
    ]
}

struct Stream {
    name: String,
    bytes: Vec<u8>,
}

fn streams(max_blocks: usize) -> Vec<Stream> {
    let mut out = Vec::new();
    for (eol_name, eol) in [("LF", b"\n".as_slice()), ("CRLF", b"\r\n".as_slice())] {
        let bl = blocks(eol);
        let mut seqs: Vec<Vec<usize>> = vec![vec![]];
        let mut frontier: Vec<Vec<usize>> = vec![vec![]];
        for _ in 0..max_blocks {
            let mut next = Vec::new();
            for s in &frontier {
                for i in 0..bl.len() {
                    let mut t = s.clone();
                    t.push(i);
                    next.push(t);
                }
            }
            seqs.extend(next.iter().cloned());
            frontier = next;
        }
        for s in seqs {
            if s.is_empty() {
                continue;
            }
            let mut bytes = Vec::new();
            for &i in &s {
                bytes.extend_from_slice(&bl[i].1);
            }
            let name = s.iter().map(|&i| bl[i].0).collect::<Vec<_>>().join("+");
            out.push(Stream { name: format!("{eol_name}:{name}"), bytes: bytes.clone() });
            // body cut short by 1..4 bytes: final LF missing, final blank line missing, EOF between
            // CR and LF, EOF inside the last line terminator
            for cut_n in 1..=4usize {
                if cut_n >= bytes.len() {
                    break;
                }
                let mut cut = bytes.clone();
                cut.truncate(bytes.len() - cut_n);
                out.push(Stream { name: format!("{eol_name}:{name}:-{cut_n}B"), bytes: cut });
            }
        }
    }
    out
}

fn partition_from_mask(bytes: &[u8], mask: u64) -> Vec<Vec<u8>> {
    let mut chunks = Vec::new();
    let mut cur = Vec::new();
    for (i, b) in bytes.iter().enumerate() {
        cur.push(*b);
        if i + 1 < bytes.len() && (mask >> i) & 1 == 1 {
            chunks.push(std::mem::take(&mut cur));
        }
    }
    if !cur.is_empty() {
        chunks.push(cur);
    }
    chunks
}

fn splits(bytes: &[u8], cuts: &[usize]) -> Vec<Vec<u8>> {
    let mut chunks = Vec::new();
    let mut prev = 0;
    for &c in cuts {
        chunks.push(bytes[prev..c].to_vec());
        prev = c;
    }
    chunks.push(bytes[prev..].to_vec());
    chunks
}

fn case_json(stream: &Stream, chunks: &[Vec<u8>], offset: u64) -> Value {
    json!({
        "engine": "H-inputs",
        "harness": "c15.sse_pipe",
        "stream": stream.name,
        "stream_hex": hex::encode(&stream.bytes),
        "stream_lossy": String::from_utf8_lossy(&stream.bytes),
        "chunk_sizes": chunks.iter().map(|c| c.len()).collect::<Vec<_>>(),
        "seq_offset": offset,
    })
}

fn classify_diff(single: &Obs, got: &Obs, stream: &[u8]) -> String {
    let count = |o: &Obs| {
        o.frames
            .iter()
            .map(|f| f.to_string().matches('\u{fffd}').count())
            .sum::<usize>()
    };
    if count(single) != count(got) && std::str::from_utf8(stream).is_err() {
        return "C15:chunking:replacement_char_count".into();
    }
    let (refs, done) = reference_events(stream);
    let _ = refs;
    if done && single.frames.len() != got.frames.len() {
        return "C15:chunking:frames_after_done".into();
    }
    if single.calls != got.calls {
        return "C15:chunking:collected_calls".into();
    }
    "C15:chunking:frames_differ".into()
}

fn check_stream(report: &Report, log: &EventLog, stream: &Stream, all_partitions_limit: usize, two_splits: bool) {
    let offset = (stream.bytes.len() % 2) as u64 * 7;
    let single = run_pipe(log, offset, &[stream.bytes.clone()]);
    report.eval(Some(&(&stream.bytes, 0u8)));
    if let Err((sig, msg)) = check_reference(&stream.bytes, &single, offset) {
        report.violation(&sig, case_json(stream, &[stream.bytes.clone()], offset), &msg);
    }
    // the compat validation mode (stateless-history runs): same reference, single chunk and every
    // one-cut partition
    {
        let compat = run_pipe_mode(log, offset, &[stream.bytes.clone()], true);
        report.eval(None::<&u8>);
        report.count("compat_mode_runs", 1);
        if let Err((sig, msg)) = check_reference(&stream.bytes, &compat, offset) {
            let mut case = case_json(stream, &[stream.bytes.clone()], offset);
            case["validation_mode"] = json!("compat_missing_item_ids");
            report.violation(&format!("{sig}:compat"), case, &msg);
        } else if stream.bytes.len() <= 160 {
            for i in 1..stream.bytes.len() {
                let chunks = splits(&stream.bytes, &[i]);
                let got = run_pipe_mode(log, offset, &chunks, true);
                report.eval(None::<&u8>);
                if got != compat {
                    let mut case = case_json(stream, &chunks, offset);
                    case["validation_mode"] = json!("compat_missing_item_ids");
                    report.violation(&format!("{}:compat", classify_diff(&compat, &got, &stream.bytes)), case, "partition differs from single chunk in the compat validation mode");
                    break;
                }
            }
        }
    }
    let n = stream.bytes.len();
    let mut judge = |chunks: Vec<Vec<u8>>| {
        let got = run_pipe(log, offset, &chunks);
        report.eval(None::<&u8>);
        if got != single {
            let sig = classify_diff(&single, &got, &stream.bytes);
            report.violation(
                &sig,
                case_json(stream, &chunks, offset),
                &format!(
                    "partition {:?} gives {} frames {:?}; single chunk gives {} frames {:?}",
                    chunks.iter().map(|c| c.len()).collect::<Vec<_>>(),
                    got.frames.len(),
                    got.frames.iter().map(|f| f.to_string()).collect::<Vec<_>>(),
                    single.frames.len(),
                    single.frames.iter().map(|f| f.to_string()).collect::<Vec<_>>(),
                ),
            );
        }
    };
    if n <= all_partitions_limit {
        report.count("streams_all_partitions", 1);
        let total: u64 = 1u64 << (n.saturating_sub(1));
        for mask in 1..total {
            judge(partition_from_mask(&stream.bytes, mask));
        }
    } else {
        report.count("streams_split_enumeration", 1);
        for i in 1..n {
            judge(splits(&stream.bytes, &[i]));
        }
        if two_splits {
            for i in 1..n {
                for j in (i + 1)..n {
                    judge(splits(&stream.bytes, &[i, j]));
                }
            }
        }
        judge(stream.bytes.iter().map(|b| vec![*b]).collect());
    }
}

pub fn replay(report: &Report, case: &Value) {
    let bytes = hex::decode(case["stream_hex"].as_str().unwrap_or("")).unwrap_or_default();
    let sizes: Vec<usize> = case["chunk_sizes"]
        .as_array()
        .map(|a| a.iter().filter_map(|v| v.as_u64().map(|x| x as usize)).collect())
        .unwrap_or_default();
    let offset = case["seq_offset"].as_u64().unwrap_or(0);
    let log = EventLog::new("/dev/null").expect("log");
    let mut chunks = Vec::new();
    let mut pos = 0;
    for s in sizes {
        chunks.push(bytes[pos..pos + s].to_vec());
        pos += s;
    }
    let compat = case["validation_mode"] == "compat_missing_item_ids";
    let single = run_pipe_mode(&log, offset, &[bytes.clone()], compat);
    let got = run_pipe_mode(&log, offset, &chunks, compat);
    report.eval(Some(&"replay"));
    println!("single: {:?}\nchunked: {:?}", single.frames, got.frames);
    let stream = Stream { name: "replay".into(), bytes: bytes.clone() };
    if let Err((sig, msg)) = check_reference(&bytes, &single, offset) {
        report.violation(&sig, case_json(&stream, &[bytes.clone()], offset), &msg);
    }
    if got != single {
        report.violation(&classify_diff(&single, &got, &bytes), case.clone(), "partition differs from single chunk");
    }
}

pub fn run(opts: Opts) -> i32 {
    let report = Report::new("C15", "exploration", opts.clone());
    report.set_rule(
        "streams = every sequence of <=2 (quick) / <=3 (thorough) blocks from a 15-block alphabet (number, [DONE], bad JSON, comment, \
         0xFF, truncated 3-byte sequence + ASCII, overlong form, 4-byte char, two-line data, event name, unknown field, text delta, \
         function-call item, truncated 2-byte before quote) x {LF, CRLF} x {complete, cut short by 1..4 bytes (final LF / blank line missing, EOF between CR and LF)}; \
         every stream <= limit bytes is delivered in ALL 2^(n-1) chunk partitions, longer streams in every 1-split, every 2-split and \
         byte-at-a-time; each delivery runs the real push_bytes/SseDecoder/EventFrameMapper pipe; distinct non-trivial = distinct \
         stream bytes (each gets the reference-parser oracle); evaluations = pipe runs",
    );
    report.assume("the exported driver restates the 8-line receive loop body (push each chunk until [DONE], else finish); C07/C16 engine-P runs exercise the real loop over HTTP");
    report.assume("invalid UTF-8 is expected to decode as String::from_utf8_lossy of the whole body (one U+FFFD per maximal invalid subsequence)");
    report.assume("an unterminated final block is discarded (SSE spec); frames after the first [DONE] event are outside the stream");
    if let Some(path) = &opts.replay {
        let case = crate::common::load_replay_case(path);
        replay(&report, &case);
        return report.finish();
    }
    let tier = report.tier();
    let max_blocks = tier.pick(2, 3);
    let limit = tier.pick(14, 17);
    let all = streams(max_blocks);
    report.set_extra("streams", json!(all.len()));
    report.set_extra("all_partitions_limit_bytes", json!(limit));
    report.sample(json!({"stream": all[0].name, "bytes": String::from_utf8_lossy(&all[0].bytes), "partitions": "all 2^(n-1)"}));
    report.sample(json!({"stream": all[all.len() / 2].name, "hex": hex::encode(&all[all.len() / 2].bytes)}));
    report.sample(json!({"stream": all[all.len() - 1].name, "hex": hex::encode(&all[all.len() - 1].bytes)}));
    all.par_iter().for_each_init(
        || EventLog::new("/dev/null").expect("log"),
        |log, stream| {
            if report.over_cap() {
                return;
            }
            // two cut points cost n^2 runs: streams of two long items get every single cut and byte-at-a-time
            let two = stream.bytes.len() <= tier.pick(170, 200);
            check_stream(&report, log, stream, limit, two);
        },
    );
    report.finish()
}
