//! Shared plumbing: tiers, evidence writer, violation/known-finding reporting, scratch dirs.

use std::collections::{BTreeMap, HashSet};
use std::hash::{Hash, Hasher};
use std::path::{Path, PathBuf};
use std::sync::Mutex;
use std::time::Instant;

use serde_json::{json, Map, Value};
use sha2::{Digest, Sha256};

pub const VERIF_DIR: &str = "/verif";

#[derive(Clone, Copy, PartialEq, Eq, Debug)]
pub enum Tier {
    Quick,
    Thorough,
}

impl Tier {
    pub fn as_str(self) -> &'static str {
        match self {
            Tier::Quick => "quick",
            Tier::Thorough => "thorough",
        }
    }
    pub fn pick<T>(self, quick: T, thorough: T) -> T {
        match self {
            Tier::Quick => quick,
            Tier::Thorough => thorough,
        }
    }
}

#[derive(Clone, Debug)]
pub struct Opts {
    pub tier: Tier,
    pub seed: i64,
    pub replay: Option<PathBuf>,
    pub wall_cap_s: f64,
    pub extra: Vec<String>,
}

pub fn parse_opts(args: &[String]) -> Opts {
    let mut tier = match std::env::var("VERIF_TIER").ok().as_deref() {
        Some("thorough") => Tier::Thorough,
        _ => Tier::Quick,
    };
    let seed = std::env::var("VERIF_SEED")
        .ok()
        .and_then(|s| s.parse::<i64>().ok())
        .unwrap_or(0);
    let mut replay = None;
    let mut wall_cap_s = None;
    let mut extra = Vec::new();
    let mut i = 0;
    while i < args.len() {
        match args[i].as_str() {
            "--tier" => {
                i += 1;
                tier = match args.get(i).map(|s| s.as_str()) {
                    Some("thorough") => Tier::Thorough,
                    _ => Tier::Quick,
                };
            }
            "--replay" => {
                i += 1;
                replay = args.get(i).map(PathBuf::from);
            }
            "--wall-cap" => {
                i += 1;
                wall_cap_s = args.get(i).and_then(|s| s.parse::<f64>().ok());
            }
            other => extra.push(other.to_string()),
        }
        i += 1;
    }
    let wall_cap_s = wall_cap_s.unwrap_or(match tier {
        Tier::Quick => 50.0,
        Tier::Thorough => 900.0,
    });
    Opts {
        tier,
        seed,
        replay,
        wall_cap_s,
        extra,
    }
}

pub fn hash64<T: Hash>(t: &T) -> u64 {
    let mut h = std::collections::hash_map::DefaultHasher::new();
    t.hash(&mut h);
    h.finish()
}

#[derive(Clone, Debug)]
pub struct KnownFinding {
    pub id: String,
    pub property: String,
    pub signature: String,
    /// alternative to `signature`: a regular expression that must match the WHOLE signature
    pub signature_regex: Option<regex::Regex>,
    pub what: String,
}

fn load_known_findings() -> Vec<KnownFinding> {
    let path = Path::new(VERIF_DIR).join("known_findings.json");
    let Ok(bytes) = std::fs::read(&path) else {
        return Vec::new();
    };
    let Ok(value) = serde_json::from_slice::<Value>(&bytes) else {
        eprintln!("machinery: known_findings.json does not parse");
        std::process::exit(2);
    };
    let mut out = Vec::new();
    for entry in value
        .get("findings")
        .and_then(|v| v.as_array())
        .cloned()
        .unwrap_or_default()
    {
        let get = |k: &str| {
            entry
                .get(k)
                .and_then(|v| v.as_str())
                .unwrap_or_default()
                .to_string()
        };
        let signature_regex = match entry.get("signature_regex").and_then(|v| v.as_str()) {
            Some(r) => match regex::Regex::new(&format!("^(?:{r})$")) {
                Ok(re) => Some(re),
                Err(e) => {
                    eprintln!("machinery: known_findings.json: bad signature_regex in {}: {e}", get("id"));
                    std::process::exit(2);
                }
            },
            None => None,
        };
        out.push(KnownFinding {
            id: get("id"),
            property: get("property"),
            signature: get("signature"),
            signature_regex,
            what: get("what"),
        });
    }
    out
}

fn known_matches(k: &KnownFinding, signature: &str) -> bool {
    match &k.signature_regex {
        Some(re) => re.is_match(signature),
        None => !k.signature.is_empty() && signature_matches(&k.signature, signature),
    }
}

fn signature_matches(pattern: &str, signature: &str) -> bool {
    if let Some(prefix) = pattern.strip_suffix('*') {
        signature.starts_with(prefix)
    } else {
        pattern == signature
    }
}

struct Inner {
    evaluations: u64,
    distinct: HashSet<u64>,
    samples: Vec<Value>,
    counters: BTreeMap<String, u64>,
    extra: Map<String, Value>,
    violations: u64,
    violation_sigs: HashSet<String>,
    known_hits: BTreeMap<String, u64>,
    infos: Vec<String>,
    exhaustive: bool,
    states: u64,
    transitions: u64,
    traces_validated: u64,
}

/// One per check run. Thread-safe; the only writer of the evidence file and of the
/// VIOLATION / KNOWN-FINDING lines.
pub struct Report {
    pub id: &'static str,
    pub level: &'static str,
    pub opts: Opts,
    worker: bool,
    start: Instant,
    rule: Mutex<String>,
    assumptions: Mutex<Vec<String>>,
    known: Vec<KnownFinding>,
    inner: Mutex<Inner>,
    /// replay by re-enumeration: only a violation of exactly this (normalised) case is reported
    replay_case: Mutex<Option<String>>,
}

/// A case description with run-specific parts removed: the free-form "detail" member, uuids and
/// 64-hex artifact ids.
pub fn normalise_case(case: &Value) -> String {
    let mut c = case.clone();
    if let Some(o) = c.as_object_mut() {
        o.remove("detail");
    }
    let text = c.to_string();
    static RE: std::sync::OnceLock<regex::Regex> = std::sync::OnceLock::new();
    let re = RE.get_or_init(|| regex::Regex::new(r"[0-9a-f]{8}-[0-9a-f]{4}-[0-9a-f]{4}-[0-9a-f]{4}-[0-9a-f]{12}|[0-9a-f]{64}|/dev/shm/rip-verif/[A-Za-z0-9_]+").unwrap());
    re.replace_all(&text, "#").to_string()
}

impl Report {
    pub fn new(id: &'static str, level: &'static str, opts: Opts) -> Self {
        let known = load_known_findings()
            .into_iter()
            .filter(|k| k.property == id)
            .collect();
        Self {
            id,
            level,
            opts,
            worker: std::env::var("VC_WORKER").is_ok(),
            start: Instant::now(),
            rule: Mutex::new(String::new()),
            assumptions: Mutex::new(Vec::new()),
            known,
            replay_case: Mutex::new(None),
            inner: Mutex::new(Inner {
                evaluations: 0,
                distinct: HashSet::new(),
                samples: Vec::new(),
                counters: BTreeMap::new(),
                extra: Map::new(),
                violations: 0,
                violation_sigs: HashSet::new(),
                known_hits: BTreeMap::new(),
                infos: Vec::new(),
                exhaustive: true,
                states: 0,
                transitions: 0,
                traces_validated: 0,
            }),
        }
    }

    pub fn tier(&self) -> Tier {
        self.opts.tier
    }

    pub fn elapsed_s(&self) -> f64 {
        self.start.elapsed().as_secs_f64()
    }

    /// True once the wall cap is exceeded; callers stop enumerating and the run is no longer
    /// reported as exhaustive.
    pub fn over_cap(&self) -> bool {
        if self.elapsed_s() > self.opts.wall_cap_s {
            self.inner.lock().unwrap().exhaustive = false;
            true
        } else {
            false
        }
    }

    pub fn set_rule(&self, rule: &str) {
        *self.rule.lock().unwrap() = rule.to_string();
    }

    pub fn assume(&self, text: &str) {
        self.assumptions.lock().unwrap().push(text.to_string());
    }

    pub fn not_exhaustive(&self, why: &str) {
        let mut inner = self.inner.lock().unwrap();
        inner.exhaustive = false;
        inner.infos.push(format!("not exhaustive: {why}"));
    }

    /// Count one evaluated case; `key` (when the case is non-trivial by the check's rule) is
    /// hashed into the distinct set.
    pub fn eval<K: Hash>(&self, key: Option<&K>) {
        let mut inner = self.inner.lock().unwrap();
        inner.evaluations += 1;
        if let Some(k) = key {
            inner.distinct.insert(hash64(k));
        }
    }

    pub fn eval_n(&self, n: u64) {
        self.inner.lock().unwrap().evaluations += n;
    }

    pub fn distinct_key<K: Hash>(&self, key: &K) {
        self.inner.lock().unwrap().distinct.insert(hash64(key));
    }

    pub fn count(&self, name: &str, n: u64) {
        *self
            .inner
            .lock()
            .unwrap()
            .counters
            .entry(name.to_string())
            .or_insert(0) += n;
    }

    pub fn max_counter(&self, name: &str, n: u64) {
        let mut inner = self.inner.lock().unwrap();
        let e = inner.counters.entry(name.to_string()).or_insert(0);
        if n > *e {
            *e = n;
        }
    }

    pub fn set_extra(&self, name: &str, v: Value) {
        self.inner.lock().unwrap().extra.insert(name.to_string(), v);
    }

    pub fn add_states(&self, states: u64, transitions: u64) {
        let mut inner = self.inner.lock().unwrap();
        inner.states += states;
        inner.transitions += transitions;
    }

    pub fn add_traces_validated(&self, n: u64) {
        self.inner.lock().unwrap().traces_validated += n;
    }

    pub fn sample(&self, v: Value) {
        let mut inner = self.inner.lock().unwrap();
        if inner.samples.len() < 6 {
            inner.samples.push(v);
        }
    }

    pub fn info(&self, text: String) {
        let mut inner = self.inner.lock().unwrap();
        if inner.infos.len() < 50 {
            inner.infos.push(text);
        }
    }

    pub fn violations(&self) -> u64 {
        self.inner.lock().unwrap().violations
    }

    /// Report a violation. `signature` is a stable, narrow classification of *what* failed (used
    /// to match known findings); `case` is the replayable description.
    /// Replay for checks without a dedicated single-case entry: the enumeration runs as usual
    /// and only the saved case is judged (every other violation is ignored).
    pub fn replay_by_re_enumeration(&self, path: &Path) {
        let case = load_replay_case(path);
        println!("replay: re-running the enumeration, judging only the saved case {}", compact(&case, 300));
        *self.replay_case.lock().unwrap() = Some(normalise_case(&case));
    }

    /// For replay entries that re-run one part of a check and judge only the saved case.
    pub fn replay_case_slot(&self) -> std::sync::MutexGuard<'_, Option<String>> {
        self.replay_case.lock().unwrap()
    }

    pub fn violation(&self, signature: &str, case: Value, message: &str) {
        if let Some(want) = self.replay_case.lock().unwrap().as_ref() {
            if normalise_case(&case) != *want {
                return;
            }
        }
        if self.worker {
            let mut inner = self.inner.lock().unwrap();
            inner.violations += 1;
            let first_of_sig = inner.violation_sigs.insert(signature.to_string());
            if !first_of_sig && inner.violations > 60 {
                return;
            }
            drop(inner);
            println!(
                "{}",
                json!({"t": "violation", "sig": signature, "case": case, "msg": message})
            );
            return;
        }
        if let Some(k) = self
            .known
            .iter()
            .find(|k| known_matches(k, signature))
        {
            let mut inner = self.inner.lock().unwrap();
            let first = !inner.known_hits.contains_key(&k.id);
            *inner.known_hits.entry(k.id.clone()).or_insert(0) += 1;
            if first {
                println!(
                    "KNOWN-FINDING: property={} {} [{}] first-case={}",
                    self.id,
                    k.what,
                    k.id,
                    compact(&case, 300)
                );
            }
            return;
        }
        let mut inner = self.inner.lock().unwrap();
        inner.violations += 1;
        let first_of_sig = inner.violation_sigs.insert(signature.to_string());
        if !first_of_sig && inner.violations > 40 {
            return;
        }
        drop(inner);
        let artefact = json!({
            "property": self.id,
            "signature": signature,
            "message": message,
            "case": case,
        });
        let bytes = serde_json::to_vec_pretty(&artefact).unwrap_or_default();
        let mut hasher = Sha256::new();
        hasher.update(&bytes);
        let sha = hex::encode(hasher.finalize());
        let dir = Path::new(VERIF_DIR).join("replays").join(self.id);
        let _ = std::fs::create_dir_all(&dir);
        let path = dir.join(format!("{}.json", &sha[..16]));
        let _ = std::fs::write(&path, &bytes);
        println!("VIOLATION property={} replay={}", self.id, path.display());
        println!("  signature: {signature}");
        println!("  message: {}", truncate(message, 600));
    }

    /// Absorbs the JSON lines a worker subprocess printed (see `finish` in worker mode).
    pub fn absorb_worker_output(&self, stdout: &str) -> bool {
        let mut saw_summary = false;
        for line in stdout.lines() {
            let Ok(v) = serde_json::from_str::<Value>(line) else {
                continue;
            };
            match v.get("t").and_then(|t| t.as_str()) {
                Some("violation") => {
                    self.violation(
                        v["sig"].as_str().unwrap_or("?"),
                        v["case"].clone(),
                        v["msg"].as_str().unwrap_or(""),
                    );
                }
                Some("summary") => {
                    saw_summary = true;
                    let mut inner = self.inner.lock().unwrap();
                    inner.evaluations += v["evaluations"].as_u64().unwrap_or(0);
                    for h in v["distinct"].as_array().cloned().unwrap_or_default() {
                        if let Some(h) = h.as_u64() {
                            inner.distinct.insert(h);
                        }
                    }
                    if let Some(c) = v["counters"].as_object() {
                        for (k, n) in c {
                            *inner.counters.entry(k.clone()).or_insert(0) += n.as_u64().unwrap_or(0);
                        }
                    }
                    for smp in v["samples"].as_array().cloned().unwrap_or_default() {
                        if inner.samples.len() < 6 {
                            inner.samples.push(smp);
                        }
                    }
                    for i in v["infos"].as_array().cloned().unwrap_or_default() {
                        if inner.infos.len() < 50 {
                            inner.infos.push(i.as_str().unwrap_or("").to_string());
                        }
                    }
                    if v["exhaustive"].as_bool() == Some(false) {
                        inner.exhaustive = false;
                    }
                    inner.states += v["states"].as_u64().unwrap_or(0);
                    inner.transitions += v["transitions"].as_u64().unwrap_or(0);
                }
                _ => {}
            }
        }
        saw_summary
    }

    /// Writes the evidence file and returns the exit code.
    pub fn finish(&self) -> i32 {
        if self.worker {
            let inner = self.inner.lock().unwrap();
            println!(
                "{}",
                json!({
                    "t": "summary",
                    "evaluations": inner.evaluations,
                    "distinct": inner.distinct.iter().collect::<Vec<_>>(),
                    "counters": inner.counters,
                    "samples": inner.samples,
                    "infos": inner.infos,
                    "exhaustive": inner.exhaustive,
                    "states": inner.states,
                    "transitions": inner.transitions,
                })
            );
            return 0;
        }
        let inner = self.inner.lock().unwrap();
        let wall = self.start.elapsed().as_secs_f64();
        let mut coverage = Map::new();
        coverage.insert("evaluations".into(), json!(inner.evaluations));
        coverage.insert("distinct_nontrivial".into(), json!(inner.distinct.len()));
        coverage.insert("rule".into(), json!(self.rule.lock().unwrap().clone()));
        coverage.insert("samples".into(), Value::Array(inner.samples.clone()));
        coverage.insert("exhaustive".into(), json!(inner.exhaustive));
        if self.level == "model_checking" {
            coverage.insert("states".into(), json!(inner.states));
            coverage.insert("transitions".into(), json!(inner.transitions));
            coverage.insert(
                "traces_validated_against_impl".into(),
                json!(inner.traces_validated),
            );
        }
        for (k, v) in &inner.counters {
            coverage.insert(k.clone(), json!(v));
        }
        for (k, v) in &inner.extra {
            coverage.insert(k.clone(), v.clone());
        }
        if !inner.known_hits.is_empty() {
            coverage.insert("known_finding_hits".into(), json!(inner.known_hits));
        }
        if !inner.infos.is_empty() {
            coverage.insert("info".into(), json!(inner.infos));
        }
        coverage.insert("wall_cap_s".into(), json!(self.opts.wall_cap_s));
        let evidence = json!({
            "property_id": self.id,
            "tier": self.opts.tier.as_str(),
            "seed": self.opts.seed,
            "level": self.level,
            "coverage": Value::Object(coverage),
            "assumptions": self.assumptions.lock().unwrap().clone(),
            "wall_s": (wall * 1000.0).round() / 1000.0,
            "violations": inner.violations,
        });
        let dir = Path::new(VERIF_DIR).join("evidence");
        let _ = std::fs::create_dir_all(&dir);
        // a replay of one case must not overwrite the evidence of the last real run
        let path = if self.opts.replay.is_some() {
            Path::new(VERIF_DIR).join("target").join(format!("replay-evidence-{}.json", self.id))
        } else {
            dir.join(format!("{}.json", self.id))
        };
        if let Err(err) = std::fs::write(
            &path,
            serde_json::to_vec_pretty(&evidence).unwrap_or_default(),
        ) {
            eprintln!("machinery: cannot write evidence {}: {err}", path.display());
            return 2;
        }
        println!(
            "{} tier={} evaluations={} distinct={} states={} transitions={} violations={} known={:?} exhaustive={} wall={:.1}s",
            self.id,
            self.opts.tier.as_str(),
            inner.evaluations,
            inner.distinct.len(),
            inner.states,
            inner.transitions,
            inner.violations,
            inner.known_hits,
            inner.exhaustive,
            wall
        );
        for (k, v) in &inner.counters {
            println!("  {k}={v}");
        }
        if inner.violations > 0 {
            1
        } else {
            0
        }
    }
}

pub fn truncate(s: &str, n: usize) -> String {
    if s.len() <= n {
        return s.to_string();
    }
    let mut end = n;
    while end > 0 && !s.is_char_boundary(end) {
        end -= 1;
    }
    format!("{}…", &s[..end])
}

pub fn compact(v: &Value, n: usize) -> String {
    truncate(&v.to_string(), n)
}

/// Scratch root: tmpfs when available (fast, and nothing registered depends on it).
pub fn scratch_root() -> PathBuf {
    if let Ok(dir) = std::env::var("VERIF_SCRATCH") {
        return PathBuf::from(dir);
    }
    let shm = Path::new("/dev/shm");
    if shm.is_dir() {
        let p = shm.join("rip-verif");
        if std::fs::create_dir_all(&p).is_ok() {
            return p;
        }
    }
    std::env::temp_dir().join("rip-verif")
}

pub fn scratch_dir(prefix: &str) -> tempfile::TempDir {
    let root = scratch_root();
    let _ = std::fs::create_dir_all(&root);
    tempfile::Builder::new()
        .prefix(prefix)
        .tempdir_in(root)
        .expect("scratch dir")
}

pub fn machinery_failure(msg: &str) -> ! {
    eprintln!("MACHINERY-FAILURE: {msg}");
    std::process::exit(2);
}

/// Reads a replay artefact and returns its `case` member.
pub fn load_replay_case(path: &Path) -> Value {
    let bytes = std::fs::read(path)
        .unwrap_or_else(|e| machinery_failure(&format!("read replay {}: {e}", path.display())));
    let v: Value = serde_json::from_slice(&bytes)
        .unwrap_or_else(|e| machinery_failure(&format!("parse replay: {e}")));
    v.get("case").cloned().unwrap_or(Value::Null)
}

/// Recursively copies a directory (regular files and directories only).
pub fn copy_dir(src: &Path, dst: &Path) -> std::io::Result<()> {
    std::fs::create_dir_all(dst)?;
    for entry in std::fs::read_dir(src)? {
        let entry = entry?;
        let ty = entry.file_type()?;
        let to = dst.join(entry.file_name());
        if ty.is_dir() {
            copy_dir(&entry.path(), &to)?;
        } else if ty.is_file() {
            std::fs::copy(entry.path(), &to)?;
        }
    }
    Ok(())
}

/// path (relative) -> bytes for every regular file under `root`; directories listed with None.
pub fn tree_snapshot(root: &Path) -> BTreeMap<String, Option<Vec<u8>>> {
    tree_snapshot_full(root)
}

/// Like `tree_snapshot` but does not descend into top-level entries named `skip`.
pub fn tree_snapshot_skipping(root: &Path, skip: &str) -> BTreeMap<String, Option<Vec<u8>>> {
    let mut out = BTreeMap::new();
    let Ok(rd) = std::fs::read_dir(root) else {
        return out;
    };
    for entry in rd.flatten() {
        if !skip.is_empty() && entry.file_name().to_string_lossy() == skip {
            continue;
        }
        let path = entry.path();
        let rel = entry.file_name().to_string_lossy().to_string();
        match entry.file_type() {
            Ok(t) if t.is_dir() => {
                out.insert(format!("{rel}/"), None);
                for (k, v) in tree_snapshot(&path) {
                    out.insert(format!("{rel}/{k}"), v);
                }
            }
            Ok(t) if t.is_file() => {
                out.insert(rel, std::fs::read(&path).ok());
            }
            Ok(_) => {
                out.insert(format!("{rel}@"), None);
            }
            Err(_) => {}
        }
    }
    out
}

pub fn tree_snapshot_full(root: &Path) -> BTreeMap<String, Option<Vec<u8>>> {
    fn walk(base: &Path, dir: &Path, out: &mut BTreeMap<String, Option<Vec<u8>>>) {
        let Ok(rd) = std::fs::read_dir(dir) else {
            return;
        };
        for entry in rd.flatten() {
            let path = entry.path();
            let rel = path
                .strip_prefix(base)
                .unwrap_or(&path)
                .to_string_lossy()
                .to_string();
            match entry.file_type() {
                Ok(t) if t.is_dir() => {
                    out.insert(format!("{rel}/"), None);
                    walk(base, &path, out);
                }
                Ok(t) if t.is_file() => {
                    out.insert(rel, std::fs::read(&path).ok());
                }
                Ok(_) => {
                    out.insert(format!("{rel}@"), None);
                }
                Err(_) => {}
            }
        }
    }
    let mut out = BTreeMap::new();
    walk(root, root, &mut out);
    out
}

/// Runs `vc <args>` worker subprocesses (VC_WORKER=1) in parallel and folds their output into
/// `report`. A worker that dies without a summary line is a machinery failure.
pub fn run_workers(report: &Report, jobs: Vec<Vec<String>>, parallelism: usize, envs: &[(String, String)]) {
    use std::process::{Command, Stdio};
    let exe = std::env::current_exe().expect("current exe");
    let queue = Mutex::new(jobs.into_iter().collect::<std::collections::VecDeque<_>>());
    std::thread::scope(|scope| {
        for _ in 0..parallelism.max(1) {
            scope.spawn(|| loop {
                let job = { queue.lock().unwrap().pop_front() };
                let Some(job) = job else {
                    break;
                };
                let mut cmd = Command::new(&exe);
                cmd.args(&job)
                    .env("VC_WORKER", "1")
                    .env("VERIF_TIER", report.opts.tier.as_str())
                    .env("VERIF_SEED", report.opts.seed.to_string())
                    .stdin(Stdio::null())
                    .stdout(Stdio::piped())
                    .stderr(Stdio::piped());
                for (k, v) in envs {
                    cmd.env(k, v);
                }
                let out = match cmd.output() {
                    Ok(out) => out,
                    Err(e) => machinery_failure(&format!("spawn worker {job:?}: {e}")),
                };
                let stdout = String::from_utf8_lossy(&out.stdout).to_string();
                let ok = report.absorb_worker_output(&stdout);
                if !ok {
                    let stderr = String::from_utf8_lossy(&out.stderr);
                    machinery_failure(&format!(
                        "worker {job:?} ended without a summary (status {:?}); stderr tail: {}",
                        out.status,
                        stderr.chars().rev().take(1500).collect::<Vec<_>>().into_iter().rev().collect::<String>()
                    ));
                }
            });
        }
    });
}
