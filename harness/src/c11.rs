//! C11 — workspace mutations never overlap and are logged in the order they happened.
//!
//! Engine S: two real `run_session` futures (tool / checkpoint envelopes, linked to one thread,
//! built on one SessionEngine so they share the production workspace lock) explored over all
//! interleavings at the lock / span / publish hooks up to a preemption bound. Oracle on the
//! recorded step trace and on the log.

use std::sync::Arc;

use rayon::prelude::*;
use rip_kernel::EventKind;
use serde_json::{json, Value};

use crate::common::{Opts, Report, Tier};
use crate::fixture::Fx;
use crate::sched::{explore, ActorBody, ActorCtx, Exec};

#[derive(Clone, Copy, Debug, PartialEq, Eq, Hash)]
enum In {
    WriteA,
    WriteB,
    Patch,
    CheckpointCreate,
    /// a mutating tool call that ends in tool_failed: write with timeout_ms 0 (the timeout fires at
    /// the first poll; the call still counts as a workspace mutation and is logged as one)
    WriteTimeout0,
    /// a background shell task that writes a file (tasks hold the workspace lock for their whole
    /// execution; they are not linked to a run, so no side-effects frame is due)
    TaskBash,
    /// a provider run whose model calls `write` (the agent-loop tool path, its own guard site)
    AgentWrite,
    /// one apply_patch call that updates a file AND moves it (two paths change: the old and the new)
    PatchMove,
    /// the shell tool run by a session, under its own name and under its registered alias
    BashTool,
    ShellAlias,
    Read,
    Ls,
}

fn input(i: In) -> String {
    match i {
        In::WriteA => json!({"tool": "write", "args": {"path": "a.txt", "content": "A"}}).to_string(),
        In::WriteB => json!({"tool": "write", "args": {"path": "b.txt", "content": "B"}}).to_string(),
        In::Patch => json!({"tool": "apply_patch", "args": {"patch": "*** Begin Patch\n*** Add File: p.txt\n+p\n*** End Patch"}}).to_string(),
        In::CheckpointCreate => json!({"checkpoint": {"action": "create", "label": "l", "files": ["a.txt"]}}).to_string(),
        In::WriteTimeout0 => json!({"tool": "write", "args": {"path": "t.txt", "content": "T"}, "timeout_ms": 0}).to_string(),
        In::TaskBash => json!({"tool": "bash", "args": {"command": "echo T > task.txt", "cwd": "."}}).to_string(),
        In::AgentWrite => "please write".to_string(),
        In::PatchMove => json!({"tool": "apply_patch", "args": {"patch": "*** Begin Patch\n*** Update File: mv.txt\n*** Move to: moved.txt\n@@\n-mv\n+MV\n*** End Patch"}}).to_string(),
        In::BashTool => json!({"tool": "bash", "args": {"command": "echo S > bash.txt", "cwd": "."}}).to_string(),
        In::ShellAlias => json!({"tool": "shell", "args": {"command": "echo S > alias.txt", "cwd": "."}}).to_string(),
        In::Read => json!({"tool": "read", "args": {"path": "seed.txt"}}).to_string(),
        In::Ls => json!({"tool": "ls", "args": {}}).to_string(),
    }
}

fn mutating(i: In) -> bool {
    !matches!(i, In::Read | In::Ls)
}

fn logs_side_effects(i: In) -> bool {
    matches!(i, In::WriteA | In::WriteB | In::Patch | In::PatchMove | In::WriteTimeout0 | In::AgentWrite | In::BashTool | In::ShellAlias)
}

/// The files the input's tool call changes (None: a shell command, whose effects the tool cannot list).
fn changed_files(i: In) -> Option<Vec<&'static str>> {
    match i {
        In::WriteA => Some(vec!["a.txt"]),
        In::WriteB => Some(vec!["b.txt"]),
        In::Patch => Some(vec!["p.txt"]),
        In::PatchMove => Some(vec!["moved.txt", "mv.txt"]),
        In::WriteTimeout0 => Some(vec!["t.txt"]),
        In::AgentWrite => Some(vec!["agent.txt"]),
        _ => None,
    }
}

/// One scripted provider for the whole check (its own runtime); every world uses a fresh key.
fn provider() -> &'static crate::provx::Provider {
    static P: std::sync::OnceLock<(crate::provx::Provider, Arc<tokio::runtime::Runtime>)> = std::sync::OnceLock::new();
    &P.get_or_init(|| {
        let rt = crate::provx::new_mt_rt();
        (crate::provx::Provider::start(&rt), rt)
    })
    .0
}

static KEY: std::sync::atomic::AtomicUsize = std::sync::atomic::AtomicUsize::new(0);

struct World {
    fx: Fx,
    thread: String,
    sessions: Vec<String>,
}

const FILTER: [&str; 11] = ["start", "ws.lock", "ws.guard.*", "tool.handler.*", "ckpt.action.*", "task.exec.*", "tool.semaphore", "cont.next_seq", "cont.publish", "sess.publish", "log.appended"];

fn make_world(rt: &Arc<tokio::runtime::Runtime>, inputs: &[In]) -> (World, Vec<ActorBody>) {
    let fx = Fx::new(rt.clone());
    std::fs::write(fx.root.join("seed.txt"), "seed\n").unwrap();
    std::fs::write(fx.root.join("mv.txt"), "mv\n").unwrap();
    let store = fx.store();
    let thread = store.ensure_default().expect("thread");
    let mut actors: Vec<ActorBody> = Vec::new();
    let mut sessions = Vec::new();
    let app = {
        let _g = rt.enter();
        ripd::verif_export::VerifApp::new(fx.engine.clone(), false)
    };
    for &i in inputs {
        let content = input(i);
        if i == In::TaskBash {
            let payload: Value = serde_json::from_str(&content).unwrap();
            let (tid, fut) = rt.block_on(app.create_task_future(payload)).expect("task");
            sessions.push(tid);
            let rt2 = rt.clone();
            actors.push(Box::new(move |ctx: &ActorCtx| {
                let _g = rt2.enter();
                ctx.block_on(fut);
            }));
            continue;
        }
        let m = store.append_message(&thread, "u".into(), "o".into(), content.clone()).expect("msg");
        let handle = fx.engine.create_session();
        sessions.push(handle.session_id.clone());
        store.append_run_spawned(&thread, &m, &handle.session_id, "u".into(), "o".into()).expect("spawn");
        let link = ripd::ContinuityRunLink { continuity_id: thread.clone(), message_id: m, actor_id: "u".into(), origin: "o".into() };
        let engine = fx.engine.clone();
        let rt2 = rt.clone();
        let cfg = if i == In::AgentWrite {
            use crate::provx::{sse, Resp};
            let key = format!("c11-{}/v1/responses", KEY.fetch_add(1, std::sync::atomic::Ordering::SeqCst));
            let call = json!({"type": "response.output_item.done", "output_index": 0, "item": {"type": "function_call", "id": "fc", "call_id": "c1", "name": "write", "arguments": json!({"path": "agent.txt", "content": "G"}).to_string()}});
            provider().script(
                &key,
                vec![
                    Resp::Sse { chunks: vec![sse(&[json!({"type": "response.completed", "response": {"id": "r1"}}), call, Value::String("[DONE]".into())])], abort: false },
                    Resp::Sse { chunks: vec![sse(&[json!({"type": "response.output_text.delta", "delta": "done"}), Value::String("[DONE]".into())])], abort: false },
                ],
                true,
            );
            Some(crate::provx::config(provider().endpoint(&key)))
        } else {
            None
        };
        actors.push(Box::new(move |ctx: &ActorCtx| {
            let _g = rt2.enter();
            ctx.block_on(engine.verif_session_future(handle, content, Some(link), cfg));
        }));
    }
    (World { fx, thread, sessions }, actors)
}

fn check_exec(report: &Report, inputs: &[In], world: &World, exec: &Exec, saw_overlap: &mut bool) {
    let case = || {
        json!({
            "engine": "S",
            "harness": "c11.workspace",
            "inputs": inputs.iter().map(|i| format!("{i:?}")).collect::<Vec<_>>(),
            "choice_points_only": exec.decisions.iter().filter(|d| d.enabled.len() > 1).map(|d| d.chosen).collect::<Vec<_>>(),
            "schedule": exec.schedule_string(),
            "preemptions": exec.preemptions,
        })
    };
    let label = inputs.iter().map(|i| format!("{i:?}")).collect::<Vec<_>>().join("+");
    if exec.deadlock {
        report.violation(&format!("C11:deadlock:{label}"), case(), "no enabled actor while some are unfinished");
        return;
    }
    if !exec.panicked.is_empty() {
        report.violation(&format!("C11:panic:{label}"), case(), &format!("actors panicked: {:?}", exec.panicked));
        return;
    }
    // (1) never two workspace guards / two mutating tool handlers open at once
    let mut open_guards: Vec<usize> = Vec::new();
    let mut open_handlers: Vec<(usize, String)> = Vec::new();
    let mut guard_begin_order: Vec<usize> = Vec::new();
    for s in &exec.spans {
        match (s.name.as_str(), s.begin) {
            ("ws.guard", true) => {
                open_guards.push(s.actor);
                guard_begin_order.push(s.actor);
                if open_guards.len() > 1 {
                    report.violation(&format!("C11:two_workspace_guards:{label}"), case(), &format!("actors {:?} hold the workspace guard at once", open_guards));
                    return;
                }
            }
            ("ws.guard", false) => open_guards.retain(|a| *a != s.actor),
            ("tool.handler", true) => {
                let ro = matches!(s.label.as_str(), "read" | "ls" | "grep" | "artifact_fetch");
                if !ro && !open_guards.contains(&s.actor) {
                    report.violation(&format!("C11:mutation_outside_workspace_guard:{}:{label}", s.label), case(), &format!("actor {} runs {} while it does not hold the workspace guard (holders: {:?})", s.actor, s.label, open_guards));
                    return;
                }
                if !ro && open_handlers.iter().any(|(_, l)| !matches!(l.as_str(), "read" | "ls" | "grep" | "artifact_fetch")) {
                    report.violation(&format!("C11:mutating_tools_overlap:{label}"), case(), &format!("{} started while {:?} is running", s.label, open_handlers));
                    return;
                }
                if !open_handlers.is_empty() {
                    *saw_overlap = true;
                }
                open_handlers.push((s.actor, s.label.clone()));
            }
            ("tool.handler", false) => open_handlers.retain(|(a, _)| *a != s.actor),
            ("ckpt.action", true) => {
                // a checkpoint create / rewind reads or rewrites workspace files: it is a mutator
                if !open_guards.contains(&s.actor) {
                    report.violation(&format!("C11:mutation_outside_workspace_guard:checkpoint:{label}"), case(), &format!("actor {} runs checkpoint {} while it does not hold the workspace guard (holders: {:?})", s.actor, s.label, open_guards));
                    return;
                }
                if open_handlers.iter().any(|(a, l)| *a != s.actor && !matches!(l.as_str(), "read" | "ls" | "grep" | "artifact_fetch")) {
                    report.violation(&format!("C11:mutating_tools_overlap:{label}"), case(), &format!("checkpoint {} started while {:?} is running", s.label, open_handlers));
                    return;
                }
                open_handlers.push((s.actor, format!("checkpoint_{}", s.label)));
            }
            ("ckpt.action", false) => open_handlers.retain(|(a, _)| *a != s.actor),
            ("task.exec", true) => {
                if !open_guards.contains(&s.actor) {
                    report.violation(&format!("C11:mutation_outside_workspace_guard:task:{label}"), case(), &format!("actor {} executes its task while it does not hold the workspace guard (holders: {:?})", s.actor, open_guards));
                    return;
                }
                if open_handlers.iter().any(|(a, l)| *a != s.actor && !matches!(l.as_str(), "read" | "ls" | "grep" | "artifact_fetch")) {
                    report.violation(&format!("C11:mutating_tools_overlap:{label}"), case(), &format!("a task started executing while {:?} is running", open_handlers));
                    return;
                }
                open_handlers.push((s.actor, "task".to_string()));
            }
            ("task.exec", false) => open_handlers.retain(|(a, _)| *a != s.actor),
            _ => {}
        }
    }
    // (2) side-effect frames: one per mutating tool call of a linked run, after the tool, before
    // the run ends, and across runs in the order of the mutations (= guard acquisition order)
    let events = world.fx.truth(rip_kernel::StreamKind::Continuity, &world.thread);
    let mut frame_order: Vec<usize> = Vec::new();
    for e in &events {
        if let EventKind::ContinuityToolSideEffects { run_session_id, .. } = &e.kind {
            if let Some(idx) = world.sessions.iter().position(|s| s == run_session_id) {
                frame_order.push(idx);
            }
        }
    }
    for (idx, i) in inputs.iter().enumerate() {
        let n = frame_order.iter().filter(|a| **a == idx).count();
        let want = if logs_side_effects(*i) { 1 } else { 0 };
        if n != want {
            report.violation(&format!("C11:side_effect_frame_count:{label}"), case(), &format!("run {idx} ({i:?}) has {n} side-effect frames, expected {want}"));
            return;
        }
        if want == 1 {
            // "listing the files it changed": the frame's affected_paths are exactly the changed files
            if let Some(expect) = changed_files(*i) {
                let sess = &world.sessions[idx];
                let listed: Option<Vec<String>> = events.iter().find_map(|e| match &e.kind {
                    EventKind::ContinuityToolSideEffects { run_session_id, affected_paths, .. } if run_session_id == sess => affected_paths.clone(),
                    _ => None,
                });
                let mut got = listed.clone().unwrap_or_default();
                got.sort();
                got.dedup();
                // (two runs of the same input - e.g. PatchMove twice - : the second one fails and changes nothing)
                let failed = inputs.iter().filter(|x| **x == *i).count() > 1 && got.is_empty();
                if got != expect.iter().map(|s| s.to_string()).collect::<Vec<_>>() && !failed {
                    report.violation(&format!("C11:side_effect_paths:{label}"), case(), &format!("run {idx} ({i:?}) changed {:?}; its side-effects frame lists {:?}", expect, listed));
                    return;
                }
            }
            let sess = &world.sessions[idx];
            let pos_frame = events.iter().position(|e| matches!(&e.kind, EventKind::ContinuityToolSideEffects { run_session_id, .. } if run_session_id == sess));
            let pos_end = events.iter().position(|e| matches!(&e.kind, EventKind::ContinuityRunEnded { run_session_id, .. } if run_session_id == sess));
            if let (Some(f), Some(en)) = (pos_frame, pos_end) {
                if f > en {
                    report.violation(&format!("C11:side_effect_after_run_ended:{label}"), case(), &format!("run {idx}: side-effect frame after run_ended"));
                }
            }
        }
    }
    // "after the tool finished", judged on the log: the tool's terminal frame precedes its side-effects frame
    if let Ok(all) = rip_log::EventLog::new(world.fx.data.join("events.jsonl")).and_then(|l| l.replay()) {
        for (sig, msg) in crate::provx::lifecycle_violations(&all) {
            if sig.starts_with("side_effects_") {
                report.violation(&format!("C11:{sig}:{label}"), case(), &msg);
            }
        }
    }
    let mutation_order: Vec<usize> = guard_begin_order.into_iter().filter(|a| logs_side_effects(inputs[*a])).collect();
    if frame_order != mutation_order {
        report.violation(
            &format!("C11:side_effect_order:{label}"),
            case(),
            &format!("side-effect frames are recorded in run order {:?}, the mutations happened in order {:?}", frame_order, mutation_order),
        );
    }
    let _ = mutating;
}

fn run_config(report: &Report, inputs: &[In], bound: usize) {
    let rt = Arc::new(tokio::runtime::Builder::new_multi_thread().worker_threads(1).enable_all().build().expect("rt"));
    let mut saw_overlap = false;
    let stats = {
        let so = &mut saw_overlap;
        explore(
            bound,
            u64::MAX,
            true,
            Some(FILTER.to_vec()),
            &|| report.over_cap(),
            &|| make_world(&rt, inputs),
            &mut |world: &World, exec: &Exec| {
                report.eval(Some(&(inputs, exec.trace_hash())));
                check_exec(report, inputs, world, exec, so);
            },
        )
    };
    report.add_states(stats.distinct_traces.len() as u64, stats.steps);
    report.add_traces_validated(stats.executions);
    report.count("executions", stats.executions);
    report.max_counter("max_choice_points", stats.max_decisions as u64);
    if saw_overlap {
        report.count("configs_with_overlapping_tool_spans", 1);
    } else if inputs.iter().any(|i| !mutating(*i)) && !stats.capped {
        // "read-only tools may overlap freely": among all explored interleavings of a read-only tool
        // with anything else, at least one must have the read-only handler running while the other
        // execution is in progress - none at all means something serialises them
        let label = inputs.iter().map(|i| format!("{i:?}")).collect::<Vec<_>>().join("+");
        report.violation(
            &format!("C11:read_only_tool_never_overlaps:{label}"),
            json!({"engine": "S", "harness": "c11.workspace", "inputs": inputs.iter().map(|i| format!("{i:?}")).collect::<Vec<_>>(), "bound": bound, "whole_config": true}),
            &format!("in none of the {} explored interleavings of {inputs:?} does the read-only tool run while the other execution is in progress", stats.executions),
        );
    }
    if stats.capped {
        report.not_exhaustive(&format!("{inputs:?}: wall cap hit after {} executions at bound {bound}", stats.executions));
    }
}

/// Histories with a QUEUED mutation (engine P, real time): a holder that keeps the workspace lock
/// for a while (a task or a session's shell tool), a second mutation that arrives meanwhile and
/// has to queue, and what a client can do to the queued one (nothing, cancel it). The holder
/// itself is the witness: before it ends it looks for the file only the queued mutation writes.
fn queued_histories(report: &Report) {
    use std::time::{Duration, Instant};
    let rt = crate::provx::new_mt_rt();
    let holder_cmd = "echo h > h.txt; sleep 0.4; if [ -e q.txt ]; then echo overlapped > witness.txt; fi; echo done > h_done.txt";
    let cases: Vec<(&str, &str, &str)> = ["task", "session_tool"].iter().flat_map(|h| ["task", "session_tool"].iter().flat_map(move |q| ["none", "cancel_queued", "cancel_queued_twice"].iter().map(move |a| (*h, *q, *a)))).collect();
    cases.par_iter().for_each(|(holder, queued, action)| {
        if report.over_cap() {
            return;
        }
        let app = crate::provx::App::new(rt.clone(), None);
        let thread = app.ensure_thread();
        let wait_file = |name: &str, secs: u64| {
            let t0 = Instant::now();
            while !app.root.join(name).exists() && t0.elapsed() < Duration::from_secs(secs) {
                std::thread::sleep(Duration::from_millis(5));
            }
            app.root.join(name).exists()
        };
        let start = |kind: &str, cmd: &str, write_tool: bool| -> (String, String) {
            // returns (kind of id, id)
            if kind == "task" {
                let (_, b) = app.request("POST", "/tasks", Some(json!({"tool": "bash", "args": {"command": cmd, "cwd": "."}})));
                ("task".to_string(), serde_json::from_slice::<Value>(&b).ok().and_then(|v| v["task_id"].as_str().map(|s| s.to_string())).unwrap_or_default())
            } else {
                let content = if write_tool { json!({"tool": "write", "args": {"path": "q.txt", "content": "q"}}).to_string() } else { json!({"tool": "bash", "args": {"command": cmd, "cwd": "."}}).to_string() };
                let (_, b) = app.request("POST", &format!("/threads/{thread}/messages"), Some(json!({"content": content})));
                ("session".to_string(), serde_json::from_slice::<Value>(&b).ok().and_then(|v| v["session_id"].as_str().map(|s| s.to_string())).unwrap_or_default())
            }
        };
        let (_, hid) = start(holder, holder_cmd, false);
        if hid.is_empty() || !wait_file("h.txt", 10) {
            crate::common::machinery_failure(&format!("c11.queued: the {holder} holder did not start"));
        }
        let (qkind, qid) = start(queued, "echo q > q.txt", true);
        if qid.is_empty() {
            crate::common::machinery_failure(&format!("c11.queued: the queued {queued} was not accepted"));
        }
        let cancels = match *action {
            "cancel_queued" => 1,
            "cancel_queued_twice" => 2,
            _ => 0,
        };
        for _ in 0..cancels {
            let uri = if qkind == "task" { format!("/tasks/{qid}/cancel") } else { format!("/sessions/{qid}/cancel") };
            let _ = app.request("POST", &uri, Some(json!({"reason": "queued"})));
        }
        if !wait_file("h_done.txt", 15) {
            crate::common::machinery_failure("c11.queued: the holder did not finish");
        }
        // let the queued one finish too (the log goes quiet)
        let mut len = app.log_events().len();
        let mut quiet = 0;
        let t0 = Instant::now();
        while quiet < 5 && t0.elapsed() < Duration::from_secs(10) {
            std::thread::sleep(Duration::from_millis(20));
            let now = app.log_events().len();
            quiet = if now == len { quiet + 1 } else { 0 };
            len = now;
        }
        report.eval(Some(&("queued", holder, queued, action)));
        report.count("queued_histories", 1);
        if app.root.join("q.txt").exists() {
            report.count("queued_mutations_that_ran_afterwards", 1);
        }
        if app.root.join("witness.txt").exists() {
            report.violation(
                &format!("C11:queued_mutation_ran_during_holder:{queued}:{action}"),
                json!({"engine": "P", "harness": "c11.queued", "holder": holder, "queued": queued, "action": action}),
                &format!("a {holder} holds the workspace lock (sleep 0.4 between its two writes); the {queued} that arrived meanwhile ({action}) wrote q.txt before the holder ended"),
            );
        }
    });
    // a RUNNING task that is cancelled while a descendant of its shell (output redirected away from
    // the task's pipes) still has a write ahead of it: once the task has ended cancelled and the
    // lock has passed on, nothing of it may still change the workspace
    if !report.over_cap() {
        let app = crate::provx::App::new(rt.clone(), None);
        let thread = app.ensure_thread();
        let (_, b) = app.request("POST", "/tasks", Some(json!({"tool": "bash", "args": {"command": "echo h > h.txt; sh -c 'sleep 0.9; echo late > late.txt' >/dev/null 2>&1", "cwd": "."}})));
        let tid = serde_json::from_slice::<Value>(&b).ok().and_then(|v| v["task_id"].as_str().map(|s| s.to_string())).unwrap_or_default();
        let t0 = Instant::now();
        while !app.root.join("h.txt").exists() && t0.elapsed() < Duration::from_secs(10) {
            std::thread::sleep(Duration::from_millis(5));
        }
        if tid.is_empty() || !app.root.join("h.txt").exists() {
            crate::common::machinery_failure("c11.queued: the task with a descendant did not start");
        }
        std::thread::sleep(Duration::from_millis(150));
        let _ = app.request("POST", &format!("/tasks/{tid}/cancel"), Some(json!({"reason": "mid-run"})));
        let _ = app.request("POST", &format!("/threads/{thread}/messages"), Some(json!({"content": json!({"tool": "bash", "args": {"command": "sleep 1.3; if [ -e late.txt ]; then echo overlapped > witness.txt; fi; echo done > h_done.txt", "cwd": "."}}).to_string()})));
        let t0 = Instant::now();
        while !app.root.join("h_done.txt").exists() && t0.elapsed() < Duration::from_secs(15) {
            std::thread::sleep(Duration::from_millis(10));
        }
        if !app.root.join("h_done.txt").exists() {
            crate::common::machinery_failure("c11.queued: the mutation after the cancelled task did not finish");
        }
        report.eval(Some(&("queued", "cancelled_task_with_descendant")));
        report.count("queued_histories", 1);
        if app.root.join("witness.txt").exists() {
            report.violation(
                "C11:cancelled_task_still_mutating",
                json!({"engine": "P", "harness": "c11.queued", "holder": "task whose shell runs a child with redirected output", "queued": "session_tool", "action": "cancel_running"}),
                "a running task was cancelled (status cancelled, lock released) while a child of its shell still had a write ahead of it; the write landed 0.7 s later, while the next mutating tool call was running under the lock",
            );
        }
    }
    // a holder whose tool call TIMES OUT: the call ends in tool_failed and the lock is released; what
    // the timed-out execution still does afterwards must not land while the next mutation runs
    for kind in ["bash", "shell"] {
        if report.over_cap() {
            return;
        }
        let app = crate::provx::App::new(rt.clone(), None);
        let thread = app.ensure_thread();
        let post = |content: String| {
            let _ = app.request("POST", &format!("/threads/{thread}/messages"), Some(json!({"content": content})));
        };
        post(json!({"tool": kind, "args": {"command": "echo h > h.txt; sleep 0.5; echo late > late.txt", "cwd": "."}, "timeout_ms": 100}).to_string());
        // (on a loaded machine the 100 ms may pass before the shell has written anything: the case
        // is then only "a call that timed out", which is fine - nothing below depends on h.txt)
        let t0 = Instant::now();
        while !app.root.join("h.txt").exists() && t0.elapsed() < Duration::from_secs(2) {
            std::thread::sleep(Duration::from_millis(5));
        }
        if !app.root.join("h.txt").exists() {
            report.count("timed_out_holders_killed_before_their_first_write", 1);
        }
        post(json!({"tool": "bash", "args": {"command": "sleep 0.9; if [ -e late.txt ]; then echo overlapped > witness.txt; fi; echo done > h_done.txt", "cwd": "."}}).to_string());
        let t0 = Instant::now();
        while !app.root.join("h_done.txt").exists() && t0.elapsed() < Duration::from_secs(15) {
            std::thread::sleep(Duration::from_millis(10));
        }
        if !app.root.join("h_done.txt").exists() {
            crate::common::machinery_failure("c11.queued: the second mutation did not finish");
        }
        report.eval(Some(&("queued", "timed_out_holder", kind)));
        report.count("queued_histories", 1);
        let timed_out = app.log_events().iter().any(|e| matches!(&e.kind, EventKind::ToolFailed { error, .. } if error.contains("timeout")));
        if !timed_out {
            report.info(format!("c11.queued: the {kind} holder with timeout_ms 100 did not time out"));
        }
        if app.root.join("witness.txt").exists() {
            report.violation(
                &format!("C11:timed_out_execution_still_mutating:{kind}"),
                json!({"engine": "P", "harness": "c11.queued", "holder": format!("{kind} tool with timeout_ms 100"), "queued": "session_tool", "action": "none"}),
                &format!("a {kind} tool call (sleep 0.5 between two writes, timeout_ms 100) ended in tool_failed(timeout) and released the workspace lock; its second write landed 0.4 s later, while the next mutating tool call was running under the lock"),
            );
        }
    }
}

pub fn replay(report: &Report, case: &Value) {
    let all = [In::WriteA, In::WriteB, In::Patch, In::PatchMove, In::CheckpointCreate, In::WriteTimeout0, In::TaskBash, In::AgentWrite, In::BashTool, In::ShellAlias, In::Read, In::Ls];
    let inputs: Vec<In> = case["inputs"].as_array().map(|a| a.iter().filter_map(|v| all.iter().copied().find(|i| format!("{i:?}") == v.as_str().unwrap_or(""))).collect()).unwrap_or_default();
    if case["harness"] == "c11.queued" {
        rip_kernel::verif::clear();
        *report.replay_case_slot() = Some(crate::common::normalise_case(case));
        queued_histories(report);
        return;
    }
    if case["whole_config"] == true {
        run_config(report, &inputs, case["bound"].as_u64().unwrap_or(1) as usize);
        return;
    }
    let prefix: Vec<usize> = case["choice_points_only"].as_array().map(|a| a.iter().filter_map(|v| v.as_u64().map(|x| x as usize)).collect()).unwrap_or_default();
    let rt = Arc::new(tokio::runtime::Builder::new_multi_thread().worker_threads(1).enable_all().build().expect("rt"));
    let (world, actors) = make_world(&rt, &inputs);
    let exec = crate::sched::run_once(actors, &prefix, true, Some(FILTER.to_vec()));
    println!("replay: {:?}", exec.schedule_string());
    report.eval(Some(&"replay"));
    let mut so = false;
    check_exec(report, &inputs, &world, &exec, &mut so);
}

pub fn run(opts: Opts) -> i32 {
    let report = Report::new("C11", "model_checking", opts.clone());
    report.set_rule(
        "engine S: every unordered pair (thorough: plus triples at bound 1) of inputs {write a, write b, apply_patch, checkpoint create, write with timeout_ms 0 (ends in tool_failed), a background bash task that writes a file, a provider run whose model calls write (agent-loop tool path), read, \
         ls} as real run_session futures linked to one thread on one engine; all interleavings at workspace-lock / tool-semaphore / guard \
         and handler span / seq-lock / publish hooks with <=1 (quick) / <=2 (thorough) preemptions; state = distinct executed schedule; every config with a read-only tool must show the read-only handler overlapping the other execution in at least one interleaving; plus 15 real-time histories with a QUEUED mutation (holder task / session shell tool x queued task / session write x {nothing, cancel, cancel twice}) witnessed by the holder itself",
    );
    report.assume("tool handlers run on tokio's blocking pool and a task's child process and pumps on the runtime: the actor waits for them in place (external work never depends on a parked actor)");
    report.assume("a timeout_ms on a tool is an input, not a schedule (the timed-out tool keeps running after tool_failed): see DESIGN.md known limitation");
    crate::sched::install_hooks();
    if let Some(path) = &opts.replay {
        let case = crate::common::load_replay_case(path);
        replay(&report, &case);
        return report.finish();
    }
    let tier = report.tier();
    let all = [In::WriteA, In::WriteB, In::Patch, In::PatchMove, In::CheckpointCreate, In::WriteTimeout0, In::TaskBash, In::AgentWrite, In::BashTool, In::ShellAlias, In::Read, In::Ls];
    let mut configs: Vec<(Vec<In>, usize)> = Vec::new();
    for (i, a) in all.iter().enumerate() {
        for b in &all[i..] {
            configs.push((vec![*a, *b], tier.pick(1, 2)));
        }
    }
    if tier == Tier::Thorough {
        configs.push((vec![In::WriteA, In::WriteB, In::Patch], 1));
        configs.push((vec![In::WriteA, In::Read, In::WriteB], 1));
    }
    report.set_extra("configs", json!(configs.len()));
    report.sample(json!({"inputs": ["WriteA", "WriteB"], "bound": tier.pick(1, 2)}));
    report.sample(json!({"inputs": ["WriteA", "Read"], "bound": tier.pick(1, 2)}));
    configs.par_iter().for_each(|(inputs, bound)| {
        if report.over_cap() {
            return;
        }
        run_config(&report, inputs, *bound);
    });
    // engine P part: the real runtime, no scheduler hooks
    rip_kernel::verif::clear();
    queued_histories(&report);
    report.finish()
}
