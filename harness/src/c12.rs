//! C12 — patch application is all-or-nothing and exact when it succeeds.
//!
//! Bounded exhaustive enumeration of patch documents x workspace states against a boring
//! reference model (a map path -> bytes). The real `Workspace::apply_patch` runs on a real
//! directory for every case.

use std::collections::BTreeMap;
use std::path::Path;

use rayon::prelude::*;
use rip_workspace::Workspace;
use serde_json::{json, Value};

use crate::common::{scratch_dir, Opts, Report, Tier};

type Files = BTreeMap<String, Vec<u8>>;

#[derive(Clone, Debug, PartialEq, Eq, Hash)]
enum Op {
    Add { path: String, body: Vec<String> },
    Delete { path: String },
    Update { path: String, move_to: Option<String>, hunks: Vec<Vec<(char, String)>> },
}

fn patch_text(ops: &[Op]) -> String {
    let mut s = String::from("*** Begin Patch\n");
    for op in ops {
        match op {
            Op::Add { path, body } => {
                s.push_str(&format!("*** Add File: {path}\n"));
                for l in body {
                    s.push_str(&format!("+{l}\n"));
                }
            }
            Op::Delete { path } => s.push_str(&format!("*** Delete File: {path}\n")),
            Op::Update { path, move_to, hunks } => {
                s.push_str(&format!("*** Update File: {path}\n"));
                if let Some(m) = move_to {
                    s.push_str(&format!("*** Move to: {m}\n"));
                }
                for h in hunks {
                    s.push_str("@@\n");
                    for (c, l) in h {
                        s.push_str(&format!("{c}{l}\n"));
                    }
                }
            }
        }
    }
    s.push_str("*** End Patch");
    s
}

// ---------------------------------------------------------------------------------------------
// Reference model

#[derive(Debug)]
struct RefOk {
    files: Files,
    changed: Vec<String>,
}

fn split_ref(text: &str) -> (Vec<String>, bool, &'static str, bool) {
    // (lines, trailing newline, line ending, pure style?)
    let crlf = text.matches("\r\n").count();
    let lf = text.matches('\n').count();
    let pure = crlf == 0 || crlf == lf;
    let ending = if crlf > 0 { "\r\n" } else { "\n" };
    let trailing = text.ends_with('\n');
    let mut lines: Vec<String> = Vec::new();
    if !text.is_empty() {
        let body = if trailing { &text[..text.len() - 1] } else { text };
        for l in body.split('\n') {
            lines.push(l.strip_suffix('\r').unwrap_or(l).to_string());
        }
    }
    (lines, trailing, ending, pure)
}

fn apply_hunks_ref(text: &str, hunks: &[Vec<(char, String)>]) -> Result<(String, bool), String> {
    let (mut lines, trailing, ending, pure) = split_ref(text);
    let mut cursor = 0usize;
    for h in hunks {
        let before: Vec<&String> = h.iter().filter(|(c, _)| *c != '+').map(|(_, l)| l).collect();
        let after: Vec<String> = h.iter().filter(|(c, _)| *c != '-').map(|(_, l)| l.clone()).collect();
        if before.is_empty() {
            lines.extend(after);
            cursor = lines.len();
            continue;
        }
        let mut found = None;
        if before.len() <= lines.len() {
            for i in cursor..=(lines.len() - before.len()) {
                if (0..before.len()).all(|k| &lines[i + k] == before[k]) {
                    found = Some(i);
                    break;
                }
            }
        }
        let Some(pos) = found else {
            return Err("missing context".into());
        };
        let n_after = after.len();
        lines.splice(pos..pos + before.len(), after);
        cursor = pos + n_after;
    }
    if lines.is_empty() {
        return Ok((String::new(), pure));
    }
    let mut out = lines.join(ending);
    if trailing {
        out.push_str(ending);
    }
    Ok((out, pure))
}

fn is_dir_prefix(files: &Files, path: &str) -> bool {
    let pre = format!("{path}/");
    files.keys().any(|k| k.starts_with(&pre))
}

fn parent_is_file(files: &Files, path: &str) -> bool {
    let mut p = path;
    while let Some(idx) = p.rfind('/') {
        p = &p[..idx];
        if files.contains_key(p) {
            return true;
        }
    }
    false
}

/// Returns Ok(result) / Err(reason). `inexact` is set when a touched file has mixed line endings
/// (the property's style clause is undefined there; content is then compared modulo CR).
fn reference(files: &Files, ops: &[Op], inexact: &mut bool) -> Result<RefOk, String> {
    let mut f = files.clone();
    let mut changed: Vec<String> = Vec::new();
    for op in ops {
        match op {
            Op::Add { path, body } => {
                if f.contains_key(path) || is_dir_prefix(&f, path) {
                    return Err("add: exists".into());
                }
                if parent_is_file(&f, path) {
                    return Err("add: parent is a file".into());
                }
                let mut content = body.join("\n");
                if !content.is_empty() {
                    content.push('\n');
                }
                f.insert(path.clone(), content.into_bytes());
                changed.push(path.clone());
            }
            Op::Delete { path } => {
                if !f.contains_key(path) {
                    return Err("delete: missing or not a file".into());
                }
                f.remove(path);
                changed.push(path.clone());
            }
            Op::Update { path, move_to, hunks } => {
                let Some(bytes) = f.get(path).cloned() else {
                    return Err("update: missing or not a file".into());
                };
                let Ok(text) = String::from_utf8(bytes) else {
                    return Err("update: not utf-8".into());
                };
                let (updated, pure) = apply_hunks_ref(&text, hunks)?;
                if !pure {
                    *inexact = true;
                }
                f.insert(path.clone(), updated.into_bytes());
                changed.push(path.clone());
                if let Some(m) = move_to {
                    if f.contains_key(m) || is_dir_prefix(&f, m) {
                        return Err("move: target exists".into());
                    }
                    if parent_is_file(&f, m) {
                        return Err("move: parent is a file".into());
                    }
                    let v = f.remove(path).unwrap();
                    f.insert(m.clone(), v);
                    changed.push(m.clone());
                }
            }
        }
    }
    changed.sort();
    changed.dedup();
    Ok(RefOk { files: f, changed })
}

// ---------------------------------------------------------------------------------------------
// Real execution

fn materialize(root: &Path, files: &Files) {
    // wipe everything except .rip
    if let Ok(rd) = std::fs::read_dir(root) {
        for e in rd.flatten() {
            if e.file_name() == ".rip" {
                continue;
            }
            let p = e.path();
            if p.is_dir() {
                let _ = std::fs::remove_dir_all(&p);
            } else {
                let _ = std::fs::remove_file(&p);
            }
        }
    }
    for (k, v) in files {
        let p = root.join(k);
        if let Some(parent) = p.parent() {
            let _ = std::fs::create_dir_all(parent);
        }
        std::fs::write(&p, v).expect("materialize");
    }
}

fn observe(root: &Path) -> (Files, Vec<String>) {
    let snap = crate::common::tree_snapshot_skipping(root, ".rip");
    let mut files = Files::new();
    let mut dirs = Vec::new();
    for (k, v) in snap {
        if k.starts_with(".rip") {
            continue;
        }
        match v {
            Some(bytes) => {
                files.insert(k, bytes);
            }
            None => dirs.push(k),
        }
    }
    (files, dirs)
}

fn strip_cr(files: &Files) -> Files {
    files
        .iter()
        .map(|(k, v)| (k.clone(), v.iter().copied().filter(|b| *b != b'\r').collect()))
        .collect()
}

fn show(files: &Files) -> Value {
    Value::Object(
        files
            .iter()
            .map(|(k, v)| (k.clone(), json!(String::from_utf8_lossy(v).to_string())))
            .collect(),
    )
}

fn case_json(files: &Files, patch: &str, via: &str) -> Value {
    json!({
        "engine": "H-inputs",
        "harness": "c12.apply_patch",
        "via": via,
        "workspace": files.iter().map(|(k, v)| (k.clone(), json!(hex::encode(v)))).collect::<serde_json::Map<_, _>>(),
        "workspace_text": show(files),
        "patch": patch,
    })
}

enum RealOutcome {
    Ok(Vec<String>),
    Err(String),
}

fn run_real(root: &Path, ws: &Workspace, patch: &str, via_tool: bool, rt: Option<&tokio::runtime::Runtime>) -> RealOutcome {
    if !via_tool {
        return match ws.apply_patch(patch) {
            Ok(r) => RealOutcome::Ok(r.changed_files),
            Err(e) => RealOutcome::Err(e.to_string()),
        };
    }
    // through the registered `apply_patch` tool (no checkpoint hook: C14 covers that part)
    let registry = std::sync::Arc::new(rip_tools::ToolRegistry::default());
    rip_tools::register_builtin_tools(
        &registry,
        rip_tools::BuiltinToolConfig {
            workspace_root: root.to_path_buf(),
            ..Default::default()
        },
    );
    let runner = rip_tools::ToolRunner::new(registry, 1);
    let mut seq = 0u64;
    let events = rt.expect("rt").block_on(runner.run(
        "s",
        &mut seq,
        rip_tools::ToolInvocation {
            name: "apply_patch".into(),
            args: json!({"patch": patch}),
            timeout_ms: None,
        },
    ));
    for e in &events {
        if let rip_kernel::EventKind::ToolEnded { exit_code, artifacts, .. } = &e.kind {
            if *exit_code == 0 {
                let changed = artifacts
                    .as_ref()
                    .and_then(|a| a.get("changed_files"))
                    .and_then(|v| v.as_array())
                    .map(|a| a.iter().filter_map(|x| x.as_str().map(|s| s.to_string())).collect())
                    .unwrap_or_default();
                return RealOutcome::Ok(changed);
            }
            return RealOutcome::Err(format!("tool exit {exit_code}"));
        }
        if let rip_kernel::EventKind::ToolFailed { error, .. } = &e.kind {
            return RealOutcome::Err(error.clone());
        }
    }
    RealOutcome::Err("no terminal tool frame".into())
}

/// Judges one case. `expected` None means "malformed envelope: must fail".
fn judge(
    report: &Report,
    root: &Path,
    ws: &Workspace,
    files: &Files,
    patch: &str,
    expected: Option<(&Result<RefOk, String>, bool)>,
    via_tool: bool,
    rt: Option<&tokio::runtime::Runtime>,
) {
    let via = if via_tool { "tool" } else { "workspace" };
    materialize(root, files);
    let outcome = std::panic::catch_unwind(std::panic::AssertUnwindSafe(|| run_real(root, ws, patch, via_tool, rt)));
    let outcome = match outcome {
        Ok(o) => o,
        Err(_) => {
            report.violation("C12:panic", case_json(files, patch, via), "apply_patch panicked");
            return;
        }
    };
    let (after, dirs_after) = observe(root);
    let ref_fails = match expected {
        None => true,
        Some((r, _)) => r.is_err(),
    };
    match (&outcome, ref_fails) {
        (RealOutcome::Err(_), true) => {
            if &after != files {
                report.violation(
                    "C12:atomicity:failed_patch_changed_files",
                    case_json(files, patch, via),
                    &format!("patch failed but workspace changed: before={} after={}", show(files), show(&after)),
                );
            }
            // left-over empty directories: information only
            let expected_dirs: Vec<String> = {
                let mut d = std::collections::BTreeSet::new();
                for k in files.keys() {
                    let mut p = k.as_str();
                    while let Some(i) = p.rfind('/') {
                        p = &p[..i];
                        d.insert(format!("{p}/"));
                    }
                }
                d.into_iter().collect()
            };
            if dirs_after.iter().any(|d| !expected_dirs.contains(d)) {
                report.count("info_leftover_empty_dirs_after_failure", 1);
            }
        }
        (RealOutcome::Err(e), false) => {
            report.violation(
                "C12:exact:reference_succeeds_real_fails",
                case_json(files, patch, via),
                &format!("reference applies the patch but the implementation failed: {e}"),
            );
        }
        (RealOutcome::Ok(_), true) => {
            let why = match expected {
                None => "malformed envelope".to_string(),
                Some((Err(e), _)) => e.clone(),
                _ => String::new(),
            };
            report.violation(
                "C12:exact:reference_fails_real_succeeds",
                case_json(files, patch, via),
                &format!("implementation accepted a patch the reference refuses ({why}); after={}", show(&after)),
            );
        }
        (RealOutcome::Ok(changed), false) => {
            let (Ok(refok), inexact) = expected.map(|(r, i)| (r.as_ref(), i)).unwrap() else {
                return;
            };
            let same = if inexact {
                strip_cr(&after) == strip_cr(&refok.files)
            } else {
                after == refok.files
            };
            if !same {
                let sig = if files.values().any(|v| v.is_empty())
                    && strip_cr(&after)
                        .iter()
                        .any(|(k, v)| v.first() == Some(&b'\n') && refok.files.get(k).map(|r| r.first() != Some(&b'\n')).unwrap_or(false))
                {
                    "C12:exact:empty_file_update_leading_blank_line"
                } else {
                    "C12:exact:content"
                };
                report.violation(
                    sig,
                    case_json(files, patch, via),
                    &format!("workspace after success differs from the reference: real={} reference={}", show(&after), show(&refok.files)),
                );
            }
            let mut c = changed.clone();
            c.sort();
            c.dedup();
            if c != refok.changed {
                report.violation(
                    "C12:exact:changed_files",
                    case_json(files, patch, via),
                    &format!("changed_files {:?} != files named by the patch {:?}", c, refok.changed),
                );
            }
        }
    }
}

// ---------------------------------------------------------------------------------------------
// Alphabets

fn contents() -> Vec<Option<Vec<u8>>> {
    vec![
        None,
        Some(b"".to_vec()),
        Some(b"x\n".to_vec()),
        Some(b"x\ny\n".to_vec()),
        Some(b"x".to_vec()),
        Some(b"x\r\ny\r\n".to_vec()),
        Some(vec![0xff, 0xfe, b'\n']),
        Some(b"x\ny\nx\ny\n".to_vec()),
        Some(b"x\r\ny\n".to_vec()),
        // CRLF and no final newline (both style clauses at once)
        Some(b"x\r\ny".to_vec()),
        // a first line that starts with dashes (an SQL / Lua comment)
        Some(b"-- c\ny\n".to_vec()),
    ]
}

fn hunk_set() -> Vec<Vec<Vec<(char, String)>>> {
    let l = |c: char, s: &str| (c, s.to_string());
    vec![
        // each entry is the hunk list of one update op
        vec![vec![l('-', "x"), l('+', "z")]],                       // replace first x
        vec![vec![l(' ', "x"), l('+', "z")]],                       // insert after x
        vec![vec![l('-', "y")]],                                    // delete y
        vec![vec![l('-', "q"), l('+', "z")]],                       // missing context
        vec![vec![l('+', "z")]],                                    // pure insertion (appends)
        vec![vec![l(' ', "x"), l('-', "y"), l('+', "z")]],          // context + change
        vec![vec![l('-', "x"), l('+', "z")], vec![l('-', "x"), l('+', "w")]], // forward cursor: needs two x
        vec![vec![l('-', "y"), l('+', "z")], vec![l('-', "x"), l('+', "w")]], // second hunk behind the cursor
        vec![vec![l('-', "x"), l('-', "y")]],                       // delete both lines -> empty
        vec![vec![l(' ', "y"), l('+', "")]],                        // add an empty line
        vec![vec![l('-', "x"), l('+', "x")]],                       // no-op rewrite
        vec![vec![l('+', "z")], vec![l('-', "z"), l('+', "w")]],    // insertion then edit behind cursor
        // lines whose own text starts with dashes / pluses: the patch lines read `--- c` / `+++ d`
        vec![vec![l('-', "-- c")]],                                 // remove a `-- c` line (first hunk line)
        vec![vec![l('+', "++ d")]],                                 // insert a `++ d` line
        vec![vec![l('-', "-- c"), l('+', "++ d")]],                 // replace one by the other
    ]
}

fn single_ops(paths: &[&str], bodies: &[Vec<String>], hunks: &[Vec<Vec<(char, String)>>]) -> Vec<Op> {
    let mut ops = Vec::new();
    for p in paths {
        for b in bodies {
            ops.push(Op::Add { path: p.to_string(), body: b.clone() });
        }
        ops.push(Op::Delete { path: p.to_string() });
    }
    for p in paths {
        for h in hunks {
            ops.push(Op::Update { path: p.to_string(), move_to: None, hunks: h.clone() });
        }
    }
    for p in paths {
        for q in paths {
            if p == q {
                continue;
            }
            for h in hunks.iter().take(3) {
                ops.push(Op::Update { path: p.to_string(), move_to: Some(q.to_string()), hunks: h.clone() });
            }
        }
    }
    // move onto itself (target exists)
    ops.push(Op::Update { path: "a".into(), move_to: Some("a".into()), hunks: hunks[0].clone() });
    ops
}

fn malformed() -> Vec<String> {
    let good_add = "*** Add File: n\n+z\n";
    vec![
        "".into(),
        "not a patch".into(),
        format!("{good_add}*** End Patch"),
        format!("*** Begin Patch\n{good_add}"),
        format!("*** Begin Patch\n{good_add}*** Frobnicate: a\n*** End Patch"),
        format!("*** Begin Patch\n{good_add}*** Add File: m\nz\n*** End Patch"),
        format!("*** Begin Patch\n{good_add}*** Update File: a\n*** End Patch"),
        format!("*** Begin Patch\n{good_add}*** Update File: a\n@@\n*x\n*** End Patch"),
        format!("*** Begin Patch\n{good_add}*** Add File: /abs\n+z\n*** End Patch"),
        format!("*** Begin Patch\n{good_add}*** Add File: ../up\n+z\n*** End Patch"),
        format!("*** Begin Patch\n{good_add}*** Add File: d/../../up\n+z\n*** End Patch"),
        format!("*** Begin Patch\n{good_add}*** Add File: \n+z\n*** End Patch"),
        format!("*** Begin Patch\n{good_add}*** Delete File: ../a\n*** End Patch"),
        format!("*** Begin Patch\n{good_add}*** Update File: a\n*** Move to: ../a\n@@\n-x\n+z\n*** End Patch"),
        format!("*** Begin Patch\n{good_add}*** Update File: a\n@@\n\n*** End Patch"),
        format!(" *** Begin Patch\n{good_add}*** End Patch"),
    ]
}

fn states(tier: Tier) -> Vec<Files> {
    let cs = contents();
    let mut out = Vec::new();
    let (bs, ds): (Vec<usize>, Vec<usize>) = match tier {
        Tier::Quick => (vec![0, 2], vec![0, 3]),
        Tier::Thorough => ((0..7).collect(), (0..7).collect()),
    };
    for a in 0..cs.len() {
        for &b in &bs {
            for &d in &ds {
                let mut f = Files::new();
                if let Some(v) = &cs[a] {
                    f.insert("a".into(), v.clone());
                }
                if let Some(v) = &cs[b] {
                    f.insert("b".into(), v.clone());
                }
                if let Some(v) = &cs[d] {
                    f.insert("d/c".into(), v.clone());
                }
                out.push(f);
            }
        }
    }
    out
}

pub fn replay(report: &Report, case: &Value) {
    let mut files = Files::new();
    if let Some(ws) = case.get("workspace").and_then(|v| v.as_object()) {
        for (k, v) in ws {
            files.insert(k.clone(), hex::decode(v.as_str().unwrap_or("")).unwrap_or_default());
        }
    }
    let patch = case.get("patch").and_then(|v| v.as_str()).unwrap_or("").to_string();
    let dir = scratch_dir("c12r");
    let ws = Workspace::new(dir.path()).expect("ws");
    materialize(dir.path(), &files);
    let res = ws.apply_patch(&patch);
    let (after, _) = observe(dir.path());
    println!("replay: result={:?}\n before={}\n after={}", res.as_ref().map(|r| r.changed_files.clone()).map_err(|e| e.to_string()), show(&files), show(&after));
    report.eval(Some(&"replay"));
    if res.is_err() && after != files {
        report.violation("C12:atomicity:failed_patch_changed_files", case.clone(), "failed patch changed the workspace");
    }
}

pub fn run(opts: Opts) -> i32 {
    let report = Report::new("C12", "exploration", opts.clone());
    report.set_rule(
        "every patch of <=2 ops (<=3 over a reduced op set in thorough) from {Add p body, Delete p, Update p [Move q] hunks} with \
         p,q in {a,b,d/c,e/f,a/z (parent is a file)}, 12 hunk lists over lines {x,y,z,w,''}, plus 16 malformed envelopes, applied to every workspace state \
         (a in 10 contents incl. empty/CRLF/no-final-newline/CRLF without a final newline/invalid UTF-8/mixed; b, d/c from a tier-dependent subset); a case is \
         distinct by (workspace state, patch text); non-trivial = the patch parses (reference reaches the op loop)",
    );
    report.assume("reference model: first match at or after the cursor; a hunk without context appends; an empty file has zero lines; failure reasons not compared");
    report.assume("mixed LF/CRLF files: content compared modulo CR (style undefined); left-over empty directories after a failed patch are information, not judged");
    if let Some(path) = &opts.replay {
        let case = crate::common::load_replay_case(path);
        replay(&report, &case);
        return report.finish();
    }
    std::panic::set_hook(Box::new(|_| {}));
    let tier = report.tier();
    // "a/z": its parent is a regular file in every state where a exists (creation fails half-way)
    let paths = ["a", "b", "d/c", "e/f", "a/z"];
    let bodies: Vec<Vec<String>> = vec![vec![], vec!["z".into()], vec!["z".into(), "".into(), "w".into()]];
    let hunks = hunk_set();
    let singles = single_ops(&paths, &bodies, &hunks);
    let states = states(tier);
    report.set_extra("single_ops", json!(singles.len()));
    report.set_extra("workspace_states", json!(states.len()));
    report.sample(json!({"patch": patch_text(&[singles[0].clone(), singles[30].clone()]), "workspace": show(&states[3])}));
    report.sample(json!({"patch": patch_text(&[singles[singles.len() - 2].clone()]), "workspace": show(&states[states.len() - 1])}));
    report.sample(json!({"malformed": malformed()[5]}));

    // patches: all single + all ordered pairs
    let mut patches: Vec<Vec<Op>> = Vec::new();
    for a in &singles {
        patches.push(vec![a.clone()]);
    }
    for a in &singles {
        for b in &singles {
            patches.push(vec![a.clone(), b.clone()]);
        }
    }
    if tier == Tier::Thorough {
        // three-op patches over a reduced op set (every op kind, colliding paths a/b)
        let reduced: Vec<Op> = single_ops(&["a", "b"], &bodies[1..2], &hunks[..5]);
        for a in &reduced {
            for b in &reduced {
                for c in &reduced {
                    patches.push(vec![a.clone(), b.clone(), c.clone()]);
                }
            }
        }
    }
    report.set_extra("patches", json!(patches.len()));
    let mal = malformed();

    states.par_iter().for_each(|files| {
        if report.over_cap() {
            return;
        }
        let dir = scratch_dir("c12");
        let root = dir.path().join("root");
        std::fs::create_dir_all(&root).unwrap();
        let ws = Workspace::new(&root).expect("workspace");
        for ops in &patches {
            if report.over_cap() {
                return;
            }
            let text = patch_text(ops);
            let mut inexact = false;
            let expected = reference(files, ops, &mut inexact);
            report.eval(Some(&(files, &text)));
            judge(&report, &root, &ws, files, &text, Some((&expected, inexact)), false, None);
        }
        for m in &mal {
            report.eval(None::<&u8>);
            report.count("malformed_cases", 1);
            judge(&report, &root, &ws, files, m, None, false, None);
        }
    });

    // the same through the registered `apply_patch` tool: all single-op patches on every state
    let rt = tokio::runtime::Builder::new_current_thread().enable_all().build().expect("rt");
    for files in states.iter() {
        if report.over_cap() {
            break;
        }
        let dir = scratch_dir("c12t");
        let root = dir.path().join("root");
        std::fs::create_dir_all(&root).unwrap();
        let ws = Workspace::new(&root).expect("workspace");
        for op in singles.iter().step_by(tier.pick(3, 1)) {
            let ops = vec![op.clone()];
            let text = patch_text(&ops);
            let mut inexact = false;
            let expected = reference(files, &ops, &mut inexact);
            report.eval(Some(&("tool", files, &text)));
            report.count("via_tool_cases", 1);
            judge(&report, &root, &ws, files, &text, Some((&expected, inexact)), true, Some(&rt));
        }
    }
    let _ = std::panic::take_hook();
    report.finish()
}
