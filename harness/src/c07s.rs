//! C07, schedule part — the posting handler and the run it spawns, as two actors.
//!
//! `POST /threads/{id}/messages` appends the message, appends run_spawned and hands the session
//! task to the runtime. Through the spawn seam the harness keeps that task and runs it as an actor
//! of its own, so every interleaving of the handler's remaining steps with the run's steps is
//! explored (engine S, hooks of the seq lock, log writer, publishes, workspace lock). Oracle: the
//! lifecycle grammar on the log, and on the thread stream run_spawned precedes every frame of its
//! run (side effects, run_ended).

use std::sync::{Arc, Mutex};

use axum::body::Body;
use axum::http::Request;
use rip_kernel::verif::SpawnedFuture;
use rip_kernel::EventKind;
use serde_json::{json, Value};
use tower::ServiceExt;

use crate::common::Report;
use crate::fixture::Fx;
use crate::sched::{explore, ActorBody, ActorCtx, ActorEnv, Exec};

struct SpawnSink {
    sink: Arc<Mutex<Vec<SpawnedFuture>>>,
}

impl ActorEnv for SpawnSink {
    fn spawn(&self, _name: &str, fut: SpawnedFuture) -> Option<SpawnedFuture> {
        self.sink.lock().unwrap().push(fut);
        None
    }
}

struct World {
    fx: Fx,
    thread: String,
    status: Arc<Mutex<Option<u16>>>,
}

const FILTER: [&str; 11] = ["start", "cont.next_seq", "log.writer", "log.appended", "cont.publish", "sess.publish", "sess.buffer", "ws.lock", "tool.semaphore", "c07s.spawned", "c07s.posted"];

pub fn inputs() -> Vec<(&'static str, String)> {
    vec![
        ("write", json!({"tool": "write", "args": {"path": "a.txt", "content": "A"}}).to_string()),
        ("read_missing", json!({"tool": "read", "args": {"path": "nope.txt"}}).to_string()),
        ("checkpoint", json!({"checkpoint": {"action": "create", "label": "l", "files": ["seed.txt"]}}).to_string()),
        ("prompt_without_provider", "hello".to_string()),
    ]
}

fn make_world(rt: &Arc<tokio::runtime::Runtime>, content: &str) -> (World, Vec<ActorBody>) {
    let fx = Fx::new(rt.clone());
    std::fs::write(fx.root.join("seed.txt"), "seed\n").unwrap();
    let thread = fx.store().ensure_default().expect("thread");
    let app = {
        let _g = rt.enter();
        ripd::verif_export::VerifApp::new(fx.engine.clone(), false)
    };
    let router = app.router();
    let sink: Arc<Mutex<Vec<SpawnedFuture>>> = Arc::new(Mutex::new(Vec::new()));
    let status = Arc::new(Mutex::new(None));
    let posted = Arc::new(std::sync::atomic::AtomicBool::new(false));
    let mut actors: Vec<ActorBody> = Vec::new();
    {
        let (rt2, sink, status, posted, thread, content) = (rt.clone(), sink.clone(), status.clone(), posted.clone(), thread.clone(), content.to_string());
        actors.push(Box::new(move |ctx: &ActorCtx| {
            let _g = rt2.enter();
            ctx.set_env(Box::new(SpawnSink { sink }));
            let req = Request::builder().method("POST").uri(format!("/threads/{thread}/messages")).header("content-type", "application/json").body(Body::from(json!({"content": content}).to_string())).unwrap();
            let resp = ctx.block_on(router.oneshot(req)).expect("infallible");
            *status.lock().unwrap() = Some(resp.status().as_u16());
            posted.store(true, std::sync::atomic::Ordering::SeqCst);
        }));
    }
    {
        let (rt2, sink, posted) = (rt.clone(), sink.clone(), posted.clone());
        actors.push(Box::new(move |ctx: &ActorCtx| {
            let _g = rt2.enter();
            let (s2, p2) = (sink.clone(), posted.clone());
            ctx.yield_until("c07s.spawned", &move || !s2.lock().unwrap().is_empty() || p2.load(std::sync::atomic::Ordering::SeqCst));
            let fut = sink.lock().unwrap().pop();
            if let Some(fut) = fut {
                ctx.block_on(fut);
            }
        }));
    }
    (World { fx, thread, status }, actors)
}

fn check_exec(report: &Report, label: &str, world: &World, exec: &Exec) {
    let case = || {
        json!({"engine": "S", "harness": "c07s.post_and_run", "input": label,
            "choice_points_only": exec.decisions.iter().filter(|d| d.enabled.len() > 1).map(|d| d.chosen).collect::<Vec<_>>(),
            "schedule": exec.schedule_string(), "preemptions": exec.preemptions})
    };
    if exec.deadlock || !exec.panicked.is_empty() {
        report.violation(&format!("C07:schedule:deadlock_or_panic:{label}"), case(), &format!("deadlock={} panicked={:?}", exec.deadlock, exec.panicked));
        return;
    }
    if *world.status.lock().unwrap() != Some(202) {
        report.violation(&format!("C07:schedule:post_refused:{label}"), case(), &format!("POST messages answered {:?}", world.status.lock().unwrap()));
        return;
    }
    let events = world.fx.truth_all().unwrap_or_default();
    for (sig, msg) in lifecycle_violations_of(&events) {
        report.violation(&format!("C07:schedule:{sig}:{label}"), case(), &msg);
        return;
    }
    // thread stream: run_spawned precedes every frame of its run
    let thread_events: Vec<_> = events.iter().filter(|e| e.stream_id() == world.thread).collect();
    for (i, e) in thread_events.iter().enumerate() {
        let EventKind::ContinuityRunSpawned { run_session_id, .. } = &e.kind else { continue };
        let earlier = thread_events[..i].iter().find(|x| match &x.kind {
            EventKind::ContinuityRunEnded { run_session_id: r, .. } | EventKind::ContinuityToolSideEffects { run_session_id: r, .. } | EventKind::ContinuityContextSelectionDecided { run_session_id: r, .. } | EventKind::ContinuityContextCompiled { run_session_id: r, .. } => r == run_session_id,
            _ => false,
        });
        if let Some(x) = earlier {
            report.violation(
                &format!("C07:schedule:run_frame_before_run_spawned:{label}"),
                case(),
                &format!("the thread records {} of run {run_session_id} at seq {} before its run_spawned at seq {}", crate::fixture::kind_name(x), x.seq, e.seq),
            );
            return;
        }
    }
    if let Err(e) = world.fx.validated() {
        report.violation(&format!("C07:schedule:validated_replay:{label}"), case(), &format!("validated replay fails: {e}"));
    }
}

fn lifecycle_violations_of(events: &[rip_kernel::Event]) -> Vec<(String, String)> {
    crate::provx::lifecycle_violations(events)
}

pub fn run_config(report: &Report, label: &str, content: &str, bound: usize) {
    let rt = Arc::new(tokio::runtime::Builder::new_multi_thread().worker_threads(1).enable_all().build().expect("rt"));
    let mut orders = std::collections::HashSet::new();
    let stats = {
        let oc = &mut orders;
        explore(
            bound,
            u64::MAX,
            false,
            Some(FILTER.to_vec()),
            &|| report.over_cap(),
            &|| make_world(&rt, content),
            &mut |world: &World, exec: &Exec| {
                report.eval(Some(&("c07s", label, exec.trace_hash())));
                let kinds: Vec<String> = world.fx.truth_all().unwrap_or_default().iter().map(crate::fixture::kind_name).collect();
                oc.insert(kinds.join(","));
                check_exec(report, label, world, exec);
            },
        )
    };
    report.add_states(stats.distinct_traces.len() as u64, stats.steps);
    report.add_traces_validated(stats.executions);
    report.count("schedule_executions", stats.executions);
    report.count(&format!("schedule_executions[{label}]"), stats.executions);
    report.count(&format!("schedule_distinct_log_orders[{label}]"), orders.len() as u64);
    if stats.capped {
        report.not_exhaustive(&format!("c07s {label}: wall cap hit after {} executions at bound {bound}", stats.executions));
    }
}

pub fn replay(report: &Report, case: &Value) {
    let label = case["input"].as_str().unwrap_or("write").to_string();
    let content = inputs().into_iter().find(|(l, _)| *l == label).map(|(_, c)| c).unwrap_or_else(|| "hello".into());
    let prefix: Vec<usize> = case["choice_points_only"].as_array().map(|a| a.iter().filter_map(|v| v.as_u64().map(|x| x as usize)).collect()).unwrap_or_default();
    let rt = Arc::new(tokio::runtime::Builder::new_multi_thread().worker_threads(1).enable_all().build().expect("rt"));
    let (world, actors) = make_world(&rt, &content);
    let exec = crate::sched::run_once(actors, &prefix, false, Some(FILTER.to_vec()));
    println!("replay: {:?}", exec.schedule_string());
    report.eval(Some(&"replay"));
    check_exec(report, &label, &world, &exec);
}
