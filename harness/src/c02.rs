//! C02 — the truth log is append-only; read-only and no-op capabilities never write.
//!
//! Bounded exhaustive enumeration of write histories on the real store; after EVERY step the log
//! must extend its previous bytes by whole newline-terminated JSON frames only, every other
//! changed file must live in a cache / snapshot / workspace-.rip location, and in every reached
//! state the whole read-only / dry-run / no-op call set (over its small parameter domain, also on
//! unknown thread ids, with the caches dropped and after a restart) must add zero bytes.

use std::collections::BTreeMap;
use std::sync::Arc;

use axum::body::Body;
use axum::http::Request;
use rayon::prelude::*;
use ripd::{
    CompactionAutoScheduleV1Request, CompactionAutoV1Request, CompactionCutPointsV1Request, CompactionStatusV1Request,
    ContextSelectionStatusV1Request, ProviderCursorRotateV1Request, ProviderCursorStatusV1Request,
};
use serde_json::{json, Value};
use tower::ServiceExt;

use crate::common::{hash64, Opts, Report, Tier};
use crate::fixture::{new_rt, Fx};
use crate::hops::{apply, name, sequences, Track, H};

fn tree_hashes(fx: &Fx) -> BTreeMap<String, u64> {
    crate::common::tree_snapshot(fx.dir.path())
        .into_iter()
        .filter_map(|(k, v)| v.map(|b| (k, hash64(&b))))
        .collect()
}

fn allowed_change(path: &str) -> bool {
    path == "data/events.jsonl"
        || path.starts_with("data/continuity_streams/")
        || path.starts_with("data/continuities/")
        || path.starts_with("data/snapshots/")
        || path.starts_with("data/task_snapshots/")
        || path.starts_with("ws/.rip/")
}

fn check_suffix(before: &[u8], after: &[u8]) -> Result<usize, String> {
    if after.len() < before.len() || &after[..before.len()] != before {
        return Err(format!("previous log content ({} bytes) is not a prefix of the new content ({} bytes)", before.len(), after.len()));
    }
    let suffix = &after[before.len()..];
    if suffix.is_empty() {
        return Ok(0);
    }
    if *suffix.last().unwrap() != b'\n' {
        return Err("the added bytes do not end with a newline".into());
    }
    let mut n = 0;
    for line in suffix[..suffix.len() - 1].split(|b| *b == b'\n') {
        let v: Value = serde_json::from_slice(line).map_err(|e| format!("an added line is not JSON: {e}"))?;
        let o = v.as_object().ok_or("an added line is not a JSON object")?;
        for k in ["id", "session_id", "stream_kind", "stream_id", "timestamp_ms", "seq", "type"] {
            if !o.contains_key(k) {
                return Err(format!("an added frame lacks the envelope key {k}"));
            }
        }
        n += 1;
    }
    Ok(n)
}

/// Runs the read-only / no-op call set; returns the name of the first call that changed the log.
fn read_only_set(fx: &Fx, thread: &str, router: Option<&axum::Router>, full: bool) -> Option<(String, usize, usize)> {
    let store = fx.store();
    let mut len = fx.log_bytes().len();
    let mut offender = None;
    let mut prefix_broken: Option<(String, usize, usize)> = None;
    let mut probe = |what: String, fx: &Fx| {
        let now = fx.log_bytes().len();
        if now != len && offender.is_none() {
            offender = Some((what, len, now));
        }
        len = now;
    };
    let unknown = ["no-such-thread", "", "../events", "a/b"];
    let mut targets: Vec<String> = vec![thread.to_string()];
    if full {
        targets.extend(unknown.iter().map(|s| s.to_string()));
    } else {
        targets.push("no-such-thread".into());
        targets.push("../events".into());
    }
    let strides: Vec<Option<u64>> = if full { vec![None, Some(0), Some(1), Some(2), Some(3), Some(10_000)] } else { vec![Some(0), Some(1), Some(2)] };
    let limits: Vec<Option<u32>> = if full { vec![None, Some(0), Some(1), Some(32), Some(33), Some(u32::MAX)] } else { vec![Some(1), Some(33)] };
    for t in &targets {
        let _ = store.replay_events(t);
        probe(format!("replay_events({t:?})"), fx);
        for s in &strides {
            for l in &limits {
                let _ = store.compaction_cut_points_v1(t, CompactionCutPointsV1Request { stride_messages: *s, limit: *l });
                probe(format!("compaction_cut_points_v1({t:?},stride={s:?},limit={l:?})"), fx);
            }
            let _ = store.compaction_status_v1(t, CompactionStatusV1Request { stride_messages: *s });
            probe(format!("compaction_status_v1({t:?},stride={s:?})"), fx);
            let _ = store.compaction_auto_v1(t, CompactionAutoV1Request { stride_messages: *s, max_new_checkpoints: Some(2), dry_run: Some(true), actor_id: "u".into(), origin: "o".into() });
            probe(format!("compaction_auto_v1({t:?},stride={s:?},dry_run=true)"), fx);
            for block in [Some(true), Some(false), None] {
                for execute in [Some(true), Some(false)] {
                    let _ = store.compaction_auto_schedule_v1(
                        t,
                        CompactionAutoScheduleV1Request { stride_messages: *s, max_new_checkpoints: Some(2), block_on_inflight: block, execute, dry_run: Some(true), actor_id: "u".into(), origin: "o".into() },
                    );
                    probe(format!("compaction_auto_schedule_v1({t:?},stride={s:?},block_on_inflight={block:?},execute={execute:?},dry_run=true)"), fx);
                }
            }
        }
        // stride larger than the thread: nothing is plannable => real (non-dry) calls are no-ops
        let _ = store.compaction_auto_v1(t, CompactionAutoV1Request { stride_messages: Some(1_000_000), max_new_checkpoints: Some(1), dry_run: Some(false), actor_id: "u".into(), origin: "o".into() });
        probe(format!("compaction_auto_v1({t:?},stride=1000000 nothing plannable)"), fx);
        let _ = store.compaction_auto_schedule_v1(
            t,
            CompactionAutoScheduleV1Request { stride_messages: Some(1_000_000), max_new_checkpoints: Some(1), block_on_inflight: Some(false), execute: Some(true), dry_run: Some(false), actor_id: "u".into(), origin: "o".into() },
        );
        probe(format!("compaction_auto_schedule_v1({t:?},stride=1000000 nothing plannable)"), fx);
        let _ = store.provider_cursor_status_v1(t, ProviderCursorStatusV1Request {});
        probe(format!("provider_cursor_status_v1({t:?})"), fx);
        let _ = store.provider_cursor_rotate_v1(t, ProviderCursorRotateV1Request { provider: Some("no-such-provider".into()), endpoint: None, model: None, reason: None, actor_id: "u".into(), origin: "o".into() });
        probe(format!("provider_cursor_rotate_v1({t:?},provider=no-such-provider)"), fx);
        // filters on the fields a cursor may lack (a run on the provider's default model records
        // no model): a filter on a value no cursor of the thread carries matches nothing
        let _ = store.provider_cursor_rotate_v1(t, ProviderCursorRotateV1Request { provider: None, endpoint: None, model: Some("no-such-model".into()), reason: None, actor_id: "u".into(), origin: "o".into() });
        probe(format!("provider_cursor_rotate_v1({t:?},model=no-such-model)"), fx);
        let _ = store.provider_cursor_rotate_v1(t, ProviderCursorRotateV1Request { provider: None, endpoint: Some("http://no-such-endpoint".into()), model: None, reason: None, actor_id: "u".into(), origin: "o".into() });
        probe(format!("provider_cursor_rotate_v1({t:?},endpoint=no-such-endpoint)"), fx);
        let _ = store.provider_cursor_rotate_v1(t, ProviderCursorRotateV1Request { provider: Some("openresponses".into()), endpoint: Some("http://no-such-endpoint".into()), model: Some("no-such-model".into()), reason: None, actor_id: "u".into(), origin: "o".into() });
        probe(format!("provider_cursor_rotate_v1({t:?},provider=openresponses,endpoint+model=no-such)"), fx);
        for l in [None, Some(0u32), Some(1), Some(50), Some(51)] {
            let _ = store.context_selection_status_v1(t, ContextSelectionStatusV1Request { limit: l });
            probe(format!("context_selection_status_v1({t:?},limit={l:?})"), fx);
        }
        let _ = store.get(t);
        probe(format!("get({t:?})"), fx);
        // WRITER calls addressed to a thread that does not exist are refused: they add nothing, and
        // the log they leave is the log they found (a hostile id must not reach a file)
        if t != thread {
            let before = fx.log_bytes();
            let _ = store.append_message(t, "u".into(), "o".into(), "to nowhere".into());
            probe(format!("append_message({t:?}) [unknown thread: refused]"), fx);
            let _ = store.provider_cursor_rotate_v1(t, ProviderCursorRotateV1Request { provider: None, endpoint: None, model: None, reason: None, actor_id: "u".into(), origin: "o".into() });
            probe(format!("provider_cursor_rotate_v1({t:?}) [unknown thread: refused]"), fx);
            let _ = store.compaction_checkpoint_cumulative_v1(t, ripd::CompactionCheckpointCumulativeV1Request { summary_markdown: Some("s".into()), summary_artifact_id: None, to_message_id: None, to_seq: Some(1), stride_messages: None, actor_id: "u".into(), origin: "o".into() });
            probe(format!("compaction_checkpoint_cumulative_v1({t:?}) [unknown thread: refused]"), fx);
            let _ = store.compaction_auto_v1(t, CompactionAutoV1Request { stride_messages: Some(1), max_new_checkpoints: Some(1), dry_run: Some(false), actor_id: "u".into(), origin: "o".into() });
            probe(format!("compaction_auto_v1({t:?},real) [unknown thread: refused]"), fx);
            let _ = store.branch(t, None, None, None, "u".into(), "o".into());
            probe(format!("branch({t:?}) [unknown thread: refused]"), fx);
            let _ = store.handoff(t, None, (Some("s".into()), None), None, None, ("u".into(), "o".into()));
            probe(format!("handoff({t:?}) [unknown thread: refused]"), fx);
            let after = fx.log_bytes();
            if !after.starts_with(&before) && prefix_broken.is_none() {
                prefix_broken = Some((format!("writer calls on unknown thread {t:?} [the log is no longer an extension of what it was]"), before.len(), after.len()));
            }
        }
    }
    let _ = store.list();
    probe("list()".into(), fx);
    if let Some(router) = router {
        let rt = fx.rt.clone();
        for uri in [format!("/threads/{thread}/events"), "/threads/no-such-thread/events".to_string(), "/threads/..%2Fevents/events".to_string(), "/config/doctor".to_string(), "/threads".to_string(), format!("/threads/{thread}"), "/sessions/none/events".to_string(), "/tasks/none/events".to_string(), "/tasks".to_string(), "/openapi.json".to_string()] {
            let req = Request::builder().uri(&uri).body(Body::empty()).unwrap();
            let resp = rt.block_on(router.clone().oneshot(req));
            drop(resp);
            probe(format!("GET {uri}"), fx);
        }
        for uri in ["/threads/no-such-thread/messages", "/threads/..%2Fevents/messages", "/threads/..%2Fevents/provider-cursor-rotate", "/threads/..%2Fevents/branch", "/threads/%2Ftmp%2Fx/messages"] {
            let req = Request::builder().method("POST").uri(uri).header("content-type", "application/json").body(Body::from(json!({"content": "x", "actor_id": "u", "origin": "o"}).to_string())).unwrap();
            let resp = rt.block_on(router.clone().oneshot(req));
            drop(resp);
            probe(format!("POST {uri} [unknown thread: refused]"), fx);
        }
    }
    offender.or(prefix_broken)
}

fn case_json(hist: &[H], upto: usize, extra: Value) -> Value {
    json!({"engine": "H-histories", "harness": "c02.append_only", "history": hist[..upto].iter().map(name).collect::<Vec<_>>(), "detail": extra})
}

fn check_history(report: &Report, rt: &Arc<tokio::runtime::Runtime>, hist: &[H], full_reads: bool) {
    let mut fx = Fx::new(rt.clone());
    let thread = fx.store().ensure_default().expect("thread");
    let mut t = Track::new(thread.clone());
    let app = {
        let _g = rt.enter();
        ripd::verif_export::VerifApp::new(fx.engine.clone(), false)
    };
    let mut router = app.router();
    // a second writer handle on the same log, opened now and used after the history (an outgoing
    // authority finishing an append after its successor has written): appends must land at the end
    let outgoing = rip_log::EventLog::new(fx.log_path()).expect("second handle");
    for (i, op) in hist.iter().enumerate() {
        let before_log = fx.log_bytes();
        let before_tree = tree_hashes(&fx);
        let outcome = apply(&mut fx, &mut t, op);
        if matches!(op, H::Restart) {
            let _g = rt.enter();
            router = ripd::verif_export::VerifApp::new(fx.engine.clone(), false).router();
        }
        let after_log = fx.log_bytes();
        match check_suffix(&before_log, &after_log) {
            Ok(n) => {
                if outcome.get("err").is_some() && n > 0 && !matches!(op, H::Run | H::Auto { .. } | H::Sched { .. }) {
                    report.count("info_failed_op_added_frames", 1);
                }
            }
            Err(msg) => {
                report.violation(&format!("C02:not_append_only:{}", name(op).split('(').next().unwrap_or("")), case_json(hist, i + 1, json!({"outcome": outcome})), &msg);
                return;
            }
        }
        let after_tree = tree_hashes(&fx);
        for (p, h) in &after_tree {
            if before_tree.get(p) != Some(h) && !allowed_change(p) {
                report.violation("C02:unexpected_file_changed", case_json(hist, i + 1, json!({"path": p})), &format!("operation {} changed {p}, which is neither the log nor a cache / snapshot / workspace .rip location", name(op)));
            }
        }
        for p in before_tree.keys() {
            if !after_tree.contains_key(p) && !allowed_change(p) {
                report.violation("C02:unexpected_file_removed", case_json(hist, i + 1, json!({"path": p})), &format!("operation {} removed {p}", name(op)));
            }
        }
        // the read-only set in the state just reached
        let with_router = i + 1 == hist.len();
        if let Some((what, a, b)) = read_only_set(&fx, &thread, if with_router { Some(&router) } else { None }, full_reads && with_router) {
            let q = what.split('(').next().unwrap_or(&what).to_string();
            report.violation(
                &format!("C02:read_only_call_wrote:{q}"),
                case_json(hist, i + 1, json!({"call": what, "caches": "present"})),
                &format!("{what} grew the log from {a} to {b} bytes"),
            );
            return;
        }
    }
    // task API (short histories only: the task part does not depend on the thread's history)
    if hist.len() <= 1 {
        let rt = fx.rt.clone();
        let before = fx.log_bytes();
        let req = Request::builder().method("POST").uri("/tasks").header("content-type", "application/json").body(Body::from(json!({"tool": "bash", "args": {"command": "printf x; printf y >&2"}}).to_string())).unwrap();
        let resp = rt.block_on(router.clone().oneshot(req)).expect("infallible");
        let bytes = rt.block_on(http_body_util::BodyExt::collect(resp.into_body())).map(|b| b.to_bytes()).unwrap_or_default();
        let tid = serde_json::from_slice::<Value>(&bytes).ok().and_then(|v| v["task_id"].as_str().map(|s| s.to_string())).unwrap_or_default();
        if !tid.is_empty() {
            let t0 = std::time::Instant::now();
            loop {
                let resp = rt.block_on(router.clone().oneshot(Request::builder().uri(format!("/tasks/{tid}")).body(Body::empty()).unwrap())).expect("infallible");
                let b = rt.block_on(http_body_util::BodyExt::collect(resp.into_body())).map(|b| b.to_bytes()).unwrap_or_default();
                let st = serde_json::from_slice::<Value>(&b).ok().and_then(|v| v["status"].as_str().map(|s| s.to_string())).unwrap_or_default();
                if matches!(st.as_str(), "exited" | "failed" | "cancelled") || t0.elapsed() > std::time::Duration::from_secs(10) {
                    break;
                }
                rt.block_on(async { tokio::time::sleep(std::time::Duration::from_millis(2)).await });
            }
            rt.block_on(async { tokio::time::sleep(std::time::Duration::from_millis(20)).await });
            if let Err(msg) = check_suffix(&before, &fx.log_bytes()) {
                report.violation("C02:not_append_only:task_run", case_json(hist, hist.len(), json!({"task": tid})), &format!("a background task run: {msg}"));
                return;
            }
            let len = fx.log_bytes().len();
            for uri in ["/tasks".to_string(), format!("/tasks/{tid}"), format!("/tasks/{tid}/output?stream=stdout&offset_bytes=0&max_bytes=10"), format!("/tasks/{tid}/output?stream=stderr&offset_bytes=1&max_bytes=0"), format!("/tasks/{tid}/events"), "/tasks/no-such-task".to_string(), "/tasks/no-such-task/output?stream=stdout".to_string()] {
                let resp = rt.block_on(router.clone().oneshot(Request::builder().uri(&uri).body(Body::empty()).unwrap()));
                drop(resp);
                let now = fx.log_bytes().len();
                if now != len {
                    report.violation("C02:read_only_call_wrote:task_route", case_json(hist, hist.len(), json!({"call": format!("GET {uri}")})), &format!("GET {uri} grew the log from {len} to {now} bytes"));
                    return;
                }
            }
            // cancelling a finished task is a no-op
            let resp = rt.block_on(router.clone().oneshot(Request::builder().method("POST").uri(format!("/tasks/{tid}/cancel")).header("content-type", "application/json").body(Body::from("{\"reason\":\"late\"}")).unwrap()));
            drop(resp);
            rt.block_on(async { tokio::time::sleep(std::time::Duration::from_millis(10)).await });
            if fx.log_bytes().len() != len {
                report.violation("C02:read_only_call_wrote:cancel_finished_task", case_json(hist, hist.len(), json!({"task": tid})), "cancelling a task that already ended appended frames");
                return;
            }
            report.count("histories_with_task_api_part", 1);
        }
    }
    {
        let before = fx.log_bytes();
        let sid = uuid::Uuid::new_v4().to_string();
        let ev = rip_kernel::Event { id: uuid::Uuid::new_v4().to_string(), session_id: sid, timestamp_ms: 1, seq: 0, kind: rip_kernel::EventKind::SessionStarted { input: "from the outgoing handle".into() } };
        let res = outgoing.append(&ev);
        let after = fx.log_bytes();
        if let Err(msg) = check_suffix(&before, &after) {
            report.violation("C02:not_append_only:second_writer_handle", case_json(hist, hist.len(), json!({"append_result": format!("{res:?}")})), &format!("one frame appended through a writer handle that was opened before the history: {msg}"));
            return;
        }
        // ... and the engine's own handle afterwards
        let before = fx.log_bytes();
        let _ = fx.store().append_message(&thread, "u".into(), "o".into(), "after the outgoing handle".into());
        if let Err(msg) = check_suffix(&before, &fx.log_bytes()) {
            report.violation("C02:not_append_only:after_second_writer_handle", case_json(hist, hist.len(), json!({})), &format!("an append by the engine after another handle wrote: {msg}"));
            return;
        }
    }
    // same with the caches dropped (rebuild paths) and after a restart
    fx.drop_caches();
    if let Some((what, a, b)) = read_only_set(&fx, &thread, Some(&router), false) {
        let q = what.split('(').next().unwrap_or(&what).to_string();
        report.violation(&format!("C02:read_only_call_wrote:{q}"), case_json(hist, hist.len(), json!({"call": what, "caches": "dropped"})), &format!("{what} (caches dropped) grew the log from {a} to {b} bytes"));
    }
    let before = fx.log_bytes();
    fx.restart();
    if let Some((what, a, b)) = read_only_set(&fx, &thread, None, false) {
        let q = what.split('(').next().unwrap_or(&what).to_string();
        report.violation(&format!("C02:read_only_call_wrote:{q}"), case_json(hist, hist.len(), json!({"call": what, "caches": "restarted"})), &format!("{what} (after restart) grew the log from {a} to {b} bytes"));
    }
    if fx.log_bytes() != before {
        report.violation("C02:restart_changed_log", case_json(hist, hist.len(), json!({})), "restart + read-only calls changed the log bytes");
    }
    // a dead authority's last write was cut short: the log ends with a partial, newline-less line.
    // Opening the store and reading never rewrites the log: every byte stays where it is.
    {
        use std::io::Write;
        let mut f = std::fs::OpenOptions::new().append(true).open(fx.log_path()).expect("log");
        f.write_all(br#"{"id":"00000000-0000-4000-8000-00000000dead","session_id":"torn","timestamp_ms":1,"seq":0,"kind":{"type":"session_sta"#).expect("torn tail");
    }
    let before = fx.log_bytes();
    fx.restart();
    let _ = read_only_set(&fx, &thread, None, false);
    if fx.log_bytes() != before {
        report.violation("C02:restart_changed_log:torn_tail", case_json(hist, hist.len(), json!({"log_tail": "partial line without newline"})), &format!("the log ended with a partial line; restart + read-only calls changed the log ({} -> {} bytes)", before.len(), fx.log_bytes().len()));
    }
}

/// Engine S at system-call granularity: a frame larger than the log writer's buffer appended by the
/// engine racing one appended through a SECOND writer handle on the same file (an outgoing
/// authority finishing an append): every interleaving of their file-system calls; afterwards the
/// log must consist of whole frames (validated replay) - O_APPEND and one write(2) per frame are
/// the property's named mechanisms and only show with two handles and large frames.
fn race_part(report: &Report) {
    use crate::race::{job, Pre, Reader, Writer};
    let tier = report.tier();
    let t = tier.as_str();
    let cap = report.opts.wall_cap_s;
    let jobs = vec![
        job(t, "c02", cap, Pre::OpenTurn, Reader::SecondHandleBigFrame, Writer::BigMessage, tier.pick(2, 3)),
        job(t, "c02", cap, Pre::OpenTurn, Reader::SecondHandleBigFrame, Writer::Message, tier.pick(2, 3)),
    ];
    report.set_extra("race_configs", json!(jobs.len()));
    crate::common::run_workers(report, jobs, 16, &crate::race::shim_env());
}

pub fn run(opts: Opts) -> i32 {
    if let Some(spec) = opts.extra.iter().find_map(|a| a.strip_prefix("race=")) {
        let spec = spec.to_string();
        return crate::race::worker(opts, "C02", "exploration", &spec);
    }
    let report = Report::new("C02", "exploration", opts.clone());
    report.set_rule(
        "every history of <=3 (quick) / <=4 (thorough) ops from {message, answered run, open run, run_ended, side effects, cursor set, cursor set without endpoint and model, \
         cursor rotate, selection pair, manual checkpoint at a boundary / at a non-boundary (refused), auto compaction, schedule, a summarizer job left in flight, branch, \
         handoff, drop caches, restart}; after every step: byte-prefix + whole-line JSON suffix + only cache/snapshot/.rip files changed; \
         in every reached state the read-only set (replay, cut points over stride x limit domains, status, cursor status, no-match rotate, \
         selection status, list/get, dry-run (x block_on_inflight x execute) and nothing-plannable auto/schedule, stride 0, unknown / hostile thread ids incl. '../events', \
         and GET routes incl. the three SSE handlers and /config/doctor) must add zero bytes, also with caches dropped and after restart; short histories also run a background task through POST /tasks (append-only while it runs; its GET routes and a late cancel add nothing); after the history one frame is appended through a \
         second writer handle opened before it, then one by the engine (both must land at the end); system-call part: a 20 KiB frame through a second writer handle racing a 20 KiB / a small append by the engine, every file-system call a scheduling point, <=2 (quick) / <=3 (thorough) preemptions: the log must consist of whole frames; \
         distinct = history",
    );
    report.assume("frames appended by a *failing* operation are information only (the property bounds what is written, not whether a failing op may log)");
    let tier = report.tier();
    let alphabet: Vec<H> = vec![
        H::Msg,
        H::Run,
        H::RunSpawnOnly,
        H::RunEndOldest,
        H::Side,
        H::Cursor(0),
        H::Cursor(9),
        H::Rotate,
        H::SelPair,
        H::Ckpt(0),
        H::Ckpt(3),
        H::Auto { stride: 1, max_new: 2, dry: false },
        H::Sched { stride: 1, max_new: 1, block: true, execute: true, dry: false },
        H::SpawnJobOnly { stride: 1 },
        H::Branch(0),
        H::Handoff(0),
        H::DropCaches,
        H::Restart,
    ];
    if let Some(path) = &opts.replay {
        let case = crate::common::load_replay_case(path);
        if case["harness"] == "race.reader_vs_appender" {
            report.replay_by_re_enumeration(path);
            race_part(&report);
            return report.finish();
        }
        let hist: Vec<H> = case["history"].as_array().map(|a| a.iter().filter_map(|v| alphabet.iter().find(|h| name(h) == v.as_str().unwrap_or("")).cloned()).collect()).unwrap_or_default();
        println!("replay: history {:?}", hist.iter().map(name).collect::<Vec<_>>());
        let rt = new_rt();
        check_history(&report, &rt, &hist, true);
        report.eval(Some(&"replay"));
        return report.finish();
    }
    let hs = sequences(&alphabet, tier.pick(3, 4));
    report.set_extra("histories", json!(hs.len()));
    report.sample(json!({"history": hs[20].iter().map(name).collect::<Vec<_>>()}));
    report.sample(json!({"history": hs[hs.len() / 2].iter().map(name).collect::<Vec<_>>()}));
    report.sample(json!({"history": hs[hs.len() - 1].iter().map(name).collect::<Vec<_>>()}));
    hs.par_iter().for_each_init(new_rt, |rt, h| {
        if report.over_cap() {
            return;
        }
        check_history(&report, rt, h, tier == Tier::Thorough || h.len() <= 1);
        report.eval(Some(&h));
    });
    race_part(&report);
    report.finish()
}
