//! C17 — captured process output is faithful; a task has one well-formed lifecycle.
//!
//! Part 1 (bounded exhaustive, deterministic): the real foreground capture loop is fed by a scripted
//! reader that returns chosen chunk sizes: every output over a small byte alphabet x ALL
//! compositions into chunks x preview limits x artifact caps, plus sizes around the 8 KiB read.
//! Part 2: stored output read back page by page for every (offset, max_bytes) and every page size,
//! through the `artifact_fetch` tool and GET /tasks/{id}/output. Part 3: real pipe-mode tasks
//! through the production router (commands x cancel moments): the lifecycle grammar on the task's
//! frames and byte-exact stored output.

use std::pin::Pin;
use std::sync::Arc;
use std::task::{Context, Poll};
use std::time::Duration;

use rayon::prelude::*;
use rip_kernel::{EventKind, StreamKind, ToolTaskStatus};
use rip_tools::{register_builtin_tools, BuiltinToolConfig, ToolInvocation, ToolRegistry, ToolRunner};
use serde_json::{json, Value};
use sha2::{Digest, Sha256};
use tokio::io::{AsyncRead, ReadBuf};

use crate::common::{scratch_dir, Opts, Report, Tier};
use crate::provx::{new_mt_rt, App};

struct ChunkReader {
    data: Vec<u8>,
    sizes: Vec<usize>,
    pos: usize,
    idx: usize,
}

impl AsyncRead for ChunkReader {
    fn poll_read(mut self: Pin<&mut Self>, _cx: &mut Context<'_>, buf: &mut ReadBuf<'_>) -> Poll<std::io::Result<()>> {
        if self.pos >= self.data.len() {
            return Poll::Ready(Ok(()));
        }
        let want = self.sizes.get(self.idx).copied().unwrap_or(usize::MAX);
        let n = want.min(self.data.len() - self.pos).min(buf.remaining());
        let start = self.pos;
        buf.put_slice(&self.data[start..start + n]);
        self.pos += n;
        self.idx += 1;
        Poll::Ready(Ok(()))
    }
}

fn sha_hex(b: &[u8]) -> String {
    let mut h = Sha256::new();
    h.update(b);
    hex::encode(h.finalize())
}

fn compositions(n: usize) -> Vec<Vec<usize>> {
    if n == 0 {
        return vec![vec![]];
    }
    let mut out = Vec::new();
    for mask in 0..(1u32 << (n - 1)) {
        let mut parts = Vec::new();
        let mut cur = 1;
        for i in 0..n - 1 {
            if (mask >> i) & 1 == 1 {
                parts.push(cur);
                cur = 1;
            } else {
                cur += 1;
            }
        }
        parts.push(cur);
        out.push(parts);
    }
    out
}

fn check_capture(report: &Report, rt: &tokio::runtime::Runtime, root: &std::path::Path, output: &[u8], sizes: &[usize], preview: usize, cap: usize) {
    let config = BuiltinToolConfig { workspace_root: root.to_path_buf(), artifact_max_bytes: cap, ..Default::default() };
    let reader = ChunkReader { data: output.to_vec(), sizes: sizes.to_vec(), pos: 0, idx: 0 };
    let (lines, v) = rt.block_on(rip_tools::verif_capture_stream(reader, &config, preview));
    report.eval(None::<&u8>);
    let case = || {
        json!({"engine": "H-inputs", "harness": "c17.capture", "output_hex": hex::encode(&output[..output.len().min(64)]), "output_len": output.len(), "chunk_sizes": if sizes.len() > 24 { json!(format!("{} chunks", sizes.len())) } else { json!(sizes) }, "preview_limit": preview, "artifact_cap": cap})
    };
    if let Some(e) = v["error"].as_str() {
        report.violation("C17:capture_error", case(), &format!("capture failed: {e}"));
        return;
    }
    let total = output.len();
    if v["bytes_total"].as_u64() != Some(total as u64) {
        report.violation("C17:bytes_total", case(), &format!("bytes_total {} for {} bytes written", v["bytes_total"], total));
    }
    // preview: decodes a byte prefix of the output within its limit
    let text = lines.join("\n");
    let want_prefix = &output[..total.min(preview)];
    let lossy = String::from_utf8_lossy(want_prefix).to_string();
    let norm = |s: &str| s.trim_end_matches('\u{FFFD}').trim_end_matches('\n').to_string();
    if !norm(&lossy).starts_with(&norm(&text)) && !norm(&text).starts_with(&norm(&lossy)) {
        report.violation("C17:preview_not_prefix", case(), &format!("preview {:?} is not a prefix of the output {:?}", text, lossy));
    }
    if v["bytes_preview"].as_u64().unwrap_or(0) > preview as u64 {
        report.violation("C17:preview_exceeds_limit", case(), &format!("preview holds {} source bytes, limit {preview}", v["bytes_preview"]));
    }
    match v["artifact"].as_object() {
        Some(a) => {
            let id = a["id"].as_str().unwrap_or("");
            let stored = std::fs::read(root.join(".rip/artifacts/blobs").join(id)).unwrap_or_default();
            let want = &output[..total.min(cap)];
            if stored != want {
                let sig = if stored.len() < want.len() { "C17:stored_output_missing_bytes" } else if stored.len() > want.len() { "C17:stored_output_exceeds_cap" } else { "C17:stored_output_differs" };
                report.violation(sig, case(), &format!("the stored output holds {} bytes, the process wrote {} (cap {cap}): stored is {}a byte prefix", stored.len(), total, if want.starts_with(&stored) || stored.starts_with(want) { "" } else { "NOT " }));
            }
            if id != sha_hex(&stored) {
                report.violation("C17:artifact_name_not_hash", case(), "the artifact id is not the sha256 of its bytes");
            }
            if a["bytes"].as_u64() != Some(stored.len() as u64) {
                report.violation("C17:artifact_bytes_field", case(), &format!("artifact.bytes {} != stored {}", a["bytes"], stored.len()));
            }
            if a["truncated"].as_bool() != Some(total > cap) {
                report.violation("C17:artifact_truncated_flag", case(), &format!("artifact.truncated = {} for {total} bytes written and cap {cap}", a["truncated"]));
            }
            let _ = std::fs::remove_file(root.join(".rip/artifacts/blobs").join(id));
        }
        None => {
            // an artifact is required once the output no longer fits the preview (and the cap allows one)
            if total > preview && cap > 0 {
                report.violation("C17:artifact_missing", case(), &format!("{total} bytes written, preview limit {preview}, cap {cap}: no artifact was stored"));
            }
        }
    }
}

fn part_capture(report: &Report, tier: Tier) {
    let symbols: Vec<Vec<u8>> = vec![b"a".to_vec(), b"\n".to_vec(), "é".as_bytes().to_vec(), "😀".as_bytes().to_vec(), vec![0xFF]];
    let max_syms = tier.pick(3, 4);
    let mut outputs: Vec<Vec<u8>> = vec![vec![]];
    let mut frontier: Vec<Vec<u8>> = vec![vec![]];
    for _ in 0..max_syms {
        let mut next = Vec::new();
        for o in &frontier {
            for s in &symbols {
                let mut t = o.clone();
                t.extend_from_slice(s);
                if t.len() <= 10 {
                    next.push(t);
                }
            }
        }
        outputs.extend(next.iter().cloned());
        frontier = next;
    }
    report.set_extra("capture_outputs", json!(outputs.len()));
    outputs.par_iter().for_each_init(
        || (tokio::runtime::Builder::new_current_thread().enable_all().build().expect("rt"), scratch_dir("c17c")),
        |(rt, dir), output| {
            if report.over_cap() {
                return;
            }
            report.distinct_key(&output);
            for sizes in compositions(output.len()) {
                for preview in 0..=6usize {
                    for cap in [0usize, 1, 3, 8, usize::MAX] {
                        check_capture(report, rt, dir.path(), output, &sizes, preview, cap);
                    }
                }
            }
        },
    );
    // around the 8 KiB read size, greedy and bursty readers, preview limits below and above one read
    let big: Vec<(usize, Vec<usize>)> = vec![
        (8191, vec![usize::MAX]),
        (8192, vec![usize::MAX]),
        (8193, vec![usize::MAX]),
        (16385, vec![usize::MAX; 4]),
        (20000, vec![6, usize::MAX, usize::MAX, usize::MAX]),
        (20000, vec![8192, 100, usize::MAX, usize::MAX]),
        (30000, vec![5000; 8]),
    ];
    let rt = tokio::runtime::Builder::new_current_thread().enable_all().build().expect("rt");
    let dir = scratch_dir("c17b");
    for (len, sizes) in big {
        let output: Vec<u8> = (0..len).map(|i| b"0123456789abcdefghijklmnopqrstuvwxyz\n"[i % 37]).collect();
        report.distinct_key(&(len, &sizes));
        for preview in [0usize, 10, 4096, 8192, 10_000, 16_384, 25_000, 1 << 20] {
            for cap in [0usize, 100, 8192, 12_000, usize::MAX] {
                check_capture(report, &rt, dir.path(), &output, &sizes, preview, cap);
            }
        }
    }
}

fn part_paging(report: &Report) {
    // blobs over the same alphabet, read back through the artifact_fetch tool
    let blobs: Vec<Vec<u8>> = vec![b"".to_vec(), b"abc".to_vec(), "aéb".as_bytes().to_vec(), "😀é\n".as_bytes().to_vec(), vec![b'a', 0xFF, b'b'], "éé😀a\nb".as_bytes().to_vec()];
    let rt = tokio::runtime::Builder::new_current_thread().enable_all().build().expect("rt");
    let dir = scratch_dir("c17p");
    let root = dir.path().to_path_buf();
    let registry = Arc::new(ToolRegistry::default());
    register_builtin_tools(&registry, BuiltinToolConfig { workspace_root: root.clone(), ..Default::default() });
    let runner = ToolRunner::new(registry, 2);
    let blobs_dir = root.join(".rip/artifacts/blobs");
    std::fs::create_dir_all(&blobs_dir).unwrap();
    for blob in &blobs {
        let id = sha_hex(blob);
        std::fs::write(blobs_dir.join(&id), blob).unwrap();
        report.distinct_key(&blob);
        let fetch = |offset: usize, max: usize| -> Option<(String, usize)> {
            let mut seq = 0;
            let ev = rt.block_on(runner.run("s", &mut seq, ToolInvocation { name: "artifact_fetch".into(), args: json!({"id": id, "offset_bytes": offset, "max_bytes": max}), timeout_ms: None }));
            let mut content = String::new();
            let mut bytes = None;
            for e in &ev {
                match &e.kind {
                    EventKind::ToolStdout { chunk, .. } => content.push_str(chunk),
                    EventKind::ToolEnded { artifacts: Some(a), .. } => bytes = a["bytes"].as_u64().map(|b| b as usize),
                    _ => {}
                }
            }
            bytes.map(|b| (content, b))
        };
        let case = |detail: Value| json!({"engine": "H-inputs", "harness": "c17.paging", "blob_hex": hex::encode(blob), "detail": detail});
        // every (offset, max): the page is the decoding of exactly the slice it claims
        for offset in 0..=blob.len() + 1 {
            for max in 0..=blob.len() + 2 {
                report.eval(None::<&u8>);
                let Some((content, used)) = fetch(offset, max) else { continue };
                let end = (offset + used).min(blob.len());
                let slice = if offset <= blob.len() { &blob[offset..end] } else { &[][..] };
                if content != String::from_utf8_lossy(slice) {
                    report.violation("C17:page_not_its_slice", case(json!({"offset": offset, "max_bytes": max})), &format!("page (offset {offset}, max {max}) reports {used} bytes and content {:?}; that slice decodes to {:?}", content, String::from_utf8_lossy(slice)));
                }
            }
        }
        // sequential paging following the returned byte counts reproduces a valid-UTF-8 blob exactly
        if let Ok(text) = std::str::from_utf8(blob) {
            for page in 1..=6usize {
                report.eval(None::<&u8>);
                let mut offset = 0;
                let mut acc = String::new();
                let mut steps = 0;
                while offset < blob.len() && steps < 100 {
                    steps += 1;
                    let Some((content, used)) = fetch(offset, page) else { break };
                    if used == 0 {
                        break;
                    }
                    acc.push_str(&content);
                    offset += used;
                }
                let widest = text.chars().map(|c| c.len_utf8()).max().unwrap_or(1);
                if acc != text && page >= widest {
                    report.violation("C17:paging_not_exact", case(json!({"page_size": page})), &format!("reading {:?} in pages of {page} bytes (following the returned byte counts) yields {:?}", text, acc));
                }
            }
        }
    }
}

fn task_frames(app: &App, task_id: &str) -> Vec<rip_kernel::Event> {
    app.log_events().into_iter().filter(|e| e.stream_kind() == StreamKind::Task && e.stream_id() == task_id).collect()
}

fn part_tasks(report: &Report, tier: Tier) {
    let rt = new_mt_rt();
    let commands: Vec<(Value, &str)> = vec![
        (json!({"tool": "bash", "args": {"command": "exit 0"}}), "exit0"),
        (json!({"tool": "bash", "args": {"command": "exit 3"}}), "exit3"),
        (json!({"tool": "bash", "args": {"command": "printf 'a\\303\\251b\\n'"}}), "stdout_utf8"),
        (json!({"tool": "bash", "args": {"command": "printf 'err' >&2"}}), "stderr_only"),
        // the shell exits at once; a background job keeps the task's stdout (only stdout) open and writes 5.6 s later
        (json!({"tool": "bash", "args": {"command": "echo early; (sleep 5.6; echo late) 2>/dev/null &"}}), "background_job_holds_stdout"),
        (json!({"tool": "bash", "args": {"command": "printf 'a\\360\\237\\231\\202b h\\303\\251llo \\342\\234\\223 \\346\\227\\245\\346\\234\\254 done'"}}), "stdout_wide_chars"),
        (json!({"tool": "bash", "args": {"command": "printf out; printf err >&2; printf '\\377x'"}}), "both_binary"),
        (json!({"tool": "bash", "args": {"command": "head -c 20000 /dev/zero | tr '\\0' 'z'"}}), "20KiB"),
        (json!({"tool": "bash", "args": {"command": "head -c 20000 /dev/zero | tr '\\0' 'z'", "artifact_max_bytes": 5000}}), "20KiB_cap5000"),
        (json!({"tool": "bash", "args": {"command": "true", "cwd": "no/such/dir"}}), "bad_cwd"),
        (json!({"tool": "bash", "args": {"cwd": 7}}), "invalid_args"),
        (json!({"tool": "python", "args": {"command": "x"}}), "unsupported_tool"),
        (json!({"tool": "bash", "args": {"command": "sleep 5"}}), "sleeping"),
        // preview limits 0, 1 and "smaller than the first character of a read": the stored output
        // must not depend on what fits into the preview
        (json!({"tool": "bash", "args": {"command": "printf 'hello world'", "max_bytes": 0}}), "preview_limit_0"),
        (json!({"tool": "bash", "args": {"command": "printf 'ab'", "max_bytes": 1}}), "preview_limit_1"),
        (json!({"tool": "bash", "args": {"command": "printf '\\342\\202\\254uro'", "max_bytes": 2}}), "preview_limit_2_euro"),
        (json!({"tool": "bash", "args": {"command": "printf '\\342\\202\\254uro' >&2; printf x", "max_bytes": 0}}), "preview_limit_0_both"),
        // more on EACH stream than the preview limit, less than the cap: both logs complete
        (json!({"tool": "bash", "args": {"command": "head -c 3000 /dev/zero | tr '\\0' 'e' >&2; head -c 2000 /dev/zero | tr '\\0' 'o'", "max_bytes": 128}}), "both_above_preview_limit"),
        (json!({"tool": "bash", "args": {"command": "head -c 3000 /dev/zero | tr '\\0' 'e' >&2; head -c 2000 /dev/zero | tr '\\0' 'o'", "max_bytes": 128, "artifact_max_bytes": 2500}}), "both_above_preview_limit_cap2500"),
    ];
    let expected_stderr: std::collections::HashMap<&str, Vec<u8>> = [
        ("stderr_only", b"err".to_vec()),
        ("both_binary", b"err".to_vec()),
        ("stdout_utf8", vec![]),
        ("preview_limit_0_both", "€uro".as_bytes().to_vec()),
        ("both_above_preview_limit", vec![b'e'; 3000]),
        ("both_above_preview_limit_cap2500", vec![b'e'; 2500]),
    ]
    .into_iter()
    .collect();
    let expected_stdout: std::collections::HashMap<&str, Vec<u8>> = [
        ("stdout_utf8", "aéb\n".as_bytes().to_vec()),
        ("background_job_holds_stdout", b"early\nlate\n".to_vec()),
        ("stdout_wide_chars", "a\u{1F642}b h\u{e9}llo \u{2713} \u{65e5}\u{672c} done".as_bytes().to_vec()),
        ("both_binary", b"out\xffx".to_vec()),
        ("20KiB", vec![b'z'; 20000]),
        ("20KiB_cap5000", vec![b'z'; 5000]),
        ("exit0", vec![]),
        ("stderr_only", vec![]),
        ("preview_limit_0", b"hello world".to_vec()),
        ("preview_limit_1", b"ab".to_vec()),
        ("preview_limit_2_euro", "€uro".as_bytes().to_vec()),
        ("preview_limit_0_both", b"x".to_vec()),
        ("both_above_preview_limit", vec![b'o'; 2000]),
        ("both_above_preview_limit_cap2500", vec![b'o'; 2000]),
    ]
    .into_iter()
    .collect();
    let cancels: Vec<&str> = if tier == Tier::Quick { vec!["never", "immediately", "after_20ms"] } else { vec!["never", "immediately", "after_5ms", "after_20ms", "after_100ms"] };
    let cases: Vec<(usize, &str)> = (0..commands.len()).flat_map(|i| cancels.iter().map(move |c| (i, *c))).collect();
    cases.par_iter().for_each(|(ci, cancel)| {
        let (payload, label) = &commands[*ci];
        if *label == "sleeping" && *cancel == "never" {
            return;
        }
        let app = App::new(rt.clone(), None);
        let (status, body) = app.request("POST", "/tasks", Some(payload.clone()));
        report.eval(Some(&(label, cancel)));
        let case = || json!({"engine": "P", "harness": "c17.tasks", "command": label, "cancel": cancel});
        if status != 201 {
            // refused at the door (e.g. invalid payload): nothing to judge
            report.count("tasks_refused_at_create", 1);
            return;
        }
        let id = serde_json::from_slice::<Value>(&body).ok().and_then(|v| v["task_id"].as_str().map(|s| s.to_string())).unwrap_or_default();
        match *cancel {
            "never" => {}
            "immediately" => {
                let _ = app.request("POST", &format!("/tasks/{id}/cancel"), Some(json!({"reason": "t"})));
            }
            other => {
                let ms: u64 = other.trim_start_matches("after_").trim_end_matches("ms").parse().unwrap_or(10);
                std::thread::sleep(Duration::from_millis(ms));
                let _ = app.request("POST", &format!("/tasks/{id}/cancel"), Some(json!({"reason": "t"})));
            }
        }
        // wait for a terminal status
        let start = std::time::Instant::now();
        loop {
            let (_, b) = app.request("GET", &format!("/tasks/{id}"), None);
            let st = serde_json::from_slice::<Value>(&b).ok().and_then(|v| v["status"].as_str().map(|s| s.to_string())).unwrap_or_default();
            if matches!(st.as_str(), "exited" | "failed" | "cancelled") {
                break;
            }
            if start.elapsed() > Duration::from_secs(10) {
                report.violation("C17:task_never_terminal", case(), &format!("task status {st:?} after 10 s"));
                return;
            }
            std::thread::sleep(Duration::from_millis(3));
        }
        // (the background-job command: whatever still holds the task's pipes gets the time to write)
        std::thread::sleep(Duration::from_millis(if *label == "background_job_holds_stdout" && *cancel == "never" { 1500 } else { 30 }));
        let frames = task_frames(&app, &id);
        let kinds: Vec<String> = frames
            .iter()
            .map(|e| match &e.kind {
                EventKind::ToolTaskStatus { status, .. } => format!("status:{status:?}").to_lowercase(),
                _ => crate::fixture::kind_name(e),
            })
            .collect();
        let terminal_idx: Vec<usize> = frames
            .iter()
            .enumerate()
            .filter(|(_, e)| matches!(&e.kind, EventKind::ToolTaskStatus { status, .. } if matches!(status, ToolTaskStatus::Exited | ToolTaskStatus::Failed | ToolTaskStatus::Cancelled)))
            .map(|(i, _)| i)
            .collect();
        let supported = !matches!(*label, "unsupported_tool" | "invalid_args");
        if supported && kinds.first().map(|s| s.as_str()) != Some("tool_task_spawned") {
            report.violation("C17:lifecycle:first_frame", case(), &format!("task stream starts with {:?}", kinds.first()));
        }
        if terminal_idx.len() != 1 || terminal_idx[0] != frames.len() - 1 {
            report.violation("C17:lifecycle:terminal_status", case(), &format!("{} terminal status frames, stream = {:?}", terminal_idx.len(), kinds));
        }
        if kinds.iter().filter(|k| *k == "status:running").count() > 1 {
            report.violation("C17:lifecycle:running_twice", case(), &format!("stream = {:?}", kinds));
        }
        let req = kinds.iter().position(|k| k == "tool_task_cancel_requested");
        let cancelled = kinds.iter().position(|k| k == "tool_task_cancelled");
        let term_cancelled = kinds.iter().position(|k| k == "status:cancelled");
        if let Some(c) = cancelled.or(term_cancelled) {
            if req.map(|r| r > c).unwrap_or(true) {
                report.violation("C17:lifecycle:cancel_order", case(), &format!("cancelled without / before the cancel request: {:?}", kinds));
            }
        }
        if frames.iter().map(|e| e.seq).collect::<Vec<_>>() != (0..frames.len() as u64).collect::<Vec<_>>() {
            report.violation("C17:lifecycle:seq", case(), "task frames are not numbered 0..n-1");
        }
        // stored output byte-exact (uncancelled runs), ranges consecutive
        if *cancel == "never" {
            // the other stream has a log of its own (its own writer, its own cap)
            if let Some(want) = expected_stderr.get(label) {
                let (_, b) = app.request("GET", &format!("/tasks/{id}/output?stream=stderr&offset_bytes=0&max_bytes=100000"), None);
                let v: Value = serde_json::from_slice(&b).unwrap_or(Value::Null);
                let art = v["artifact_id"].as_str().unwrap_or("");
                let stored = std::fs::read(app.root.join(".rip/artifacts/blobs").join(art)).unwrap_or_default();
                report.count("task_stderr_logs_compared", 1);
                if &stored != want {
                    report.violation("C17:task_stored_output:stderr", case(), &format!("stored stderr holds {} bytes, expected {} (prefix up to the cap)", stored.len(), want.len()));
                }
            }
            if let Some(want) = expected_stdout.get(label) {
                let (_, b) = app.request("GET", &format!("/tasks/{id}/output?stream=stdout&offset_bytes=0&max_bytes=100000"), None);
                let v: Value = serde_json::from_slice(&b).unwrap_or(Value::Null);
                let art = v["artifact_id"].as_str().unwrap_or("");
                let stored = std::fs::read(app.root.join(".rip/artifacts/blobs").join(art)).unwrap_or_default();
                if &stored != want {
                    report.violation("C17:task_stored_output", case(), &format!("stored stdout holds {} bytes, expected {} (prefix up to the cap)", stored.len(), want.len()));
                }
                // reading the stored output page by page through the task route, following the byte
                // counts it returns, reproduces it exactly - for every page size from 1 byte up
                if want.len() <= 64 {
                    for page in 1..=6usize {
                        let mut acc: Vec<u8> = Vec::new();
                        let mut offset = 0u64;
                        let mut stuck = false;
                        for _ in 0..(want.len() + 2) {
                            let (_, b) = app.request("GET", &format!("/tasks/{id}/output?stream=stdout&offset_bytes={offset}&max_bytes={page}"), None);
                            let v: Value = serde_json::from_slice(&b).unwrap_or(Value::Null);
                            let used = v["bytes"].as_u64().unwrap_or(0);
                            acc.extend_from_slice(v["content"].as_str().unwrap_or("").as_bytes());
                            if used == 0 {
                                stuck = (offset as usize) < want.len();
                                break;
                            }
                            offset += used;
                        }
                        report.count("task_output_page_walks", 1);
                        let lossy = String::from_utf8_lossy(want).to_string();
                        // a page narrower than a character cannot carry it as text: for such pages only
                        // progress and the byte count are judged (as for artifact_fetch in part 2)
                        let widest = lossy.chars().map(|c| c.len_utf8()).max().unwrap_or(1);
                        let content_wrong = page >= widest && acc != lossy.as_bytes() && acc != *want;
                        let count_wrong = !stuck && offset as usize != want.len();
                        if stuck || content_wrong || count_wrong {
                            report.violation(
                                "C17:task_output_paging",
                                json!({"engine": "P", "harness": "c17.tasks", "command": label, "cancel": cancel, "page_size": page}),
                                &format!("reading the stored stdout ({} bytes) through /tasks/{{id}}/output in pages of {page} byte(s): {} after {} bytes; got {:?}", want.len(), if stuck { "a page with 0 bytes although more follows" } else { "the pages do not add up to the stored output" }, offset, String::from_utf8_lossy(&acc)),
                            );
                            break;
                        }
                    }
                }
                // output deltas reference consecutive, non-overlapping ranges
                let mut next = 0u64;
                for e in &frames {
                    if let EventKind::ToolTaskOutputDelta { stream: rip_kernel::ToolTaskStream::Stdout, artifacts: Some(a), .. } = &e.kind {
                        if let (Some(off), Some(len)) = (a.pointer("/range/offset_bytes").and_then(|x| x.as_u64()).or(a["offset_bytes"].as_u64()), a.pointer("/range/bytes").and_then(|x| x.as_u64()).or(a["bytes"].as_u64())) {
                            if off != next {
                                report.violation("C17:delta_ranges", case(), &format!("output delta range starts at {off}, expected {next}"));
                            }
                            next = off + len;
                        }
                    }
                }
            }
        }
    });
}

pub fn run(opts: Opts) -> i32 {
    let report = Report::new("C17", "exploration", opts.clone());
    if let Some(path) = &opts.replay {
        report.replay_by_re_enumeration(path);
    }
    report.set_rule(
        "part 1: every output of <=3 (quick) / <=4 (thorough) symbols from {a, LF, 2-byte, 4-byte, 0xFF} (<=10 bytes) x ALL compositions into \
         read chunks x preview limit 0..6 x artifact cap {0,1,3,8,unbounded} through the real foreground capture loop with a scripted \
         reader, plus 7 large outputs (8191/8192/8193/16385/20000/30000 bytes; greedy and bursty chunking) x 8 preview limits x 5 caps; \
         part 2: 6 blobs x every (offset, max_bytes) and every page size 1..6 through artifact_fetch; part 3: 15 pipe-mode task commands (incl. preview limits 0, 1 and 2 with multi-byte output) \
         x cancel moments through the production router; distinct = output / blob / (command, cancel)",
    );
    report.assume("PTY tasks are excluded (no usable PTY in this sandbox); cancel moments of real tasks are wall-clock points, judged only by the schedule-independent lifecycle grammar");
    report.assume("a trailing U+FFFD from a character cut by the preview limit is tolerated");
    let tier = report.tier();
    part_capture(&report, tier);
    part_paging(&report);
    part_tasks(&report, tier);
    report.sample(json!({"output_hex": "61c3a9f09f9880ff", "chunk_sizes": [1, 2, 4, 1], "preview_limit": 3, "artifact_cap": 8}));
    report.sample(json!({"blob": "aéb", "pages": "every (offset, max_bytes); sequential pages of 1..6 bytes"}));
    report.sample(json!({"task": "printf out; printf err >&2; printf '\\377x'", "cancel": "after_20ms"}));
    report.finish()
}
