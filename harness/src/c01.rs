//! C01 — per-stream total order (seq 0,1,2,... no gap, no duplicate, file order) under any schedule.
//!
//! Engine S: pairs (thorough: also triples) of real writer operations on one shared thread, from a
//! warm, a restarted and a cache-less pre-state, explored over all interleavings at lock /
//! publish / cache / log effect points up to a preemption bound; plus sessions and tasks writing
//! to the shared log concurrently. Oracle at quiescence: validated replay by a fresh EventLog,
//! per-stream 0..n-1 in file order, every acknowledged id present once, and the same again
//! after an authority restart followed by one more append to every thread.

use std::collections::{BTreeMap, HashMap};
use std::sync::{Arc, Mutex};

use rayon::prelude::*;
use rip_kernel::StreamKind;
use ripd::{
    CompactionAutoScheduleV1Request, CompactionAutoV1Request, CompactionCheckpointCumulativeV1Request,
    ProviderCursorRotateV1Request,
};
use serde_json::{json, Value};

use crate::common::{Opts, Report, Tier};
use crate::fixture::Fx;
use crate::sched::{explore, ActorBody, ActorCtx, Exec};

#[derive(Clone, Copy, Debug, PartialEq, Eq, Hash, PartialOrd, Ord)]
enum Op {
    Message,
    RunSpawned,
    RunEnded,
    SideEffect,
    CursorSet,
    CursorRotate,
    SelectionDecided,
    ManualCheckpoint,
    AutoCompaction,
    ScheduleCompaction,
    Branch,
    Handoff,
    ReaderReplay,
    StubSessionRun,
    LinkedStubRun,
}

const CORE_OPS: [Op; 13] = [
    Op::Message,
    Op::RunSpawned,
    Op::RunEnded,
    Op::SideEffect,
    Op::CursorSet,
    Op::CursorRotate,
    Op::SelectionDecided,
    Op::ManualCheckpoint,
    Op::AutoCompaction,
    Op::ScheduleCompaction,
    Op::Branch,
    Op::Handoff,
    Op::ReaderReplay,
];

#[derive(Clone, Copy, Debug, PartialEq, Eq, Hash)]
enum Pre {
    Warm,
    Restarted,
    RestartedNoSidecar,
    /// the thread's caches lag its last logged frame by one (the state a crash between the log
    /// append and the cache appends leaves) AND the log ends with another thread's frames, so the
    /// open-time recovery does not look at this thread; then an authority restart
    RestartedLaggingBehindForeignTail,
}

struct World {
    fx: Fx,
    thread: String,
    acks: Arc<Mutex<Vec<(usize, Op, Result<Option<String>, String>)>>>,
}

const FILTER: [&str; 20] = [
    "start",
    "cont.next_seq",
    "log.writer",
    "cont.publish",
    "cont.index.*",
    "log.write_body",
    "log.write_newline",
    "log.flush",
    "log.appended",
    "cache.append.open",
    "cache.append.flush",
    "cache.append.indexes",
    "cache.append.mr",
    "cache.append.comp",
    "cache.try_replay.open",
    "cache.rebuild.create",
    "cache.rebuild.flush",
    "cache.rebuild.indexes",
    "cache.rebuild.mr",
    "cache.rebuild.done",
];

fn do_op(fx_engine: &Arc<ripd::SessionEngine>, thread: &str, msg0: &str, sess0: &str, op: Op, ctx: &ActorCtx, rt: &Arc<tokio::runtime::Runtime>) -> Result<Option<String>, String> {
    let store = fx_engine.continuities();
    let link = ripd::ContinuityRunLink { continuity_id: thread.to_string(), message_id: msg0.to_string(), actor_id: "u".into(), origin: "o".into() };
    match op {
        Op::Message => store.append_message(thread, "u".into(), "o".into(), format!("by-{}", ctx.id)).map(Some),
        Op::RunSpawned => store.append_run_spawned(thread, msg0, &format!("sess-{}", ctx.id), "u".into(), "o".into()).map(Some),
        Op::RunEnded => store.append_run_ended(thread, msg0, sess0, "completed".into(), "u".into(), "o".into()).map(Some),
        Op::SideEffect => store
            .append_tool_side_effects(&link, sess0, ripd::ToolSideEffects { tool_id: format!("t{}", ctx.id), tool_name: "write".into(), affected_paths: Some(vec!["a".into()]), checkpoint_id: None })
            .map(Some),
        Op::CursorSet => store
            .verif_append_provider_cursor_updated(thread, "openresponses", Some("http://e".into()), Some(format!("m{}", ctx.id)), Some(json!({"previous_response_id": "r"})), "set", None)
            .map(Some),
        Op::CursorRotate => store
            .provider_cursor_rotate_v1(thread, ProviderCursorRotateV1Request { provider: None, endpoint: None, model: None, reason: Some("x".into()), actor_id: "u".into(), origin: "o".into() })
            .map(|r| r.cursor_event_id),
        Op::SelectionDecided => store.verif_append_context_selection_decided(thread, sess0, msg0, "recent_messages_v1", vec![], None).map(Some),
        Op::ManualCheckpoint => store
            .compaction_checkpoint_cumulative_v1(
                thread,
                CompactionCheckpointCumulativeV1Request { summary_markdown: Some("s".into()), summary_artifact_id: None, to_message_id: Some(msg0.to_string()), to_seq: None, stride_messages: None, actor_id: "u".into(), origin: "o".into() },
            )
            .map(|r| Some(r.0)),
        Op::AutoCompaction => store
            .compaction_auto_v1(thread, CompactionAutoV1Request { stride_messages: Some(1), max_new_checkpoints: Some(1), dry_run: Some(false), actor_id: "u".into(), origin: "o".into() })
            .map(|r| r.result.first().map(|c| c.checkpoint_id.clone())),
        Op::ScheduleCompaction => store
            .compaction_auto_schedule_v1(
                thread,
                CompactionAutoScheduleV1Request { stride_messages: Some(1), max_new_checkpoints: Some(1), block_on_inflight: Some(true), execute: Some(true), dry_run: Some(false), actor_id: "u".into(), origin: "o".into() },
            )
            .map(|r| r.result.first().map(|c| c.checkpoint_id.clone())),
        Op::Branch => store.branch(thread, None, None, None, "u".into(), "o".into()).map(|_| None),
        Op::Handoff => store.handoff(thread, None, (Some("sum".into()), None), None, None, ("u".into(), "o".into())).map(|_| None),
        Op::ReaderReplay => store.replay_events(thread).map(|_| None).map_err(|e| e.to_string()),
        Op::StubSessionRun => {
            let _g = rt.enter();
            let handle = fx_engine.create_session();
            ctx.block_on(fx_engine.verif_session_future(handle, "hi".into(), None, None));
            Ok(None)
        }
        Op::LinkedStubRun => {
            let _g = rt.enter();
            let m = store.append_message(thread, "u".into(), "o".into(), "run".into())?;
            let handle = fx_engine.create_session();
            store.append_run_spawned(thread, &m, &handle.session_id, "u".into(), "o".into())?;
            let l = ripd::ContinuityRunLink { continuity_id: thread.to_string(), message_id: m.clone(), actor_id: "u".into(), origin: "o".into() };
            ctx.block_on(fx_engine.verif_session_future(handle, "hi".into(), Some(l), None));
            Ok(Some(m))
        }
    }
}

fn make_world(rt: &Arc<tokio::runtime::Runtime>, pre: Pre, ops: &[Op]) -> (World, Vec<ActorBody>) {
    let mut fx = Fx::new(rt.clone());
    let store = fx.store();
    let thread = store.ensure_default().expect("thread");
    let msg0 = store.append_message(&thread, "u".into(), "o".into(), "m0".into()).expect("m0");
    let sess0 = "sess-pre".to_string();
    store.append_run_spawned(&thread, &msg0, &sess0, "u".into(), "o".into()).expect("rs");
    store
        .verif_append_provider_cursor_updated(&thread, "openresponses", Some("http://e".into()), Some("m".into()), Some(json!({"previous_response_id": "r0"})), "set", None)
        .expect("cursor");
    drop(store);
    match pre {
        Pre::Warm => {}
        Pre::Restarted => fx.restart(),
        Pre::RestartedNoSidecar => {
            fx.restart();
            fx.drop_caches();
        }
        Pre::RestartedLaggingBehindForeignTail => {
            let files: Vec<(std::path::PathBuf, Vec<u8>)> = crate::fixture::cache_files(&fx.cache_dir()).into_iter().filter_map(|p| std::fs::read(&p).ok().map(|b| (p, b))).collect();
            let store = fx.store();
            store.append_message(&thread, "u".into(), "o".into(), "logged, not cached".into()).expect("m1");
            // roll the thread's cache family back to before that append
            for p in crate::fixture::cache_files(&fx.cache_dir()) {
                if p.file_name().map(|n| n.to_string_lossy().starts_with(&thread)).unwrap_or(false) {
                    let _ = std::fs::remove_file(&p);
                }
            }
            for (p, b) in &files {
                let _ = std::fs::write(p, b);
            }
            store.branch(&thread, Some("foreign".into()), None, Some(1), "u".into(), "o".into()).expect("child");
            drop(store);
            fx.restart();
        }
    }
    let acks = Arc::new(Mutex::new(Vec::new()));
    let mut actors: Vec<ActorBody> = Vec::new();
    for &op in ops {
        let engine = fx.engine.clone();
        let thread = thread.clone();
        let msg0 = msg0.clone();
        let sess0 = sess0.clone();
        let acks = acks.clone();
        let rt = rt.clone();
        actors.push(Box::new(move |ctx: &ActorCtx| {
            let r = do_op(&engine, &thread, &msg0, &sess0, op, ctx, &rt);
            acks.lock().unwrap().push((ctx.id, op, r));
        }));
    }
    (World { fx, thread, acks }, actors)
}

/// (signature suffix, message) on the first broken clause.
fn check_log(fx: &Fx, acks: &[(usize, Op, Result<Option<String>, String>)], phase: &str) -> Result<(), (String, String)> {
    let events = match fx.truth_all() {
        Ok(e) => e,
        Err(e) => return Err((format!("unparsable_log:{phase}"), format!("the log does not parse: {e}"))),
    };
    if let Err(e) = fx.validated() {
        let msg = e.to_string();
        let sig = if msg.contains("expected") { "validated_replay_seq" } else { "validated_replay" };
        return Err((format!("{sig}:{phase}"), format!("validated replay fails: {msg}")));
    }
    let mut per: BTreeMap<(String, String), Vec<u64>> = BTreeMap::new();
    let mut ids: HashMap<String, usize> = HashMap::new();
    for e in &events {
        per.entry((format!("{:?}", e.stream_kind()), e.stream_id().to_string())).or_default().push(e.seq);
        *ids.entry(e.id.clone()).or_insert(0) += 1;
    }
    for ((k, id), seqs) in &per {
        let want: Vec<u64> = (0..seqs.len() as u64).collect();
        if *seqs != want {
            return Err((format!("seq_order:{phase}"), format!("stream {k}/{id} has seqs {:?} in file order", seqs)));
        }
    }
    for (actor, op, r) in acks {
        if let Ok(Some(id)) = r {
            let n = ids.get(id).copied().unwrap_or(0);
            if n != 1 {
                return Err((format!("ack_count:{phase}"), format!("actor {actor} {op:?} was acknowledged with id {id} which appears {n} times in the log")));
            }
        }
    }
    Ok(())
}

fn check_exec(report: &Report, label: &str, pre: Pre, ops: &[Op], world: &World, exec: &Exec) {
    let case = || {
        json!({
            "engine": "S",
            "harness": "c01.writers",
            "pre_state": format!("{pre:?}"),
            "ops": ops.iter().map(|o| format!("{o:?}")).collect::<Vec<_>>(),
            "choice_points_only": exec.decisions.iter().filter(|d| d.enabled.len() > 1).map(|d| d.chosen).collect::<Vec<_>>(),
            "schedule": exec.schedule_string(),
            "preemptions": exec.preemptions,
        })
    };
    if exec.deadlock {
        report.violation(&format!("C01:deadlock:{label}"), case(), "no enabled actor while some are unfinished");
        return;
    }
    if !exec.panicked.is_empty() {
        report.violation(&format!("C01:panic:{label}"), case(), &format!("actors panicked: {:?}", exec.panicked));
        return;
    }
    let acks = world.acks.lock().unwrap().clone();
    if let Err((sig, msg)) = check_log(&world.fx, &acks, "quiescence") {
        report.violation(&format!("C01:{sig}:{label}"), case(), &msg);
        return;
    }
    // restart, append once more to every continuity, check again
    let mut fx2 = Fx {
        dir: crate::common::scratch_dir("c01x"),
        data: world.fx.data.clone(),
        root: world.fx.root.clone(),
        engine: world.fx.engine.clone(),
        rt: world.fx.rt.clone(),
    };
    fx2.restart();
    let store = fx2.store();
    let threads: Vec<String> = fx2
        .truth_all()
        .unwrap_or_default()
        .iter()
        .filter(|e| e.stream_kind() == StreamKind::Continuity)
        .map(|e| e.stream_id().to_string())
        .collect::<std::collections::BTreeSet<_>>()
        .into_iter()
        .collect();
    for t in &threads {
        if let Err(e) = store.append_message(t, "u".into(), "o".into(), "after-restart".into()) {
            report.violation(&format!("C01:append_after_restart_failed:{label}"), case(), &format!("append after restart failed on {t}: {e}"));
            return;
        }
    }
    if let Err((sig, msg)) = check_log(&fx2, &acks, "after_restart") {
        report.violation(&format!("C01:{sig}:{label}"), case(), &msg);
    }
    let _ = &world.thread;
}

fn run_config(report: &Report, pre: Pre, ops: &[Op], bound: usize, extra_filter: &[&'static str]) {
    let rt = Arc::new(tokio::runtime::Builder::new_multi_thread().worker_threads(1).enable_all().build().expect("rt"));
    let label = format!("{}", ops.iter().map(|o| format!("{o:?}")).collect::<Vec<_>>().join("+"));
    let mut filter: Vec<&'static str> = FILTER.to_vec();
    filter.extend_from_slice(extra_filter);
    let mut outcomes: std::collections::HashSet<Vec<String>> = std::collections::HashSet::new();
    let stats = {
        let outcomes_ref = &mut outcomes;
        explore(
            bound,
            u64::MAX,
            false,
            Some(filter),
            &|| report.over_cap(),
            &|| make_world(&rt, pre, ops),
            &mut |world: &World, exec: &Exec| {
                report.eval(Some(&(pre, ops, exec.trace_hash())));
                let shape: Vec<String> = world
                    .fx
                    .truth_all()
                    .unwrap_or_default()
                    .iter()
                    .map(|e| format!("{}:{}", &e.stream_id()[..4.min(e.stream_id().len())], crate::fixture::kind_name(e)))
                    .collect();
                outcomes_ref.insert(shape);
                check_exec(report, &label, pre, ops, world, exec);
            },
        )
    };
    report.add_states(stats.distinct_traces.len() as u64, stats.steps);
    report.add_traces_validated(stats.executions);
    report.count("executions", stats.executions);
    report.count("configs", 1);
    if outcomes.len() > 1 {
        report.count("configs_with_more_than_one_log_outcome", 1);
    }
    if stats.by_preemptions.len() > 1 {
        report.count("configs_with_preempted_executions", 1);
    }
    report.max_counter("max_choice_points", stats.max_decisions as u64);
    if stats.capped {
        report.not_exhaustive(&format!("{label}/{pre:?}: wall cap hit after {} executions at bound {bound}", stats.executions));
    }
}

/// Several emitters of ONE task (its stdout pump, its stderr pump and its main loop share the
/// task's counter) beside a thread append on the shared log: all interleavings at the task's
/// publish / buffer / counter hooks and the log writer's, up to the preemption bound. The task
/// stream must read 0..n-1 in the log's file order and validated replay must pass.
const TASK_FILTER: [&str; 9] = ["start", "task.publish", "task.buffer", "task.seq", "log.writer", "log.write_body", "log.flush", "log.appended", "cont.next_seq"];

fn task_emitters_world(rt: &Arc<tokio::runtime::Runtime>, emitters: usize) -> (World, Vec<ActorBody>) {
    use rip_kernel::EventKind;
    let fx = Fx::new(rt.clone());
    let app = {
        let _g = rt.enter();
        ripd::verif_export::VerifApp::new(fx.engine.clone(), false)
    };
    let thread = fx.store().ensure_default().expect("thread");
    let mk = |who: usize| {
        vec![
            EventKind::ToolTaskCancelRequested { task_id: "t".into(), reason: format!("e{who}.1") },
            EventKind::ToolTaskCancelRequested { task_id: "t".into(), reason: format!("e{who}.2") },
        ]
    };
    let (_tid, futs) = rt
        .block_on(app.create_task_emit_futures(json!({"tool": "bash", "args": {"command": "true"}}), (0..emitters).map(mk).collect()))
        .expect("task");
    let mut actors: Vec<ActorBody> = Vec::new();
    for fut in futs {
        let rt2 = rt.clone();
        actors.push(Box::new(move |ctx: &ActorCtx| {
            let _g = rt2.enter();
            ctx.block_on(fut);
        }));
    }
    let store = fx.store();
    let th = thread.clone();
    actors.push(Box::new(move |_ctx: &ActorCtx| {
        let _ = store.append_message(&th, "u".into(), "o".into(), "beside the task".into());
    }));
    (World { fx, thread, acks: Arc::new(Mutex::new(Vec::new())) }, actors)
}

fn task_emitters_check(report: &Report, emitters: usize, world: &World, exec: &Exec) {
    let case = json!({
        "engine": "S",
        "harness": "c01.task_emitters",
        "emitters": emitters,
        "choice_points_only": exec.decisions.iter().filter(|d| d.enabled.len() > 1).map(|d| d.chosen).collect::<Vec<_>>(),
        "schedule": exec.schedule_string(),
        "preemptions": exec.preemptions,
    });
    if exec.deadlock || !exec.panicked.is_empty() {
        report.violation("C01:deadlock_or_panic:task_emitters", case, &format!("deadlock={} panicked={:?}", exec.deadlock, exec.panicked));
        return;
    }
    if let Err((sig, msg)) = check_log(&world.fx, &[], "quiescence") {
        report.violation(&format!("C01:{sig}:TaskEmitters"), case, &msg);
    }
}

fn task_emitters(report: &Report, emitters: usize, bound: usize) {
    let rt = Arc::new(tokio::runtime::Builder::new_multi_thread().worker_threads(1).enable_all().build().expect("rt"));
    let mut outcomes: std::collections::HashSet<Vec<u64>> = std::collections::HashSet::new();
    let stats = {
        let outcomes_ref = &mut outcomes;
        explore(
            bound,
            u64::MAX,
            false,
            Some(TASK_FILTER.to_vec()),
            &|| report.over_cap(),
            &|| task_emitters_world(&rt, emitters),
            &mut |world: &World, exec: &Exec| {
                report.eval(Some(&("task_emitters", emitters, exec.trace_hash())));
                // outcome = which emitter's frames come in which order in the log (by timestamp-free identity: seq)
                let order: Vec<u64> = world.fx.truth_all().unwrap_or_default().iter().filter(|e| e.stream_kind() == StreamKind::Task).map(|e| match &e.kind { rip_kernel::EventKind::ToolTaskCancelRequested { reason, .. } => reason.bytes().fold(0u64, |a, b| a * 31 + b as u64), _ => 0 }).collect();
                outcomes_ref.insert(order);
                task_emitters_check(report, emitters, world, exec);
            },
        )
    };
    report.add_states(stats.distinct_traces.len() as u64, stats.steps);
    report.add_traces_validated(stats.executions);
    report.count("executions", stats.executions);
    report.count(&format!("task_emitter_executions[{emitters}]"), stats.executions);
    report.count(&format!("task_emitter_distinct_log_orders[{emitters}]"), outcomes.len() as u64);
    if outcomes.len() < 2 {
        crate::common::machinery_failure("c01.task_emitters: fewer than two distinct log orders were explored (vacuous)");
    }
    if stats.capped {
        report.not_exhaustive(&format!("task emitters x{emitters}: wall cap hit after {} executions at bound {bound}", stats.executions));
    }
}

/// Runs started through `POST /sessions/{id}/input`: whatever the server answers, the session
/// stream in the log must read 0..n-1 and the store must replay.
fn session_inputs(report: &Report) {
    use std::time::{Duration, Instant};
    let rt = crate::provx::new_mt_rt();
    for (label, posts, wait_between) in [("once", 1usize, false), ("twice_back_to_back", 2, false), ("twice_after_the_first_run_ended", 2, true), ("three_times", 3, true)] {
        for input in ["hello", "{\"tool\": \"ls\", \"args\": {}}"] {
            let app = crate::provx::App::new(rt.clone(), None);
            let (st, body) = app.request("POST", "/sessions", None);
            let sid = serde_json::from_slice::<Value>(&body).ok().and_then(|v| v["session_id"].as_str().map(|s| s.to_string())).unwrap_or_default();
            if st >= 300 || sid.is_empty() {
                crate::common::machinery_failure(&format!("POST /sessions answered {st}"));
            }
            let mut statuses = Vec::new();
            let ended = |n: usize| app.log_events().iter().filter(|e| e.stream_id() == sid && matches!(e.kind, rip_kernel::EventKind::SessionEnded { .. })).count() >= n;
            let mut accepted = 0usize;
            for k in 0..posts {
                let (st, _) = app.request("POST", &format!("/sessions/{sid}/input"), Some(json!({"input": input})));
                statuses.push(st);
                if st == 202 {
                    accepted += 1;
                }
                if wait_between && k + 1 < posts {
                    let t0 = Instant::now();
                    while !ended(accepted) && t0.elapsed() < Duration::from_secs(10) {
                        std::thread::sleep(Duration::from_millis(10));
                    }
                }
            }
            let t0 = Instant::now();
            while !ended(accepted) && t0.elapsed() < Duration::from_secs(10) {
                std::thread::sleep(Duration::from_millis(10));
            }
            std::thread::sleep(Duration::from_millis(50));
            report.eval(Some(&("session_inputs", label, input)));
            report.count("session_input_histories", 1);
            let seqs: Vec<u64> = app.log_events().iter().filter(|e| e.stream_id() == sid).map(|e| e.seq).collect();
            let case = json!({"engine": "H-histories", "harness": "c01.session_inputs", "history": label, "input": input, "http_statuses": statuses});
            if seqs != (0..seqs.len() as u64).collect::<Vec<_>>() {
                report.violation(&format!("C01:stream_numbering:session_inputs:{label}"), case, &format!("{posts} x POST /sessions/{{id}}/input (answers {statuses:?}): the session stream in the log reads {seqs:?}"));
            } else if let Err(e) = rip_log::EventLog::new(app.data.join("events.jsonl")).and_then(|l| l.replay_validated()) {
                report.violation(&format!("C01:validated_replay:session_inputs:{label}"), case, &format!("validated replay fails: {e}"));
            }
        }
    }
}

/// Environment answer "error": the k-th log append inside one op FAILS (the log's fault seam, armed
/// for the calling thread). A failed append may lose its frame - it must not lose or repeat a
/// NUMBER: whatever is appended to the store afterwards, every stream still reads 0..n-1 and
/// validated replay passes, also after a restart and one more append. Pre-states: the op is the
/// authority's first append to the thread after a restart (counter resolved from the log / the
/// caches at that moment), or a later one (warm counter).
fn failed_appends(report: &Report) {
    use crate::hops::{apply, name, Track, H};
    use std::sync::atomic::{AtomicI64, Ordering};
    struct FailEnv {
        left: Arc<AtomicI64>,
        /// "log.append": the append fails before anything is written; "log.flush": the frame has been
        /// handed to the log's writer and the flush that puts it on disk fails (a full disk)
        at: &'static str,
    }
    impl crate::sched::ActorEnv for FailEnv {
        fn fail(&self, name: &str) -> bool {
            if name != self.at {
                return false;
            }
            let v = self.left.load(Ordering::SeqCst);
            if v < 0 {
                return false;
            }
            self.left.store(v - 1, Ordering::SeqCst);
            v == 0
        }
    }
    let failing: Vec<H> = vec![
        H::Msg,
        H::RunSpawnOnly,
        H::RunEndOldest,
        H::Side,
        H::Cursor(0),
        H::Rotate,
        H::SelPair,
        H::Ckpt(0),
        H::Auto { stride: 1, max_new: 2, dry: false },
        H::Sched { stride: 1, max_new: 1, block: false, execute: true, dry: false },
        H::Branch(0),
        H::Handoff(0),
    ];
    let pres: Vec<Vec<H>> = vec![vec![H::Msg], vec![H::RunSpawnOnly, H::Msg], vec![H::Msg, H::Cursor(0), H::Ckpt(0), H::Msg]];
    let mids: Vec<Vec<H>> = vec![vec![], vec![H::Restart], vec![H::DropCaches, H::Restart]];
    let mut cases: Vec<(Vec<H>, usize, usize, &'static str)> = Vec::new();
    for pre in &pres {
        for mid in &mids {
            for op in &failing {
                for k in 0..3usize {
                    for (again, seam) in [(false, "log.append"), (true, "log.append"), (false, "log.flush"), (true, "log.flush")] {
                        let mut h = pre.clone();
                        h.extend(mid.iter().cloned());
                        let at = h.len();
                        h.push(op.clone());
                        if again {
                            h.push(op.clone());
                        }
                        h.push(H::Msg);
                        cases.push((h, at, k, seam));
                    }
                }
            }
        }
    }
    report.set_extra("failed_append_histories", json!(cases.len()));
    let failed_total = std::sync::atomic::AtomicUsize::new(0);
    cases.par_iter().for_each_init(crate::fixture::new_rt, |rt, (hist, at, k, seam)| {
        if report.over_cap() {
            return;
        }
        let left = Arc::new(AtomicI64::new(-1));
        crate::sched::set_thread_env(Some(Box::new(FailEnv { left: left.clone(), at: seam })));
        let mut fx = Fx::new(rt.clone());
        let thread = fx.store().ensure_default().expect("thread");
        let mut t = Track::new(thread.clone());
        let mut failed = false;
        for (i, op) in hist.iter().enumerate() {
            if i == *at {
                left.store(*k as i64, Ordering::SeqCst);
            }
            let _ = apply(&mut fx, &mut t, op);
            if i == *at {
                failed = left.swap(-1, Ordering::SeqCst) < 0;
            }
        }
        crate::sched::set_thread_env(None);
        if failed {
            failed_total.fetch_add(1, Ordering::SeqCst);
            report.count("ops_in_which_a_log_append_failed", 1);
        }
        report.eval(Some(&("failed_append", hist.iter().map(name).collect::<Vec<_>>(), at, k, seam)));
        let case = json!({"engine": "H-histories", "harness": "c01.failed_appends", "history": hist.iter().map(name).collect::<Vec<_>>(), "failing_log_append": {"op_index": at, "append_no": k, "fails_at": seam}});
        let sig_op = name(&hist[*at]);
        let warm = if hist[..*at].iter().any(|h| matches!(h, H::Restart)) { "first_append_after_restart" } else { "warm" };
        if let Err((sig, msg)) = check_log(&fx, &[], "after_failed_append") {
            report.violation(&format!("C01:{sig}:{sig_op}:{warm}:{seam}"), case, &msg);
            return;
        }
        fx.restart();
        let mut threads = vec![thread.clone()];
        threads.extend(t.children.iter().cloned());
        for th in &threads {
            let _ = fx.store().append_message(th, "verif".into(), "user".into(), "after restart".into());
        }
        if let Err((sig, msg)) = check_log(&fx, &[], "after_failed_append_restart_append") {
            report.violation(&format!("C01:{sig}:{sig_op}:{warm}:{seam}"), case, &msg);
        }
    });
    if !report.over_cap() && failed_total.load(std::sync::atomic::Ordering::SeqCst) == 0 {
        crate::common::machinery_failure("c01: no injected log-append failure was observed (the fault seam is not reached)");
    }
}

/// Ids of the wrong kind. Streams are keyed by (kind, id); every id-addressed writer route is
/// called with the id of a stream of EACH kind (a finished session, a finished task, the thread
/// itself, a fresh uuid, a hostile string). Whatever the route answers, every (kind, id) stream of
/// the log must still read 0..n-1 in file order and validated replay must pass, and again after a
/// restart and one more append.
fn cross_kind_ids(report: &Report) {
    use std::time::{Duration, Instant};
    let rt = crate::provx::new_mt_rt();
    let routes: Vec<(&str, Value)> = vec![
        ("/threads/{id}/messages", json!({"content": "to this id", "actor_id": "u", "origin": "o"})),
        ("/threads/{id}/branch", json!({"title": "b", "actor_id": "u", "origin": "o"})),
        ("/threads/{id}/handoff", json!({"title": "h", "summary_markdown": "s", "actor_id": "u", "origin": "o"})),
        ("/threads/{id}/compaction-checkpoint", json!({"summary_markdown": "s", "actor_id": "u", "origin": "o"})),
        ("/threads/{id}/compaction-auto", json!({"stride_messages": 1, "actor_id": "u", "origin": "o"})),
        ("/threads/{id}/compaction-auto-schedule", json!({"stride_messages": 1, "execute": true, "actor_id": "u", "origin": "o"})),
        ("/threads/{id}/provider-cursor-rotate", json!({"provider": "openresponses", "endpoint": "http://e", "model": "m", "reason": "r", "actor_id": "u", "origin": "o"})),
        ("/sessions/{id}/input", json!({"input": "hello"})),
        ("/sessions/{id}/cancel", json!({})),
        ("/tasks/{id}/cancel", json!({"reason": "r"})),
        ("/tasks/{id}/stdin", json!({"chunk_b64": "eA=="})),
        ("/tasks/{id}/signal", json!({"signal": "TERM"})),
    ];
    let mut accepted_for_own_kind = 0usize;
    for id_kind in ["session", "task", "thread", "fresh_session_not_started", "unknown_uuid", "hostile"] {
        for (route, body) in &routes {
            let app = crate::provx::App::new(rt.clone(), None);
            // a thread with one message and its stub run (a session stream), one finished task
            let thread = app.ensure_thread();
            let (_, sid) = match app.post_and_wait(&thread, "hello", None, Duration::from_secs(20)) {
                Ok(x) => x,
                Err(e) => crate::common::machinery_failure(&format!("c01.cross_kind_ids: the first run did not end: {e}")),
            };
            let (st, b) = app.request("POST", "/tasks", Some(json!({"tool": "bash", "args": {"command": "true"}})));
            let task = serde_json::from_slice::<Value>(&b).ok().and_then(|v| v["task_id"].as_str().map(|s| s.to_string())).unwrap_or_default();
            if st >= 300 || task.is_empty() {
                crate::common::machinery_failure(&format!("c01.cross_kind_ids: POST /tasks answered {st}"));
            }
            let t0 = Instant::now();
            loop {
                let (_, b) = app.request("GET", &format!("/tasks/{task}"), None);
                let stt = serde_json::from_slice::<Value>(&b).ok().and_then(|v| v["status"].as_str().map(|s| s.to_string())).unwrap_or_default();
                if matches!(stt.as_str(), "exited" | "failed" | "cancelled") {
                    break;
                }
                if t0.elapsed() > Duration::from_secs(20) {
                    crate::common::machinery_failure("c01.cross_kind_ids: the task did not end");
                }
                std::thread::sleep(Duration::from_millis(5));
            }
            let fresh = {
                let (_, b) = app.request("POST", "/sessions", None);
                serde_json::from_slice::<Value>(&b).ok().and_then(|v| v["session_id"].as_str().map(|s| s.to_string())).unwrap_or_default()
            };
            let id = match id_kind {
                "session" => sid.clone(),
                "task" => task.clone(),
                "thread" => thread.clone(),
                "fresh_session_not_started" => fresh.clone(),
                "unknown_uuid" => "7facdca9-2f44-4b00-9329-65eec1b69ad5".to_string(),
                _ => "..%2Fevents".to_string(),
            };
            let uri = route.replace("{id}", &id);
            let (status, _) = app.request("POST", &uri, Some(body.clone()));
            let own = (route.starts_with("/threads/") && id_kind == "thread") || (route.starts_with("/sessions/") && id_kind == "fresh_session_not_started");
            if own && status < 300 {
                accepted_for_own_kind += 1;
            }
            // let whatever the call started come to rest: the log stops growing
            let mut len = app.log_events().len();
            let t0 = Instant::now();
            let mut quiet = 0;
            while quiet < 3 && t0.elapsed() < Duration::from_secs(10) {
                std::thread::sleep(Duration::from_millis(15));
                let now = app.log_events().len();
                quiet = if now == len { quiet + 1 } else { 0 };
                len = now;
            }
            report.eval(Some(&("cross_kind_ids", id_kind, route)));
            report.count("cross_kind_id_cases", 1);
            let case = json!({"engine": "H-histories", "harness": "c01.cross_kind_ids", "route": route, "id_of": id_kind, "http_status": status});
            let check = |phase: &str| -> bool {
                let events = app.log_events();
                let mut next: std::collections::HashMap<(rip_kernel::StreamKind, String), u64> = std::collections::HashMap::new();
                for e in &events {
                    let n = next.entry((e.stream_kind(), e.stream_id().to_string())).or_insert(0);
                    if e.seq != *n {
                        report.violation(
                            &format!("C01:stream_numbering:cross_kind_id:{id_kind}:{route}"),
                            case.clone(),
                            &format!("POST {route} with the id of a {id_kind} answered {status}; {phase}: stream ({:?}, id of the {id_kind}) has seq {} where {} is due ({})", e.stream_kind(), e.seq, *n, crate::common::compact(&serde_json::to_value(&e.kind).unwrap_or_default(), 160)),
                        );
                        return false;
                    }
                    *n += 1;
                }
                if let Err(e) = rip_log::EventLog::new(app.data.join("events.jsonl")).and_then(|l| l.replay_validated()) {
                    report.violation(&format!("C01:validated_replay:cross_kind_id:{id_kind}:{route}"), case.clone(), &format!("{phase}: validated replay fails: {e}"));
                    return false;
                }
                true
            };
            if !check("after the call") {
                continue;
            }
            // restart on the same store, one more message on the thread
            let data = app.data.clone();
            let root = app.root.clone();
            if let Ok(engine) = ripd::SessionEngine::new(data, root, None) {
                let _ = engine.continuities().append_message(&thread, "u".into(), "o".into(), "after restart".into());
                drop(engine);
                check("after a restart and one more append");
            }
        }
    }
    if accepted_for_own_kind < 8 {
        crate::common::machinery_failure(&format!("c01.cross_kind_ids: only {accepted_for_own_kind} routes accepted an id of their own kind: the request bodies are out of date"));
    }
}

pub fn replay(report: &Report, case: &Value) {
    let pre = match case["pre_state"].as_str().unwrap_or("Warm") {
        "Restarted" => Pre::Restarted,
        "RestartedNoSidecar" => Pre::RestartedNoSidecar,
        "RestartedLaggingBehindForeignTail" => Pre::RestartedLaggingBehindForeignTail,
        _ => Pre::Warm,
    };
    let all: Vec<Op> = CORE_OPS.iter().copied().chain([Op::StubSessionRun, Op::LinkedStubRun]).collect();
    let ops: Vec<Op> = case["ops"].as_array().map(|a| a.iter().filter_map(|v| all.iter().copied().find(|o| format!("{o:?}") == v.as_str().unwrap_or(""))).collect()).unwrap_or_default();
    let prefix: Vec<usize> = case["choice_points_only"].as_array().map(|a| a.iter().filter_map(|v| v.as_u64().map(|x| x as usize)).collect()).unwrap_or_default();
    let rt = Arc::new(tokio::runtime::Builder::new_multi_thread().worker_threads(1).enable_all().build().expect("rt"));
    let mut filter: Vec<&'static str> = FILTER.to_vec();
    filter.extend_from_slice(&["sess.*", "snapshot.*"]);
    let mut first: Option<Vec<String>> = None;
    for round in 0..2 {
        let (world, actors) = make_world(&rt, pre, &ops);
        let exec = crate::sched::run_once(actors, &prefix, false, Some(filter.clone()));
        println!("replay round {round}: {:?}", exec.schedule_string());
        match &first {
            None => first = Some(exec.schedule_string()),
            Some(f) if *f != exec.schedule_string() => crate::common::machinery_failure("replay not deterministic"),
            _ => {}
        }
        if round == 1 {
            report.eval(Some(&"replay"));
            let label = ops.iter().map(|o| format!("{o:?}")).collect::<Vec<_>>().join("+");
            check_exec(report, &label, pre, &ops, &world, &exec);
        }
    }
}

pub fn run(opts: Opts) -> i32 {
    let report = Report::new("C01", "model_checking", opts.clone());
    report.set_rule(
        "engine S: every unordered pair (thorough: plus triples of the 5 simplest ops) of real writer operations {message, run_spawned, \
         run_ended, tool side effects, cursor set, cursor rotate (read-then-append), selection decided, manual checkpoint, auto \
         compaction, scheduled compaction, branch, handoff, reader replay (cache rebuild)} on one shared thread, from 4 pre-states \
         (warm counter; restarted; restarted with the sidecar directory deleted; restarted with caches that lag the last logged frame while the log ends with another thread), plus sessions/linked runs writing to the shared log; \
         all interleavings at lock / publish / cache / log effect hooks up to the preemption bound; state = distinct executed schedule",
    );
    report.assume("scheduling granularity = hook points; preemption bound 1 (quick) / 2 (thorough, 3 for message-only pairs); 2-3 actors, one op each");
    report.assume("sequential part (engine P): every provider script with <=1 function call x 7 tool_choice settings x 2 history modes through the production router; oracle = every stream of the log reads 0..n-1 (executed, refused, failed and unknown-tool branches each synthesize frames from the session counter)");
    report.assume("oracle: fresh EventLog validated replay, per-stream 0..n-1 in file order, acknowledged ids exactly once, and again after restart + one append per thread");
    crate::sched::install_hooks();
    if let Some(path) = &opts.replay {
        let case = crate::common::load_replay_case(path);
        match case["harness"].as_str().unwrap_or("") {
            // sequential parts: re-run the (seconds-long) enumeration judging only the saved case
            "c01.session_inputs" => {
                report.replay_by_re_enumeration(path);
                session_inputs(&report);
            }
            "c01.task_emitters" => {
                let emitters = case["emitters"].as_u64().unwrap_or(2) as usize;
                let prefix: Vec<usize> = case["choice_points_only"].as_array().map(|a| a.iter().filter_map(|v| v.as_u64().map(|x| x as usize)).collect()).unwrap_or_default();
                let rt = Arc::new(tokio::runtime::Builder::new_multi_thread().worker_threads(1).enable_all().build().expect("rt"));
                let mut first: Option<Vec<String>> = None;
                for round in 0..2 {
                    let (world, actors) = task_emitters_world(&rt, emitters);
                    let exec = crate::sched::run_once(actors, &prefix, false, Some(TASK_FILTER.to_vec()));
                    println!("replay round {round}: {:?}", exec.schedule_string());
                    match &first {
                        None => first = Some(exec.schedule_string()),
                        Some(f) if *f != exec.schedule_string() => crate::common::machinery_failure("replay not deterministic"),
                        _ => {}
                    }
                    if round == 1 {
                        report.eval(Some(&"replay"));
                        task_emitters_check(&report, emitters, &world, &exec);
                    }
                }
            }
            "c05.failed_writes" => crate::c05::replay_failed_write(&report, &case, "C01"),
            "c01.failed_appends" => {
                report.replay_by_re_enumeration(path);
                failed_appends(&report);
            }
            "c01.cross_kind_ids" => {
                report.replay_by_re_enumeration(path);
                cross_kind_ids(&report);
            }
            "c07.termination_numbering" => {
                report.replay_by_re_enumeration(path);
                crate::c07::termination_numbering_sweep(&report);
            }
            h if h.starts_with("c16.") => {
                report.replay_by_re_enumeration(path);
                crate::c16::numbering_sweep(&report);
            }
            _ => replay(&report, &case),
        }
        return report.finish();
    }
    let tier = report.tier();
    let bound = tier.pick(1, 2);
    let mut configs: Vec<(Pre, Vec<Op>, usize, Vec<&'static str>)> = Vec::new();
    for pre in [Pre::Warm, Pre::Restarted, Pre::RestartedNoSidecar, Pre::RestartedLaggingBehindForeignTail] {
        for (i, a) in CORE_OPS.iter().enumerate() {
            for b in &CORE_OPS[i..] {
                if *a == Op::ReaderReplay && *b == Op::ReaderReplay {
                    continue;
                }
                configs.push((pre, vec![*a, *b], bound, vec![]));
            }
        }
        // sessions and linked runs share the log writer with thread appends
        configs.push((pre, vec![Op::StubSessionRun, Op::Message], bound, vec!["sess.*", "snapshot.*"]));
        configs.push((pre, vec![Op::StubSessionRun, Op::StubSessionRun], bound, vec!["sess.*", "snapshot.*"]));
        configs.push((pre, vec![Op::LinkedStubRun, Op::Message], bound, vec!["sess.*", "snapshot.*"]));
        if tier == Tier::Thorough {
            let simple = [Op::Message, Op::RunEnded, Op::SideEffect, Op::CursorSet, Op::ReaderReplay];
            for a in simple {
                for b in simple {
                    for c in simple {
                        if a <= b && b <= c && !(a == Op::ReaderReplay && c == Op::ReaderReplay && b == Op::ReaderReplay) {
                            configs.push((pre, vec![a, b, c], 2, vec![]));
                        }
                    }
                }
            }
            configs.push((pre, vec![Op::Message, Op::Message], 3, vec![]));
            configs.push((pre, vec![Op::LinkedStubRun, Op::LinkedStubRun], 2, vec!["sess.*", "snapshot.*"]));
        }
    }
    report.set_extra("configs_total", json!(configs.len()));
    report.sample(json!({"pre_state": "RestartedNoSidecar", "ops": ["Message", "ReaderReplay"], "bound": bound}));
    report.sample(json!({"pre_state": "Warm", "ops": ["CursorRotate", "Message"], "bound": bound}));
    report.sample(json!({"pre_state": "Restarted", "ops": ["StubSessionRun", "Message"], "bound": bound}));
    // the sequential parts (engine P, real runtime; hooks pass through for threads that are not
    // actors) run beside the schedule exploration
    std::thread::scope(|scope| {
        let report = &report;
        scope.spawn(move || {
            // the counters through every branch of the provider tool loop
            crate::c16::numbering_sweep(report);
            // the counters through every way a provider response can end
            crate::c07::termination_numbering_sweep(report);
            // every way of starting runs on ONE session through the HTTP API (input once, twice in a
            // row, twice after the first run ended, on two sessions)
            session_inputs(report);
            // every id-addressed writer route called with the id of a stream of every kind
            cross_kind_ids(report);
            // the k-th log append inside one op fails; the numbering must survive it
            failed_appends(report);
        });
        // every write call of a history fails once with ENOSPC (system-call shim); numbering clauses
        scope.spawn(move || crate::c05::failed_write_sweep(report, "C01"));
        // several emitters of one task beside a thread append
        scope.spawn(move || {
            task_emitters(report, 2, tier.pick(2, 3));
            if tier == Tier::Thorough {
                task_emitters(report, 3, 2);
            }
        });
        configs.par_iter().for_each(|(pre, ops, b, extra)| {
            if report.over_cap() {
                return;
            }
            run_config(report, *pre, ops, *b, extra);
        });
    });
    report.finish()
}
