//! The read capabilities of a continuity, bundled into one comparable JSON answer (shared by
//! C04, C05, C02). Fields minted by the query itself (timestamps, fresh ids) are not included.

use ripd::{
    CompactionCutPointsV1Request, CompactionStatusV1Request, ContextSelectionStatusV1Request, ContinuityStore,
    ProviderCursorStatusV1Request,
};
use serde_json::{json, Value};

fn res<T: serde::Serialize>(r: Result<T, String>) -> Value {
    match r {
        Ok(v) => json!({"ok": serde_json::to_value(v).unwrap_or(Value::Null)}),
        Err(e) => json!({"err": e}),
    }
}

pub fn replay_json(store: &ContinuityStore, thread: &str) -> Value {
    match store.replay_events(thread) {
        Ok(ev) => json!({"ok": ev.iter().map(crate::fixture::event_json).collect::<Vec<_>>()}),
        Err(e) => json!({"err": e.to_string()}),
    }
}

/// name -> answer for every read-only capability (small parameter domain).
pub fn read_answers(store: &ContinuityStore, thread: &str, light: bool) -> Vec<(String, Value)> {
    let mut out: Vec<(String, Value)> = Vec::new();
    out.push(("replay_events".into(), replay_json(store, thread)));
    let strides: &[u64] = if light { &[1, 2] } else { &[1, 2, 3] };
    let limits: &[u32] = if light { &[32] } else { &[1, 32] };
    for &s in strides {
        for &l in limits {
            out.push((
                format!("compaction_cut_points_v1(stride={s},limit={l})"),
                res(store.compaction_cut_points_v1(thread, CompactionCutPointsV1Request { stride_messages: Some(s), limit: Some(l) })),
            ));
        }
        out.push((
            format!("compaction_status_v1(stride={s})"),
            res(store.compaction_status_v1(thread, CompactionStatusV1Request { stride_messages: Some(s) })),
        ));
    }
    out.push(("provider_cursor_status_v1".into(), res(store.provider_cursor_status_v1(thread, ProviderCursorStatusV1Request {}))));
    for l in [1u32, 10, 50] {
        if light && l != 10 {
            continue;
        }
        out.push((
            format!("context_selection_status_v1(limit={l})"),
            res(store.context_selection_status_v1(thread, ContextSelectionStatusV1Request { limit: Some(l) })),
        ));
    }
    out
}
