//! The read capabilities of a continuity, bundled into one comparable JSON answer (shared by
//! C04, C05, C02). Fields minted by the query itself (timestamps, fresh ids) are not included.

use ripd::{
    CompactionCutPointsV1Request, CompactionStatusV1Request, ContextSelectionStatusV1Request, ContinuityStore,
    ProviderCursorStatusV1Request,
};
use serde_json::{json, Value};

fn res<T: serde::Serialize>(r: Result<T, String>) -> Value {
    match r {
        Ok(v) => json!({"ok": serde_json::to_value(v).unwrap_or(Value::Null)}),
        Err(e) => json!({"err": e}),
    }
}

pub fn replay_json(store: &ContinuityStore, thread: &str) -> Value {
    match store.replay_events(thread) {
        Ok(ev) => json!({"ok": ev.iter().map(crate::fixture::event_json).collect::<Vec<_>>()}),
        Err(e) => json!({"err": e.to_string()}),
    }
}

/// name -> answer for every read-only capability (small parameter domain).
pub fn read_answers(store: &ContinuityStore, thread: &str, light: bool) -> Vec<(String, Value)> {
    let mut out: Vec<(String, Value)> = Vec::new();
    out.push(("replay_events".into(), replay_json(store, thread)));
    out.extend(read_answers_without_replay(store, thread, light));
    out
}

/// `replay_events` alone (a replay rebuilds unusable caches, so WHEN it is asked matters).
pub fn replay_answer(store: &ContinuityStore, thread: &str) -> (String, Value) {
    ("replay_events".into(), replay_json(store, thread))
}

/// Every read-only capability except the replay: the cache-backed fast paths.
pub fn read_answers_without_replay(store: &ContinuityStore, thread: &str, light: bool) -> Vec<(String, Value)> {
    read_answers_without_replay_pre(store, thread, light, &|| {})
}

/// `pre` runs before every single query (the truth side of a differential removes the cache
/// directory there, so that no answer can come from a cache an earlier query rebuilt).
pub fn read_answers_without_replay_pre(store: &ContinuityStore, thread: &str, light: bool, pre: &dyn Fn()) -> Vec<(String, Value)> {
    let mut out: Vec<(String, Value)> = Vec::new();
    let strides: &[u64] = if light { &[1, 2] } else { &[1, 2, 3] };
    let limits: &[u32] = if light { &[32] } else { &[1, 32] };
    for &s in strides {
        for &l in limits {
            pre();
            out.push((
                format!("compaction_cut_points_v1(stride={s},limit={l})"),
                res(store.compaction_cut_points_v1(thread, CompactionCutPointsV1Request { stride_messages: Some(s), limit: Some(l) })),
            ));
        }
        pre();
        out.push((
            format!("compaction_status_v1(stride={s})"),
            res(store.compaction_status_v1(thread, CompactionStatusV1Request { stride_messages: Some(s) })),
        ));
    }
    pre();
    out.push(("provider_cursor_status_v1".into(), res(store.provider_cursor_status_v1(thread, ProviderCursorStatusV1Request {}))));
    for l in [1u32, 10, 50] {
        if light && l != 10 {
            continue;
        }
        pre();
        out.push((
            format!("context_selection_status_v1(limit={l})"),
            res(store.context_selection_status_v1(thread, ContextSelectionStatusV1Request { limit: Some(l) })),
        ));
    }
    out
}
