//! C07 — run lifecycle frames are complete, unique and causally ordered.
//!
//! Engine P: bounded exhaustive enumeration of provider scripts (event grammar x terminations x
//! follow-up responses), input kinds (prompt / tool envelope / checkpoint envelope, with and
//! without provider, compile failure) and pairs of parallel runs, each executed through the
//! production router against the scripted provider; the lifecycle grammar is evaluated on the log.

use std::sync::Arc;
use std::time::Duration;

use rayon::prelude::*;
use serde_json::{json, Value};

use crate::common::{Opts, Report, Tier};
use crate::provx::{config, lifecycle_violations, new_mt_rt, sse, App, Provider, Resp};

#[derive(Clone, Debug, PartialEq, Eq, Hash)]
enum Ev {
    Text,
    Completed,
    CallWrite,
    CallUnknown,
    CallBadArgs,
    Malformed,
    SchemaInvalid,
}

#[derive(Clone, Debug, PartialEq, Eq, Hash)]
enum Term {
    Done,
    CloseNoDone,
    Abort,
    /// the terminal marker, after which the provider keeps the connection open for 8 s
    DoneThenHold,
}

#[derive(Clone, Debug, PartialEq, Eq, Hash)]
enum R {
    Stream(Vec<Ev>, Term),
    CutMidEvent(Vec<Ev>, usize), // last event cut after k bytes, then close
    Http(u16),
    /// non-200 with a body from the adversarial body alphabet (see `error_body`)
    HttpBody(u16, u8),
    Empty,
}

fn ev_json(e: &Ev, n: usize) -> Value {
    match e {
        Ev::Text => json!({"type": "response.output_text.delta", "delta": "hi"}),
        Ev::Completed => json!({"type": "response.completed", "response": {"id": format!("resp_{n}")}}),
        Ev::CallWrite => json!({"type": "response.output_item.done", "output_index": 0, "item": {"type": "function_call", "id": format!("fc_{n}"), "call_id": format!("call_{n}"), "name": "write", "arguments": "{\"path\":\"out.txt\",\"content\":\"x\",\"append\":true}"}}),
        Ev::CallUnknown => json!({"type": "response.output_item.done", "output_index": 0, "item": {"type": "function_call", "id": format!("fc_{n}"), "call_id": format!("call_{n}"), "name": "no_such_tool", "arguments": "{}"}}),
        Ev::CallBadArgs => json!({"type": "response.output_item.done", "output_index": 0, "item": {"type": "function_call", "id": format!("fc_{n}"), "call_id": format!("call_{n}"), "name": "write", "arguments": "{not json"}}),
        Ev::Malformed => Value::String("{bad".into()),
        Ev::SchemaInvalid => json!({"type": "nonsense.event", "x": 1}),
    }
}

fn resp_of(r: &R, n: usize) -> Resp {
    match r {
        R::Stream(evs, term) => {
            let mut vals: Vec<Value> = evs.iter().map(|e| ev_json(e, n)).collect();
            if *term == Term::Done || *term == Term::DoneThenHold {
                vals.push(Value::String("[DONE]".into()));
            }
            if *term == Term::DoneThenHold {
                return Resp::SseThenHold { chunks: vec![sse(&vals)], hold_ms: 8000 };
            }
            Resp::Sse { chunks: vec![sse(&vals)], abort: *term == Term::Abort }
        }
        R::CutMidEvent(evs, k) => {
            let vals: Vec<Value> = evs.iter().map(|e| ev_json(e, n)).collect();
            let full = sse(&vals);
            let last_len = sse(&vals[vals.len() - 1..]).len();
            let keep = full.len() - last_len + (*k).min(last_len.saturating_sub(1));
            Resp::Sse { chunks: vec![full[..keep].to_vec()], abort: false }
        }
        R::Http(s) => Resp::Http { status: *s, body: "scripted error".into() },
        R::HttpBody(s, k) => Resp::Http { status: *s, body: error_body(*k) },
        R::Empty => Resp::Empty,
    }
}

/// Error bodies: empty; long ASCII; and multi-byte text shifted by 0..3 ASCII bytes, so that
/// whatever byte offset the code under test cuts, clips or slices at, one body has no character
/// boundary there.
fn error_body(kind: u8) -> String {
    match kind {
        0 => String::new(),
        1 => "e".repeat(70 * 1024),
        2 => format!("{{\"error\":{{\"message\":\"{}\"}}}}", "\u{e9}".repeat(1500)),
        k => format!("{}{}", "x".repeat((k - 3) as usize), "\u{1F600}".repeat(700)),
    }
}

fn has_call(r: &R) -> bool {
    matches!(r, R::Stream(evs, _) if evs.iter().any(|e| matches!(e, Ev::CallWrite | Ev::CallUnknown | Ev::CallBadArgs)))
}

fn scripts(tier: Tier) -> Vec<Vec<R>> {
    let evs = [Ev::Text, Ev::Completed, Ev::CallWrite, Ev::CallUnknown, Ev::CallBadArgs, Ev::Malformed, Ev::SchemaInvalid];
    let terms = [Term::Done, Term::CloseNoDone, Term::Abort, Term::DoneThenHold];
    let max_events = tier.pick(2, 3);
    let mut firsts: Vec<R> = Vec::new();
    let mut seqs: Vec<Vec<Ev>> = vec![vec![]];
    let mut frontier: Vec<Vec<Ev>> = vec![vec![]];
    for _ in 0..max_events {
        let mut next = Vec::new();
        for s in &frontier {
            for e in &evs {
                let mut t = s.clone();
                t.push(e.clone());
                next.push(t);
            }
        }
        seqs.extend(next.iter().cloned());
        frontier = next;
    }
    for s in &seqs {
        for t in &terms {
            firsts.push(R::Stream(s.clone(), t.clone()));
        }
    }
    // connection drop at every byte of the last event (two representative last events)
    for last in [vec![Ev::Text], vec![Ev::Completed, Ev::CallWrite]] {
        let len = sse(&[ev_json(last.last().unwrap(), 0)]).len();
        let step = tier.pick(7, 1);
        let mut k = 0;
        while k < len {
            firsts.push(R::CutMidEvent(last.clone(), k));
            k += step;
        }
    }
    firsts.push(R::Http(500));
    firsts.push(R::Http(401));
    for k in 0..=6u8 {
        firsts.push(R::HttpBody(500, k));
    }
    firsts.push(R::HttpBody(429, 4));
    firsts.push(R::Empty);
    let seconds = vec![
        R::Stream(vec![Ev::Text], Term::Done),
        R::Stream(vec![Ev::Text], Term::CloseNoDone),
        R::Stream(vec![], Term::Abort),
        R::Stream(vec![Ev::Text], Term::Abort),
        R::Stream(vec![Ev::Text], Term::DoneThenHold),
        R::Http(500),
        R::Empty,
        R::Stream(vec![Ev::Completed, Ev::CallWrite], Term::Done),
    ];
    let mut out: Vec<Vec<R>> = Vec::new();
    for f in &firsts {
        out.push(vec![f.clone()]);
        if has_call(f) {
            for s in &seconds {
                let mut v = vec![f.clone(), s.clone()];
                if has_call(s) {
                    v.push(R::Stream(vec![Ev::Text], Term::Done));
                }
                out.push(v);
            }
        }
    }
    out
}

/// A connection abort that reached the client after at least one server-sent event of the same
/// response had been mapped (a transport-error frame following a provider event frame).
fn mid_stream_aborts(events: &[rip_kernel::Event]) -> u64 {
    let mut seen_raw: std::collections::HashSet<String> = std::collections::HashSet::new();
    let mut n = 0;
    for e in events {
        if let rip_kernel::EventKind::ProviderEvent { raw, errors, data, .. } = &e.kind {
            if raw.is_some() {
                seen_raw.insert(e.session_id.clone());
            } else if data.is_none() && !errors.is_empty() && seen_raw.contains(&e.session_id) {
                n += 1;
            }
        }
    }
    n
}

/// C01's sequential part for the ways a provider response can END: every script of the quick
/// alphabet in which some response does not end with the terminal marker (close, abort after the
/// events were delivered, cut inside an event, HTTP error, empty body), first and follow-up
/// responses. Oracle: every stream of the log reads 0..n-1 and validated replay passes.
pub fn termination_numbering_sweep(report: &Report) {
    let rt = new_mt_rt();
    let provider = Provider::start(&rt);
    let all: Vec<Vec<R>> = scripts(Tier::Quick).into_iter().filter(|s| s.iter().any(|r| !matches!(r, R::Stream(_, Term::Done)))).collect();
    report.set_extra("provider_termination_scripts", json!(all.len()));
    let counter = std::sync::atomic::AtomicUsize::new(0);
    let aborts = std::sync::atomic::AtomicU64::new(0);
    let pool = rayon::ThreadPoolBuilder::new().num_threads(16).build().expect("pool");
    pool.install(|| {
        all.par_iter().for_each(|script| {
            if report.over_cap() {
                return;
            }
            let n = counter.fetch_add(1, std::sync::atomic::Ordering::SeqCst);
            let key = format!("c01t-{n}/v1/responses");
            provider.script(&key, script.iter().enumerate().map(|(i, r)| resp_of(r, i)).collect(), false);
            let app = App::new(rt.clone(), Some(config(provider.endpoint(&key))));
            let thread = app.ensure_thread();
            let _ = app.post_and_wait(&thread, "hello", None, Duration::from_secs(5));
            report.eval(Some(&("termination", script)));
            report.count("provider_termination_runs_numbering_checked", 1);
            let events = app.log_events();
            aborts.fetch_add(mid_stream_aborts(&events), std::sync::atomic::Ordering::SeqCst);
            let case = json!({"engine": "P", "harness": "c07.termination_numbering", "script": format!("{script:?}")});
            let mut next: std::collections::HashMap<(rip_kernel::StreamKind, String), u64> = std::collections::HashMap::new();
            let mut bad = None;
            for e in &events {
                let k = next.entry((e.stream_kind(), e.stream_id().to_string())).or_insert(0);
                if e.seq != *k {
                    bad = Some(format!("stream {:?}: seq {} where {} is due ({})", e.stream_kind(), e.seq, *k, crate::common::compact(&serde_json::to_value(&e.kind).unwrap_or_default(), 200)));
                    break;
                }
                *k += 1;
            }
            if let Some(msg) = bad {
                report.violation("C01:stream_numbering:provider_termination", case, &msg);
            } else if let Err(e) = rip_log::EventLog::new(app.data.join("events.jsonl")).and_then(|l| l.replay_validated()) {
                report.violation("C01:validated_replay:provider_termination", case, &format!("validated replay fails: {e}"));
            }
            provider.forget(&key);
        });
    });
    let a = aborts.load(std::sync::atomic::Ordering::SeqCst);
    report.count("mid_stream_aborts_observed", a);
    if a == 0 && !report.over_cap() {
        crate::common::machinery_failure("c07.termination_numbering: no scripted abort reached the client after its events (provx::ABORT_DELAY_MS too short for this machine?)");
    }
}

fn case_json(what: &str, detail: Value) -> Value {
    json!({"engine": "P", "harness": "c07.lifecycle", "case": what, "detail": detail})
}

fn judge(report: &Report, app: &App, what: &str, detail: Value, sig_ctx: &str) {
    let events = app.log_events();
    for (sig, msg) in lifecycle_violations(&events) {
        report.violation(&format!("C07:{sig}:{sig_ctx}"), case_json(what, detail.clone()), &msg);
    }
    if let Err(e) = rip_log::EventLog::new(app.data.join("events.jsonl")).and_then(|l| l.replay_validated()) {
        report.violation(&format!("C07:validated_replay:{sig_ctx}"), case_json(what, detail), &format!("validated replay fails: {e}"));
    }
}

fn run_script(report: &Report, rt: &Arc<tokio::runtime::Runtime>, provider: &Provider, key: &str, script: &[R], stateless: bool) {
    provider.script(key, script.iter().enumerate().map(|(i, r)| resp_of(r, i)).collect(), false);
    let mut cfg = config(provider.endpoint(key));
    cfg.stateless_history = stateless;
    let app = App::new(rt.clone(), Some(cfg));
    let thread = app.ensure_thread();
    let detail = json!({"script": format!("{script:?}"), "stateless_history": stateless});
    let _ = app.post_and_wait(&thread, "hello", None, Duration::from_secs(5));
    report.eval(Some(&(script, stateless)));
    report.count("provider_requests_received", provider.received(key).len() as u64);
    {
        let ev = app.log_events();
        report.count("tool_started_frames", ev.iter().filter(|e| matches!(e.kind, rip_kernel::EventKind::ToolStarted { .. })).count() as u64);
        report.count("provider_event_frames", ev.iter().filter(|e| matches!(e.kind, rip_kernel::EventKind::ProviderEvent { .. })).count() as u64);
        report.count("runs_ended", ev.iter().filter(|e| matches!(e.kind, rip_kernel::EventKind::ContinuityRunEnded { .. })).count() as u64);
        report.count("mid_stream_aborts_observed", mid_stream_aborts(&ev));
    }
    judge(report, &app, "provider_script", detail, "provider_script");
    provider.forget(key);
}

fn run_input(report: &Report, rt: &Arc<tokio::runtime::Runtime>, provider: Option<(&Provider, &str)>, input: &Value, label: &str) {
    let cfg = provider.map(|(p, key)| {
        p.script(key, vec![Resp::Sse { chunks: vec![sse(&[json!({"type": "response.output_text.delta", "delta": "ok"}), Value::String("[DONE]".into())])], abort: false }], true);
        config(p.endpoint(key))
    });
    let app = App::new(rt.clone(), cfg);
    let thread = app.ensure_thread();
    let content = match input {
        Value::String(s) => s.clone(),
        v => v.to_string(),
    };
    let _ = app.post_and_wait(&thread, &content, None, Duration::from_secs(8));
    report.eval(Some(&(label, provider.is_some())));
    judge(report, &app, "input_kind", json!({"input": input, "provider_configured": provider.is_some()}), &format!("input:{label}"));
}

/// Per-request provider overrides (POST /threads/{id}/messages {"openresponses": {...}}): whatever
/// the server answers, every message in the log has its run and every run ends.
fn run_override(report: &Report, rt: &Arc<tokio::runtime::Runtime>, provider: Option<(&Provider, &str)>, over: &Value, label: &str) {
    let cfg = provider.map(|(p, key)| {
        p.script(key, vec![Resp::Sse { chunks: vec![sse(&[json!({"type": "response.output_text.delta", "delta": "ok"}), Value::String("[DONE]".into())])], abort: false }], true);
        config(p.endpoint(key))
    });
    let app = App::new(rt.clone(), cfg);
    let thread = app.ensure_thread();
    let _ = app.post_and_wait(&thread, "first", None, Duration::from_secs(8));
    let (status, b) = app.request("POST", &format!("/threads/{thread}/messages"), Some(json!({"content": "second", "openresponses": over})));
    if status == 202 {
        if let Some(mid) = serde_json::from_slice::<Value>(&b).ok().and_then(|v| v["message_id"].as_str().map(|s| s.to_string())) {
            let _ = app.wait_run_ended(&mid, Duration::from_secs(8));
        }
    } else {
        // refused: give anything that was started anyway the time to finish
        let mut len = app.log_events().len();
        let mut quiet = 0;
        let t0 = std::time::Instant::now();
        while quiet < 4 && t0.elapsed() < Duration::from_secs(5) {
            std::thread::sleep(Duration::from_millis(15));
            let now = app.log_events().len();
            quiet = if now == len { quiet + 1 } else { 0 };
            len = now;
        }
    }
    let _ = app.post_and_wait(&thread, "third", None, Duration::from_secs(8));
    report.eval(Some(&("override", label, provider.is_some())));
    report.count("override_cases", 1);
    judge(report, &app, "provider_override", json!({"override": over, "provider_configured": provider.is_some(), "http_status": status}), &format!("override:{label}"));
}

/// Background summarizer jobs through the HTTP routes, with a healthy and with a blocked artifact
/// store (the job fails after it was spawned): a job is ended at most once, whatever it does.
fn run_jobs(report: &Report, rt: &Arc<tokio::runtime::Runtime>, route: &str, block: u8, twice: bool) {
    let app = App::new(rt.clone(), None);
    let thread = app.ensure_thread();
    for k in 0..4 {
        let _ = app.post_and_wait(&thread, &format!("m{k}"), None, Duration::from_secs(8));
    }
    match block {
        1 => {
            let _ = std::fs::remove_dir_all(app.root.join(".rip/artifacts"));
            let _ = std::fs::create_dir_all(app.root.join(".rip"));
            let _ = std::fs::write(app.root.join(".rip/artifacts"), "not a directory");
        }
        2 => {
            let _ = std::fs::remove_dir_all(app.root.join(".rip/artifacts/blobs"));
            let _ = std::fs::create_dir_all(app.root.join(".rip/artifacts"));
            let _ = std::fs::write(app.root.join(".rip/artifacts/blobs"), "not a directory");
        }
        _ => {}
    }
    let body = json!({"stride_messages": 2, "execute": true, "actor_id": "u", "origin": "o"});
    let mut statuses = Vec::new();
    for _ in 0..(if twice { 2 } else { 1 }) {
        let (st, _) = app.request("POST", &format!("/threads/{thread}/{route}"), Some(body.clone()));
        statuses.push(st);
    }
    // the job runs in the background: wait until the log has been quiet for a while
    let mut len = app.log_events().len();
    let mut quiet = 0;
    let t0 = std::time::Instant::now();
    while quiet < 6 && t0.elapsed() < Duration::from_secs(10) {
        std::thread::sleep(Duration::from_millis(20));
        let now = app.log_events().len();
        quiet = if now == len { quiet + 1 } else { 0 };
        len = now;
    }
    report.eval(Some(&("jobs", route, block, twice)));
    report.count("job_cases", 1);
    let ev = app.log_events();
    report.count("job_spawned_frames", ev.iter().filter(|e| matches!(e.kind, rip_kernel::EventKind::ContinuityJobSpawned { .. })).count() as u64);
    report.count("job_ended_frames", ev.iter().filter(|e| matches!(e.kind, rip_kernel::EventKind::ContinuityJobEnded { .. })).count() as u64);
    let store_state = ["healthy", "artifacts_is_a_file", "blobs_is_a_file"][block as usize];
    judge(report, &app, "background_job", json!({"route": route, "artifact_store": store_state, "requests": statuses.len(), "http_statuses": statuses}), &format!("job:{route}"));
}

fn run_compile_failure(report: &Report, rt: &Arc<tokio::runtime::Runtime>, provider: &Provider, key: &str, mode: u8) {
    provider.script(key, vec![Resp::Sse { chunks: vec![sse(&[json!({"type": "response.output_text.delta", "delta": "ok"}), Value::String("[DONE]".into())])], abort: false }], true);
    let app = App::new(rt.clone(), Some(config(provider.endpoint(key))));
    let thread = app.ensure_thread();
    let _ = app.post_and_wait(&thread, "first", None, Duration::from_secs(5));
    match mode {
        0 => {
            // a checkpoint whose summary artifact disappears
            let (st, _b) = app.request("POST", &format!("/threads/{thread}/compaction-checkpoint"), Some(json!({"summary_markdown": "s", "stride_messages": 1})));
            if st >= 300 {
                crate::common::machinery_failure(&format!("c07.compile_failure: the checkpoint request answered {st}"));
            }
            let _ = std::fs::remove_dir_all(app.root.join(".rip/artifacts/blobs"));
            let _ = std::fs::create_dir_all(app.root.join(".rip/artifacts/blobs"));
        }
        _ => {
            // the artifact directory is replaced by a file: the context bundle cannot be written
            let _ = std::fs::remove_dir_all(app.root.join(".rip/artifacts"));
            let _ = std::fs::write(app.root.join(".rip/artifacts"), "not a directory");
        }
    }
    let _ = app.post_and_wait(&thread, "second", None, Duration::from_secs(5));
    report.eval(Some(&("compile_failure", mode)));
    let reasons: Vec<String> = app
        .log_events()
        .iter()
        .filter_map(|e| match &e.kind {
            rip_kernel::EventKind::SessionEnded { reason } => Some(reason.clone()),
            _ => None,
        })
        .collect();
    if reasons.iter().any(|r| r == "context_compile_failed") {
        report.count("compile_failure_reached", 1);
    }
    judge(report, &app, "compile_failure", json!({"mode": mode, "session_end_reasons": reasons}), "compile_failure");
    provider.forget(key);
}

fn run_parallel(report: &Report, rt: &Arc<tokio::runtime::Runtime>, provider: &Provider, key: &str, a: &Value, b: &Value) {
    provider.script(
        key,
        vec![Resp::Sse { chunks: vec![sse(&[json!({"type": "response.completed", "response": {"id": "r"}}), json!({"type": "response.output_text.delta", "delta": "ok"}), Value::String("[DONE]".into())])], abort: false }],
        true,
    );
    let app = App::new(rt.clone(), Some(config(provider.endpoint(key))));
    let thread = app.ensure_thread();
    let mut mids = Vec::new();
    for input in [a, b] {
        let content = match input {
            Value::String(s) => s.clone(),
            v => v.to_string(),
        };
        let (status, body) = app.request("POST", &format!("/threads/{thread}/messages"), Some(json!({"content": content})));
        if status == 202 {
            if let Ok(v) = serde_json::from_slice::<Value>(&body) {
                mids.push(v["message_id"].as_str().unwrap_or("").to_string());
            }
        }
    }
    for m in &mids {
        let _ = app.wait_run_ended(m, Duration::from_secs(8));
    }
    report.eval(Some(&("parallel", a.to_string(), b.to_string())));
    judge(report, &app, "parallel_runs", json!({"inputs": [a, b]}), "parallel");
    provider.forget(key);
}

pub fn run(opts: Opts) -> i32 {
    let report = Report::new("C07", "exploration", opts.clone());
    if let Some(path) = &opts.replay {
        let case = crate::common::load_replay_case(path);
        if case["harness"].as_str() == Some("c07s.post_and_run") {
            crate::sched::install_hooks();
            crate::c07s::replay(&report, &case);
            return report.finish();
        }
        report.replay_by_re_enumeration(path);
    }
    report.set_rule(
        "provider scripts: first response = every sequence of <=2 (quick) / <=3 (thorough) events from {text delta, response.completed with id, \
         function call to write / unknown tool / invalid arguments, malformed JSON, schema-invalid event} x {[DONE], close without [DONE], \
         connection abort}, plus a cut inside the last event at every 7th (quick) / every (thorough) byte, HTTP 500/401 with a short body, HTTP 500 with an adversarial body (empty, 70 KiB, multi-byte text shifted by 0..3 bytes), empty 200 body; a \
         second response from 6 variants whenever the first carried a call (a third if the second calls again); both history modes for \
         scripts with calls; inputs: prompt / tool envelopes (ok, failing, 1 ms timeout, unknown tool) / checkpoint envelopes (create, bad \
         path, unknown rewind) with and without a provider; context-compile failure (2 ways); 6 pairs of parallel runs on one thread; each \
         through POST /threads/{id}/messages on the production router; oracle = lifecycle grammar on the log + validated replay",
    );
    report.assume("runs execute on a real multi-threaded runtime; the oracle is schedule-independent (per-run grammar on the log)");
    report.assume("a run that has not ended 5-8 s after its provider exchange finished is judged by the grammar (missing run_ended)");
    let tier = report.tier();
    let rt = new_mt_rt();
    let provider = Provider::start(&rt);
    let all = scripts(tier);
    report.set_extra("provider_scripts", json!(all.len()));
    report.sample(json!({"script": format!("{:?}", all[10])}));
    report.sample(json!({"script": format!("{:?}", all[all.len() / 2])}));
    report.sample(json!({"script": format!("{:?}", all[all.len() - 1])}));
    let counter = std::sync::atomic::AtomicUsize::new(0);
    let pool = rayon::ThreadPoolBuilder::new().num_threads(12).build().expect("pool");
    pool.install(|| {
        all.par_iter().enumerate().for_each(|(idx, script)| {
            if report.over_cap() {
                return;
            }
            let n = counter.fetch_add(1, std::sync::atomic::Ordering::SeqCst);
            run_script(&report, &rt, &provider, &format!("run{n}/v1/responses"), script, false);
            if script.iter().any(has_call) && (tier == Tier::Thorough || idx % 3 == 0) {
                let n2 = counter.fetch_add(1, std::sync::atomic::Ordering::SeqCst);
                run_script(&report, &rt, &provider, &format!("run{n2}/v1/responses"), script, true);
            }
        });
        let inputs: Vec<(Value, &str)> = vec![
            (json!("plain prompt"), "prompt"),
            (json!({"tool": "write", "args": {"path": "a.txt", "content": "1"}}), "tool_write_ok"),
            (json!({"tool": "read", "args": {"path": "missing.txt"}}), "tool_read_fails"),
            (json!({"tool": "bash", "args": {"command": "sleep 0.3"}, "timeout_ms": 1}), "tool_timeout"),
            (json!({"tool": "no_such_tool", "args": {}}), "tool_unknown"),
            (json!({"tool": "write", "args": {"path": "../x", "content": "1"}}), "tool_refused_path"),
            (json!({"checkpoint": {"action": "create", "label": "l", "files": ["a.txt"]}}), "checkpoint_create"),
            (json!({"checkpoint": {"action": "create", "label": "l", "files": ["../a"]}}), "checkpoint_bad_path"),
            (json!({"checkpoint": {"action": "rewind", "id": "unknown"}}), "checkpoint_rewind_unknown"),
        ];
        inputs.par_iter().for_each(|(input, label)| {
            let n = counter.fetch_add(1, std::sync::atomic::Ordering::SeqCst);
            run_input(&report, &rt, None, input, label);
            run_input(&report, &rt, Some((&provider, &format!("in{n}/v1/responses"))), input, label);
        });
        let overrides: Vec<(Value, &str)> = vec![
            (json!({"endpoint": "responses.internal/v1/responses"}), "endpoint_not_a_url"),
            (json!({"endpoint": ""}), "endpoint_empty"),
            (json!({"endpoint": "http://127.0.0.1:1/v1/responses"}), "endpoint_refused"),
            (json!({"endpoint": "ftp://127.0.0.1/v1"}), "endpoint_other_scheme"),
            (json!({"endpoint": "http://[::1"}), "endpoint_malformed"),
            (json!({"model": ""}), "model_empty"),
            (json!({"model": "m\u{0}\u{e9}"}), "model_odd"),
            (json!({"stateless_history": true, "parallel_tool_calls": true}), "flags"),
            (json!({"followup_user_message": ""}), "followup_empty"),
            (json!({}), "empty"),
        ];
        overrides.par_iter().for_each(|(over, label)| {
            let n = counter.fetch_add(1, std::sync::atomic::Ordering::SeqCst);
            run_override(&report, &rt, None, over, label);
            run_override(&report, &rt, Some((&provider, &format!("ov{n}/v1/responses"))), over, label);
        });
        let job_cases: Vec<(&str, u8, bool)> = ["compaction-auto", "compaction-auto-schedule"].iter().flat_map(|r| (0..3u8).flat_map(move |b| [(*r, b, false), (*r, b, true)])).collect();
        job_cases.par_iter().for_each(|(route, block, twice)| run_jobs(&report, &rt, route, *block, *twice));
        for mode in 0..2u8 {
            let n = counter.fetch_add(1, std::sync::atomic::Ordering::SeqCst);
            run_compile_failure(&report, &rt, &provider, &format!("cf{n}/v1/responses"), mode);
        }
        let par: Vec<(Value, Value)> = vec![
            (json!("p1"), json!("p2")),
            (json!("p1"), json!({"tool": "write", "args": {"path": "a.txt", "content": "1"}})),
            (json!({"tool": "write", "args": {"path": "a.txt", "content": "1"}}), json!({"tool": "write", "args": {"path": "b.txt", "content": "2"}})),
            (json!({"tool": "bash", "args": {"command": "sleep 0.05; echo x > c.txt", "cwd": "."}}), json!({"tool": "write", "args": {"path": "c.txt", "content": "2"}})),
            (json!({"checkpoint": {"action": "create", "label": "l", "files": ["a.txt"]}}), json!("p")),
            (json!({"tool": "read", "args": {"path": "missing"}}), json!({"tool": "ls", "args": {}})),
        ];
        par.par_iter().for_each(|(a, b)| {
            let n = counter.fetch_add(1, std::sync::atomic::Ordering::SeqCst);
            run_parallel(&report, &rt, &provider, &format!("par{n}/v1/responses"), a, b);
        });
    });
    // schedule part (engine S): the posting handler and the run it spawns as two actors
    {
        crate::sched::install_hooks();
        let bound = report.tier().pick(2, 3);
        let ins = crate::c07s::inputs();
        ins.par_iter().for_each(|(label, content)| {
            if report.over_cap() {
                return;
            }
            crate::c07s::run_config(&report, label, content, bound);
        });
    }
    report.finish()
}
