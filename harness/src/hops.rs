//! History operations over the real continuity API, shared by the history checks
//! (C02, C03, C09, C10, C08). Every op runs the production code path on a real store.

use ripd::{
    CompactionAutoScheduleV1Request, CompactionAutoV1Request, CompactionCheckpointCumulativeV1Request,
    ProviderCursorRotateV1Request,
};
use rip_kernel::{Event, EventKind, StreamKind};
use serde_json::{json, Value};

use crate::fixture::Fx;

#[derive(Clone, Debug, PartialEq, Eq, Hash)]
pub enum H {
    Msg,
    /// message + run_spawned + stub session + run_ended (the real run path without a provider)
    Run,
    /// like Run, but the input is a tool envelope (0: write tool, 1: failing read) or a checkpoint
    /// envelope (2: create, 3: rewind of an unknown id)
    EnvRun(u8),
    /// message + run_spawned only (run still open)
    RunSpawnOnly,
    /// message + run_spawned + the run's REAL session frames (started / output / ended), but no
    /// run_ended yet: a run that has produced its reply and is still open on the thread
    RunOpenReal,
    /// run_ended for the oldest run that is still open
    RunEndOldest,
    /// the same with reason "provider_error" (a run that produced output and then failed)
    RunEndOldestFailed,
    Side,
    Cursor(u8),
    Rotate,
    SelPair,
    /// manual checkpoint: 0 = at the last message (to_message_id), 1 = at the first message (to_seq),
    /// 2 = by stride 2, 3 = to_seq of a non-message frame (must be refused)
    Ckpt(u8),
    Auto { stride: u64, max_new: u32, dry: bool },
    Sched { stride: u64, max_new: u32, block: bool, execute: bool, dry: bool },
    SpawnJobOnly { stride: u64 },
    /// run the oldest job that was spawned by `SpawnJobOnly` and not run yet (jobs may overlap)
    RunOldestJob,
    /// an auto compaction whose job FAILS after it was spawned (the artifact store is a regular
    /// file while it runs, and is restored afterwards)
    FailingAuto { stride: u64 },
    /// manual checkpoint at the last message that names an EXISTING summary artifact instead of
    /// text: 0 = the summary of this thread's first checkpoint (another to_seq unless it is the
    /// same cut), 1 = a summary written for ANOTHER thread at the same to_seq
    CkptReuse(u8),
    Branch(u8),
    Handoff(u8),
    Restart,
    DropCaches,
}

pub fn name(op: &H) -> String {
    match op {
        H::Msg => "msg".into(),
        H::Run => "run".into(),
        H::EnvRun(k) => format!("env_run{k}"),
        H::RunSpawnOnly => "run_spawn_only".into(),
        H::RunOpenReal => "run_open_real".into(),
        H::RunEndOldest => "run_end_oldest".into(),
        H::RunEndOldestFailed => "run_end_oldest_failed".into(),
        H::Side => "side".into(),
        H::Cursor(k) => format!("cursor{k}"),
        H::Rotate => "rotate".into(),
        H::SelPair => "sel".into(),
        H::Ckpt(k) => format!("ckpt{k}"),
        H::Auto { stride, max_new, dry } => format!("auto(s={stride},n={max_new},dry={dry})"),
        H::Sched { stride, max_new, block, execute, dry } => format!("sched(s={stride},n={max_new},block={block},exec={execute},dry={dry})"),
        H::SpawnJobOnly { stride } => format!("spawn_job_only(s={stride})"),
        H::RunOldestJob => "run_oldest_job".into(),
        H::FailingAuto { stride } => format!("failing_auto(s={stride})"),
        H::CkptReuse(k) => format!("ckpt_reuse{k}"),
        H::Branch(k) => format!("branch{k}"),
        H::Handoff(k) => format!("handoff{k}"),
        H::Restart => "restart".into(),
        H::DropCaches => "drop_caches".into(),
    }
}

pub struct Track {
    pub thread: String,
    pub n: u64,
    pub last_msg: Option<String>,
    pub last_sess: String,
    pub open_runs: Vec<(String, String)>, // (message id, session id)
    pub sessions: Vec<String>,
    pub children: Vec<String>,
    pub live_session_frames: Vec<(String, Vec<Event>)>,
    /// spawned-not-run compaction jobs (responses of the spawn half)
    pub pending_jobs: Vec<ripd::CompactionAutoV1Response>,
}

impl Track {
    pub fn new(thread: String) -> Self {
        Self { thread, n: 0, last_msg: None, last_sess: "sess-none".into(), open_runs: vec![], sessions: vec![], children: vec![], live_session_frames: vec![], pending_jobs: vec![] }
    }
}

pub fn thread_events(fx: &Fx, thread: &str) -> Vec<Event> {
    fx.truth(StreamKind::Continuity, thread)
}

pub fn messages(events: &[Event]) -> Vec<(u64, String)> {
    events.iter().filter(|e| matches!(e.kind, EventKind::ContinuityMessageAppended { .. })).map(|e| (e.seq, e.id.clone())).collect()
}

/// Applies one op. Returns a JSON description of what the op returned (Ok payload or Err text).
pub fn apply(fx: &mut Fx, t: &mut Track, op: &H) -> Value {
    t.n += 1;
    let n = t.n;
    let thread = t.thread.clone();
    let r: Result<Value, String> = (|| {
        let store = fx.store();
        match op {
            H::Msg => {
                let id = store.append_message(&thread, "u".into(), "o".into(), format!("m{n}"))?;
                t.last_msg = Some(id.clone());
                Ok(json!({"message_id": id}))
            }
            H::Run | H::EnvRun(_) => {
                let content = match op {
                    H::EnvRun(0) => json!({"tool": "write", "args": {"path": format!("f{n}.txt"), "content": "é\n"}}).to_string(),
                    H::EnvRun(1) => json!({"tool": "read", "args": {"path": "does-not-exist"}}).to_string(),
                    H::EnvRun(2) => json!({"checkpoint": {"action": "create", "label": "l", "files": ["a.txt"]}}).to_string(),
                    H::EnvRun(_) => json!({"checkpoint": {"action": "rewind", "id": "nope"}}).to_string(),
                    _ => format!("r{n}"),
                };
                let message_id = store.append_message(&thread, "user".into(), "verif".into(), content.clone())?;
                let handle = fx.engine.create_session();
                let session_id = handle.session_id.clone();
                let mut rx = handle.subscribe();
                store.append_run_spawned(&thread, &message_id, &session_id, "user".into(), "verif".into())?;
                let link = ripd::ContinuityRunLink { continuity_id: thread.clone(), message_id: message_id.clone(), actor_id: "user".into(), origin: "verif".into() };
                let fut = fx.engine.verif_session_future(handle, content, Some(link), None);
                fx.rt.block_on(fut);
                let mut live = Vec::new();
                while let Ok(e) = rx.try_recv() {
                    live.push(e);
                }
                t.live_session_frames.push((session_id.clone(), live));
                t.sessions.push(session_id.clone());
                t.last_msg = Some(message_id.clone());
                t.last_sess = session_id.clone();
                Ok(json!({"message_id": message_id, "session_id": session_id}))
            }
            H::RunSpawnOnly => {
                let message_id = store.append_message(&thread, "u".into(), "o".into(), format!("q{n}"))?;
                let session_id = format!("sess-open-{n}");
                store.append_run_spawned(&thread, &message_id, &session_id, "u".into(), "o".into())?;
                t.open_runs.push((message_id.clone(), session_id.clone()));
                t.last_msg = Some(message_id.clone());
                t.last_sess = session_id;
                Ok(json!({"message_id": message_id}))
            }
            H::RunOpenReal => {
                let content = format!("q{n}");
                let message_id = store.append_message(&thread, "u".into(), "o".into(), content.clone())?;
                let handle = fx.engine.create_session();
                let session_id = handle.session_id.clone();
                store.append_run_spawned(&thread, &message_id, &session_id, "u".into(), "o".into())?;
                // the session runs unlinked: it logs its own frames (incl. the reply) and leaves the
                // thread's run open
                let fut = fx.engine.verif_session_future(handle, content, None, None);
                fx.rt.block_on(fut);
                t.open_runs.push((message_id.clone(), session_id.clone()));
                t.last_msg = Some(message_id.clone());
                t.last_sess = session_id;
                Ok(json!({"message_id": message_id}))
            }
            H::RunEndOldest | H::RunEndOldestFailed => {
                if t.open_runs.is_empty() {
                    return Ok(json!({"skipped": "no open run"}));
                }
                let (m, s) = t.open_runs.remove(0);
                let reason = if matches!(op, H::RunEndOldestFailed) { "provider_error" } else { "completed" };
                let id = store.append_run_ended(&thread, &m, &s, reason.into(), "u".into(), "o".into())?;
                Ok(json!({"id": id}))
            }
            H::Side => {
                let m = t.last_msg.clone().unwrap_or_else(|| "none".into());
                let id = fx.side_effect(&thread, &m, &t.last_sess, n)?;
                Ok(json!({"id": id}))
            }
            H::Cursor(9) => {
                // a cursor that carries neither endpoint nor model (a run on the provider's defaults)
                let id = store.verif_append_provider_cursor_updated(&thread, "openresponses", None, None, Some(json!({"previous_response_id": format!("r{n}")})), "set", None)?;
                Ok(json!({"id": id}))
            }
            H::Cursor(k) => {
                let id = store.verif_append_provider_cursor_updated(&thread, "openresponses", Some("http://e".into()), Some(format!("model{k}")), Some(json!({"previous_response_id": format!("r{n}")})), "set", None)?;
                Ok(json!({"id": id}))
            }
            H::Rotate => {
                let r = store.provider_cursor_rotate_v1(&thread, ProviderCursorRotateV1Request { provider: None, endpoint: None, model: None, reason: Some("t".into()), actor_id: "u".into(), origin: "o".into() })?;
                Ok(serde_json::to_value(r).unwrap_or(Value::Null))
            }
            H::SelPair => {
                let Some(m) = t.last_msg.clone() else { return Ok(json!({"skipped": "no message"})) };
                let a = store.verif_append_context_selection_decided(&thread, &t.last_sess, &m, "recent_messages_v1", vec![], Some(json!({"n": n})))?;
                let b = store.verif_append_context_compiled(&thread, &t.last_sess, &"0".repeat(64), "recent_messages_v1", 1, Some(m))?;
                Ok(json!({"ids": [a, b]}))
            }
            H::Ckpt(k) => {
                let events = thread_events(fx, &thread);
                let msgs = messages(&events);
                let mut req = CompactionCheckpointCumulativeV1Request { summary_markdown: Some(format!("summary {n}")), summary_artifact_id: None, to_message_id: None, to_seq: None, stride_messages: None, actor_id: "u".into(), origin: "o".into() };
                match k {
                    0 => req.to_message_id = Some(msgs.last().map(|m| m.1.clone()).unwrap_or_else(|| "none".into())),
                    1 => req.to_seq = Some(msgs.first().map(|m| m.0).unwrap_or(0)),
                    2 => req.stride_messages = Some(2),
                    _ => req.to_seq = Some(0), // continuity_created: not a message boundary
                }
                let r = store.compaction_checkpoint_cumulative_v1(&thread, req)?;
                Ok(json!({"checkpoint_id": r.0, "summary_artifact_id": r.1, "to_seq": r.2, "to_message_id": r.3, "cut_rule_id": r.4}))
            }
            H::Auto { stride, max_new, dry } => {
                let r = store.compaction_auto_v1(&thread, CompactionAutoV1Request { stride_messages: Some(*stride), max_new_checkpoints: Some(*max_new), dry_run: Some(*dry), actor_id: "u".into(), origin: "o".into() })?;
                Ok(serde_json::to_value(r).unwrap_or(Value::Null))
            }
            H::Sched { stride, max_new, block, execute, dry } => {
                let r = store.compaction_auto_schedule_v1(
                    &thread,
                    CompactionAutoScheduleV1Request { stride_messages: Some(*stride), max_new_checkpoints: Some(*max_new), block_on_inflight: Some(*block), execute: Some(*execute), dry_run: Some(*dry), actor_id: "u".into(), origin: "o".into() },
                )?;
                Ok(serde_json::to_value(r).unwrap_or(Value::Null))
            }
            H::SpawnJobOnly { stride } => {
                let r = store.verif_compaction_auto_spawn_job(&thread, CompactionAutoV1Request { stride_messages: Some(*stride), max_new_checkpoints: Some(1), dry_run: Some(false), actor_id: "u".into(), origin: "o".into() })?;
                let v = serde_json::to_value(&r).unwrap_or(Value::Null);
                if r.job_id.is_some() {
                    t.pending_jobs.push(r);
                }
                Ok(v)
            }
            H::RunOldestJob => {
                if t.pending_jobs.is_empty() {
                    return Ok(json!({"skipped": "no spawned job"}));
                }
                let job = t.pending_jobs.remove(0);
                let created = store.verif_compaction_auto_run_spawned_job(&thread, &job)?;
                Ok(json!({"job_id": job.job_id, "created": serde_json::to_value(created).unwrap_or(Value::Null)}))
            }
            H::FailingAuto { stride } => {
                let art = fx.root.join(".rip/artifacts");
                let held = fx.root.join(".rip/artifacts.held");
                let had = art.is_dir();
                if had {
                    std::fs::rename(&art, &held).map_err(|e| e.to_string())?;
                }
                let _ = std::fs::create_dir_all(fx.root.join(".rip"));
                std::fs::write(&art, "not a directory").map_err(|e| e.to_string())?;
                let r = store.compaction_auto_v1(&thread, CompactionAutoV1Request { stride_messages: Some(*stride), max_new_checkpoints: Some(1), dry_run: Some(false), actor_id: "u".into(), origin: "o".into() });
                let _ = std::fs::remove_file(&art);
                if had {
                    std::fs::rename(&held, &art).map_err(|e| e.to_string())?;
                }
                match r {
                    Ok(r) => Ok(serde_json::to_value(r).unwrap_or(Value::Null)),
                    Err(e) => Ok(json!({"auto_failed": e})),
                }
            }
            H::CkptReuse(k) => {
                let events = thread_events(fx, &thread);
                let msgs = messages(&events);
                let Some((last_seq, last_id)) = msgs.last().cloned() else { return Ok(json!({"skipped": "no message"})) };
                let artifact = match k {
                    0 => events.iter().find_map(|e| match &e.kind {
                        EventKind::ContinuityCompactionCheckpointCreated { summary_artifact_id, .. } => Some(summary_artifact_id.clone()),
                        _ => None,
                    }),
                    _ => {
                        // another thread with a message at the same seq, summarised there
                        let (other, _, _) = store.handoff(&thread, None, (Some("carrier".into()), None), None, None, ("u".into(), "o".into()))?;
                        let mut at = None;
                        for _ in 0..(last_seq + 2) {
                            let id = store.append_message(&other, "u".into(), "o".into(), "x".into())?;
                            let seq = fx.truth(StreamKind::Continuity, &other).iter().find(|e| e.id == id).map(|e| e.seq);
                            if seq == Some(last_seq) {
                                at = Some(id);
                                break;
                            }
                            if seq.map(|s| s > last_seq).unwrap_or(true) {
                                break;
                            }
                        }
                        match at {
                            Some(_) => store
                                .compaction_checkpoint_cumulative_v1(&other, CompactionCheckpointCumulativeV1Request { summary_markdown: Some("other thread".into()), summary_artifact_id: None, to_message_id: None, to_seq: Some(last_seq), stride_messages: None, actor_id: "u".into(), origin: "o".into() })
                                .ok()
                                .map(|r| r.1),
                            None => None,
                        }
                    }
                };
                let Some(artifact) = artifact else { return Ok(json!({"skipped": "no summary to reuse"})) };
                let r = store.compaction_checkpoint_cumulative_v1(&thread, CompactionCheckpointCumulativeV1Request { summary_markdown: None, summary_artifact_id: Some(artifact.clone()), to_message_id: Some(last_id), to_seq: None, stride_messages: None, actor_id: "u".into(), origin: "o".into() })?;
                Ok(json!({"checkpoint_id": r.0, "summary_artifact_id": r.1, "to_seq": r.2, "reused": artifact}))
            }
            H::Branch(k) => {
                let events = thread_events(fx, &thread);
                let msgs = messages(&events);
                let (mid, seq) = match k {
                    0 => (None, None),
                    1 => (msgs.first().map(|m| m.1.clone()), None),
                    2 => (None, Some(events.last().map(|e| e.seq).unwrap_or(0))),
                    _ => (None, Some(0)),
                };
                let (child, s, m) = store.branch(&thread, Some(format!("b{n}")), mid, seq, "u".into(), "o".into())?;
                t.children.push(child.clone());
                Ok(json!({"thread_id": child, "parent_seq": s, "parent_message_id": m}))
            }
            H::Handoff(k) => {
                let events = thread_events(fx, &thread);
                let msgs = messages(&events);
                let (mid, seq) = match k {
                    0 => (None, None),
                    1 => (msgs.first().map(|m| m.1.clone()), None),
                    _ => (None, Some(events.last().map(|e| e.seq).unwrap_or(0))),
                };
                let (child, s, m) = store.handoff(&thread, None, (Some(format!("handoff {n}")), None), mid, seq, ("u".into(), "o".into()))?;
                t.children.push(child.clone());
                Ok(json!({"thread_id": child, "from_seq": s, "from_message_id": m}))
            }
            H::Restart => {
                drop(store);
                fx.restart();
                Ok(json!({"restarted": true}))
            }
            H::DropCaches => {
                fx.drop_caches();
                Ok(json!({"dropped": true}))
            }
        }
    })();
    match r {
        Ok(v) => json!({"ok": v}),
        Err(e) => json!({"err": e}),
    }
}

/// Enumerates every sequence of length 1..=depth over `alphabet`.
pub fn sequences<T: Clone>(alphabet: &[T], depth: usize) -> Vec<Vec<T>> {
    let mut out: Vec<Vec<T>> = Vec::new();
    let mut frontier: Vec<Vec<T>> = vec![vec![]];
    for _ in 0..depth {
        let mut next = Vec::new();
        for h in &frontier {
            for op in alphabet {
                let mut t = h.clone();
                t.push(op.clone());
                next.push(t);
            }
        }
        out.extend(next.iter().cloned());
        frontier = next;
    }
    out
}
