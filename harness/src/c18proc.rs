//! C18, conformance part — scenario traces of the lock model replayed against REAL `rip serve`
//! processes (the binary ./vcheck C18 builds): the harness in c18.rs restates the server's and the
//! client's loops over the real primitives; here the loops themselves run, in their own processes,
//! with real signals and real time. Observation: lock.json / meta.json and process liveness,
//! sampled every 10 ms. Oracle: the role intervals of two processes never overlap - from the moment
//! a process has advertised itself (meta.json names it and its endpoint answers) until it has
//! exited, the lock never names another process - and a store whose authority is gone is usable
//! again.

use std::path::{Path, PathBuf};
use std::process::{Child, Command, Stdio};
use std::time::{Duration, Instant};

use serde_json::json;

use crate::common::{machinery_failure, scratch_dir, Report, VERIF_DIR};

fn rip_bin() -> String {
    let bin = format!("{VERIF_DIR}/target/debug/rip");
    if !Path::new(&bin).exists() {
        machinery_failure(&format!("{bin} is missing: ./vcheck C18 builds it (cargo build -p rip-cli)"));
    }
    bin
}

fn serve(data: &Path, ws: &Path) -> Child {
    Command::new(rip_bin())
        .arg("serve")
        .env_clear()
        .env("PATH", std::env::var("PATH").unwrap_or_default())
        .env("HOME", "/nonexistent-home")
        .env("RIP_DATA_DIR", data)
        .env("RIP_WORKSPACE_ROOT", ws)
        .env("RIP_SERVER_ADDR", "127.0.0.1:0")
        .stdin(Stdio::null())
        .stdout(Stdio::null())
        .stderr(Stdio::null())
        .spawn()
        .unwrap_or_else(|e| machinery_failure(&format!("cannot start rip serve: {e}")))
}

fn alive(c: &mut Child) -> bool {
    matches!(c.try_wait(), Ok(None))
}

fn lock_pid(data: &Path) -> Option<u32> {
    ripd::read_authority_lock_record(data).ok().flatten().map(|l| l.pid)
}

fn meta(data: &Path) -> Option<(u32, String)> {
    ripd::read_authority_meta(data).ok().flatten().map(|m| (m.pid, m.endpoint))
}

fn get_ok(rt: &tokio::runtime::Runtime, url: &str) -> bool {
    rt.block_on(async {
        let Ok(client) = reqwest::Client::builder().timeout(Duration::from_millis(400)).build() else { return false };
        matches!(client.get(url).send().await, Ok(r) if r.status().is_success())
    })
}

/// Waits until `pid` has advertised itself and answers; returns its endpoint.
fn wait_serving(rt: &tokio::runtime::Runtime, data: &Path, pid: u32, secs: u64) -> Option<String> {
    let t0 = Instant::now();
    while t0.elapsed() < Duration::from_secs(secs) {
        if let Some((p, ep)) = meta(data) {
            if p == pid && lock_pid(data) == Some(pid) && get_ok(rt, &format!("{ep}/openapi.json")) {
                return Some(ep);
            }
        }
        std::thread::sleep(Duration::from_millis(15));
    }
    None
}

fn kill(pid: u32, sig: &str) {
    let _ = Command::new("kill").args([sig, &pid.to_string()]).status();
}

struct Sandbox {
    _dir: tempfile::TempDir,
    data: PathBuf,
    ws: PathBuf,
}

fn sandbox() -> Sandbox {
    let dir = scratch_dir("c18p");
    let data = dir.path().join("data");
    let ws = dir.path().join("ws");
    std::fs::create_dir_all(&ws).unwrap();
    Sandbox { _dir: dir, data, ws }
}

fn reap(children: &mut [Child]) {
    for c in children.iter_mut() {
        let _ = c.kill();
        let _ = c.wait();
    }
}

pub fn run(report: &Report) {
    let rt = tokio::runtime::Builder::new_multi_thread().worker_threads(2).enable_all().build().expect("rt");
    let case = |scenario: &str| json!({"engine": "processes", "harness": "c18.processes", "scenario": scenario});

    // (1) three servers started at once on an empty store: exactly one becomes the authority
    {
        let sb = sandbox();
        let mut cs: Vec<Child> = (0..3).map(|_| serve(&sb.data, &sb.ws)).collect();
        let pids: Vec<u32> = cs.iter().map(|c| c.id()).collect();
        let t0 = Instant::now();
        let mut winner = None;
        while t0.elapsed() < Duration::from_secs(15) && winner.is_none() {
            for &p in &pids {
                if meta(&sb.data).map(|m| m.0) == Some(p) && lock_pid(&sb.data) == Some(p) {
                    winner = Some(p);
                }
            }
            std::thread::sleep(Duration::from_millis(20));
        }
        report.eval(Some(&"processes:three_at_once"));
        report.count("process_scenarios", 1);
        match winner {
            None => report.violation("C18:processes:no_authority:three_at_once", case("three_at_once"), "three `rip serve` processes started on an empty store and none became its authority within 15 s"),
            Some(w) => {
                // the others give up (or keep deferring): after 3 s none of them may name itself in the files
                let t1 = Instant::now();
                while t1.elapsed() < Duration::from_secs(3) {
                    let l = lock_pid(&sb.data);
                    let widx = pids.iter().position(|p| *p == w).unwrap();
                    if let Some(lp) = l {
                        if lp != w && alive(&mut cs[widx]) {
                            report.violation("C18:processes:two_authorities:three_at_once", case("three_at_once"), &format!("pid {w} advertised itself and is alive; lock.json now names pid {lp}"));
                            break;
                        }
                    }
                    std::thread::sleep(Duration::from_millis(10));
                }
                let still: usize = cs.iter_mut().map(|c| alive(c) as usize).sum();
                report.count("three_at_once_processes_still_alive_after_3s", still as u64);
            }
        }
        reap(&mut cs);
    }

    // (2) the authority is killed (SIGKILL): a new server recovers the store
    {
        let sb = sandbox();
        let mut a = serve(&sb.data, &sb.ws);
        let apid = a.id();
        if wait_serving(&rt, &sb.data, apid, 15).is_none() {
            reap(&mut [a]);
            machinery_failure("c18.processes: the first authority did not come up");
        }
        kill(apid, "-KILL");
        let _ = a.wait();
        let mut b = serve(&sb.data, &sb.ws);
        let bpid = b.id();
        let ok = wait_serving(&rt, &sb.data, bpid, 20).is_some();
        report.eval(Some(&"processes:crash_then_restart"));
        report.count("process_scenarios", 1);
        if !ok {
            report.violation("C18:processes:store_not_recovered:crash_then_restart", case("crash_then_restart"), &format!("the authority (pid {apid}) was killed; a new `rip serve` (pid {bpid}, alive: {}) did not become the authority within 20 s (lock names {:?}, meta names {:?})", alive(&mut b), lock_pid(&sb.data), meta(&sb.data).map(|m| m.0)));
        }
        reap(&mut [b]);
    }

    // (3) orderly shutdown (SIGTERM, idle): the files are gone, a new server takes over
    {
        let sb = sandbox();
        let mut a = serve(&sb.data, &sb.ws);
        let apid = a.id();
        if wait_serving(&rt, &sb.data, apid, 15).is_none() {
            reap(&mut [a]);
            machinery_failure("c18.processes: the first authority did not come up");
        }
        kill(apid, "-TERM");
        let t0 = Instant::now();
        while alive(&mut a) && t0.elapsed() < Duration::from_secs(10) {
            std::thread::sleep(Duration::from_millis(10));
        }
        report.eval(Some(&"processes:shutdown_then_restart"));
        report.count("process_scenarios", 1);
        if alive(&mut a) {
            report.info("c18.processes: the idle authority did not exit within 10 s after SIGTERM".into());
        } else if lock_pid(&sb.data) == Some(apid) {
            report.violation("C18:processes:lock_left_behind:shutdown", case("shutdown_then_restart"), &format!("pid {apid} exited after SIGTERM and lock.json still names it"));
        }
        let mut b = serve(&sb.data, &sb.ws);
        let bpid = b.id();
        if wait_serving(&rt, &sb.data, bpid, 20).is_none() {
            report.violation("C18:processes:store_not_recovered:shutdown_then_restart", case("shutdown_then_restart"), &format!("after an orderly shutdown a new `rip serve` (pid {bpid}) did not become the authority within 20 s"));
        }
        reap(&mut [a, b]);
    }

    // (4) shutdown with a request in flight (the drain) + a contender that starts inside it: while
    // the first process is alive the lock never names the contender
    {
        let sb = sandbox();
        let mut a = serve(&sb.data, &sb.ws);
        let apid = a.id();
        let Some(ep) = wait_serving(&rt, &sb.data, apid, 15) else {
            reap(&mut [a]);
            machinery_failure("c18.processes: the first authority did not come up");
        };
        let prompt = r#"{"tool":"bash","args":{"command":"echo started > started.txt; sleep 1.5; echo done > done.txt","cwd":"."}}"#;
        let mut run = Command::new(rip_bin())
            .args(["run", prompt, "--server", &ep, "--view", "raw"])
            .env_clear()
            .env("PATH", std::env::var("PATH").unwrap_or_default())
            .env("HOME", "/nonexistent-home")
            .env("RIP_DATA_DIR", &sb.data)
            .env("RIP_WORKSPACE_ROOT", &sb.ws)
            .stdin(Stdio::null())
            .stdout(Stdio::null())
            .stderr(Stdio::null())
            .spawn()
            .unwrap_or_else(|e| machinery_failure(&format!("cannot start rip run: {e}")));
        let t0 = Instant::now();
        while !sb.ws.join("started.txt").exists() && t0.elapsed() < Duration::from_secs(15) {
            std::thread::sleep(Duration::from_millis(10));
        }
        report.eval(Some(&"processes:drain_with_contender"));
        report.count("process_scenarios", 1);
        if !sb.ws.join("started.txt").exists() {
            report.info("c18.processes: the in-flight tool did not start; drain scenario skipped".into());
        } else {
            kill(apid, "-TERM");
            std::thread::sleep(Duration::from_millis(150));
            let mut b = serve(&sb.data, &sb.ws);
            let bpid = b.id();
            let t1 = Instant::now();
            let mut overlap = None;
            while t1.elapsed() < Duration::from_secs(4) {
                let a_alive = alive(&mut a);
                if !a_alive {
                    break;
                }
                if lock_pid(&sb.data) == Some(bpid) {
                    // look again: the first process must really still be there
                    std::thread::sleep(Duration::from_millis(50));
                    if alive(&mut a) {
                        overlap = Some(!sb.ws.join("done.txt").exists());
                        break;
                    }
                }
                if !alive(&mut b) {
                    break; // the contender was refused and left
                }
                std::thread::sleep(Duration::from_millis(10));
            }
            if let Some(tool_running) = overlap {
                report.violation(
                    "C18:processes:two_authorities:drain_with_contender",
                    case("drain_with_contender"),
                    &format!("pid {apid} received SIGTERM with a request in flight and is still alive (its tool still running: {tool_running}); lock.json already names the contender pid {bpid}"),
                );
            }
            reap(&mut [b]);
        }
        reap(&mut [a, run]);
    }
}
