//! C10 — branch and handoff record correct lineage and never touch the parent.
//!
//! Bounded exhaustive enumeration of parent histories x every selector choice for `branch` and
//! `handoff` (store level, and status codes through the router), against a reference cut.

use std::sync::Arc;

use axum::body::Body;
use axum::http::Request;
use http_body_util::BodyExt;
use rayon::prelude::*;
use rip_kernel::{Event, EventKind, StreamKind};
use serde_json::{json, Value};
use tower::ServiceExt;

use crate::common::{Opts, Report};
use crate::fixture::{new_rt, Fx};
use crate::hops::{apply, messages, name, sequences, thread_events, Track, H};

#[derive(Clone, Debug)]
struct Sel {
    from_message_id: Option<String>,
    from_seq: Option<u64>,
    label: String,
}

#[derive(Clone, Debug)]
enum Summary {
    Text,
    ExistingArtifact,
    MissingArtifact,
    Neither,
    /// summary text that is empty / only whitespace (may be refused; if accepted, the handoff
    /// must still carry a resolvable summary)
    BlankText,
    WhitespaceText,
    /// both forms at once: text with an artifact id that exists / that resolves to nothing (may be
    /// refused; if accepted, what the handoff records must resolve)
    TextAndExistingArtifact,
    TextAndMissingArtifact,
}

/// Reference cut: Ok((seq, message id)) or Err(refused).
fn reference_cut(events: &[Event], sel: &Sel) -> Result<(u64, Option<String>), String> {
    if sel.from_message_id.is_some() && sel.from_seq.is_some() {
        return Err("both selectors".into());
    }
    let head = events.last().map(|e| e.seq).unwrap_or(0);
    if let Some(s) = sel.from_seq {
        if s > head {
            return Err("from_seq out of range".into());
        }
        let last_msg = events.iter().filter(|e| e.seq <= s && crate::fixture::is_message(e)).last().map(|e| e.id.clone());
        return Ok((s, last_msg));
    }
    if let Some(m) = &sel.from_message_id {
        let Some(msg) = events.iter().find(|e| crate::fixture::is_message(e) && e.id == *m) else {
            return Err("message not found".into());
        };
        let mut cut = msg.seq;
        for e in events {
            match &e.kind {
                EventKind::ContinuityRunSpawned { message_id, .. } | EventKind::ContinuityRunEnded { message_id, .. } if message_id == m => cut = cut.max(e.seq),
                _ => {}
            }
        }
        return Ok((cut, Some(m.clone())));
    }
    let last_msg = events.iter().filter(|e| crate::fixture::is_message(e)).last().map(|e| e.id.clone());
    Ok((head, last_msg))
}

fn selectors(events: &[Event]) -> Vec<Sel> {
    let mut out = vec![Sel { from_message_id: None, from_seq: None, label: "none".into() }];
    let head = events.last().map(|e| e.seq).unwrap_or(0);
    for s in 0..=head {
        out.push(Sel { from_message_id: None, from_seq: Some(s), label: format!("from_seq={s}") });
    }
    out.push(Sel { from_message_id: None, from_seq: Some(head + 1), label: "from_seq=head+1".into() });
    out.push(Sel { from_message_id: None, from_seq: Some(u64::MAX), label: "from_seq=u64::MAX".into() });
    for (i, (_, id)) in messages(events).iter().enumerate() {
        out.push(Sel { from_message_id: Some(id.clone()), from_seq: None, label: format!("from_message_id=message#{i}") });
    }
    if let Some(e) = events.iter().find(|e| !crate::fixture::is_message(e)) {
        out.push(Sel { from_message_id: Some(e.id.clone()), from_seq: None, label: "from_message_id=<id of a non-message frame>".into() });
    }
    out.push(Sel { from_message_id: Some("00000000-0000-4000-8000-000000000000".into()), from_seq: None, label: "from_message_id=<unknown uuid>".into() });
    out.push(Sel { from_message_id: Some("not-a-uuid".into()), from_seq: None, label: "from_message_id=<not a uuid>".into() });
    if let Some((_, id)) = messages(events).first() {
        out.push(Sel { from_message_id: Some(id.clone()), from_seq: Some(0), label: "both".into() });
    }
    out
}

fn case_json(hist: &[H], what: &str, sel: &Sel, extra: Value) -> Value {
    json!({"engine": "H-histories", "harness": "c10.lineage", "history": hist.iter().map(name).collect::<Vec<_>>(), "call": what, "selector": sel.label, "detail": extra})
}

fn parent_lines(fx: &Fx, thread: &str) -> Vec<String> {
    String::from_utf8_lossy(&fx.log_bytes())
        .lines()
        .filter(|l| l.contains(&format!("\"stream_id\":\"{thread}\"")))
        .map(|l| l.to_string())
        .collect()
}

fn check_child(report: &Report, fx: &Fx, hist: &[H], what: &str, sel: &Sel, child: &str, want: &(u64, Option<String>), parent: &str, parent_head: u64, summary: &Summary) {
    let ev = fx.truth(StreamKind::Continuity, child);
    let kinds: Vec<String> = ev.iter().map(crate::fixture::kind_name).collect();
    let expect_second = if what == "branch" { "continuity_branched" } else { "continuity_handoff_created" };
    if kinds != vec!["continuity_created".to_string(), expect_second.to_string()] || ev.iter().map(|e| e.seq).collect::<Vec<_>>() != vec![0, 1] {
        report.violation(&format!("C10:child_stream_shape:{what}"), case_json(hist, what, sel, json!({"child": kinds})), &format!("child stream is {:?} with seqs {:?}", kinds, ev.iter().map(|e| e.seq).collect::<Vec<_>>()));
        return;
    }
    let (rec_parent, rec_seq, rec_msg, rec_art) = match &ev[1].kind {
        EventKind::ContinuityBranched { parent_thread_id, parent_seq, parent_message_id, .. } => (parent_thread_id.clone(), *parent_seq, parent_message_id.clone(), None),
        EventKind::ContinuityHandoffCreated { from_thread_id, from_seq, from_message_id, summary_artifact_id, .. } => (from_thread_id.clone(), *from_seq, from_message_id.clone(), summary_artifact_id.clone()),
        _ => unreachable!(),
    };
    if rec_parent != parent || (rec_seq, rec_msg.clone()) != *want {
        let sig = if rec_seq != want.0 { "recorded_cut_seq" } else { "recorded_cut_message" };
        report.violation(
            &format!("C10:{sig}:{what}:{}", sel.label.split('=').next().unwrap_or("")),
            case_json(hist, what, sel, json!({"recorded": [rec_seq, rec_msg], "reference": [want.0, want.1]})),
            &format!("lineage records cut ({rec_seq}, {rec_msg:?}) of {rec_parent}; reference cut is ({}, {:?})", want.0, want.1),
        );
    }
    if rec_seq > parent_head {
        report.violation(&format!("C10:cut_beyond_parent:{what}"), case_json(hist, what, sel, json!({})), &format!("recorded cut {rec_seq} > parent head {parent_head}"));
    }
    if what == "handoff" {
        match rec_art {
            Some(a) => {
                let p = fx.root.join(".rip/artifacts/blobs").join(&a);
                let ok = std::fs::read(&p).ok().and_then(|b| serde_json::from_slice::<Value>(&b).ok()).is_some();
                if !ok {
                    report.violation(
                        &format!("C10:handoff_summary_unresolvable:{summary:?}"),
                        case_json(hist, what, sel, json!({"summary_artifact_id": a, "summary": format!("{summary:?}")})),
                        &format!("the handoff records summary artifact {a}, which does not resolve to a readable artifact"),
                    );
                }
            }
            None => report.violation("C10:handoff_without_summary_artifact", case_json(hist, what, sel, json!({})), "handoff recorded without a summary artifact"),
        }
    }
    // the next append on the child gets seq 2
    if let Ok(_) = fx.store().append_message(child, "u".into(), "o".into(), "x".into()) {
        let ev2 = fx.truth(StreamKind::Continuity, child);
        if ev2.last().map(|e| e.seq) != Some(2) {
            report.violation(&format!("C10:child_numbering:{what}"), case_json(hist, what, sel, json!({})), &format!("first append on the child got seq {:?}", ev2.last().map(|e| e.seq)));
        }
    }
}

fn check_history(report: &Report, rt: &Arc<tokio::runtime::Runtime>, hist: &[H]) {
    let mut fx = Fx::new(rt.clone());
    let thread = fx.store().ensure_default().expect("thread");
    let mut t = Track::new(thread.clone());
    for op in hist {
        let _ = apply(&mut fx, &mut t, op);
    }
    let events = thread_events(&fx, &thread);
    let head = events.last().map(|e| e.seq).unwrap_or(0);
    let existing_summary: Option<String> = events.iter().find_map(|e| match &e.kind {
        EventKind::ContinuityCompactionCheckpointCreated { summary_artifact_id, .. } => Some(summary_artifact_id.clone()),
        _ => None,
    });
    let app = {
        let _g = rt.enter();
        ripd::verif_export::VerifApp::new(fx.engine.clone(), false)
    };
    let router = app.router();
    for sel in selectors(&events) {
        let want = reference_cut(&events, &sel);
        for what in ["branch", "handoff"] {
            let summaries: Vec<Summary> = if what == "branch" { vec![Summary::Text] } else { vec![Summary::Text, Summary::ExistingArtifact, Summary::MissingArtifact, Summary::Neither, Summary::BlankText, Summary::WhitespaceText, Summary::TextAndExistingArtifact, Summary::TextAndMissingArtifact] };
            for summary in summaries {
                if matches!(summary, Summary::ExistingArtifact | Summary::TextAndExistingArtifact) && existing_summary.is_none() {
                    continue;
                }
                let before_lines = parent_lines(&fx, &thread);
                let log_len = fx.log_bytes().len();
                let threads_before = fx.store().list().len();
                let store = fx.store();
                let res = if what == "branch" {
                    store.branch(&thread, None, sel.from_message_id.clone(), sel.from_seq, "u".into(), "o".into())
                } else {
                    let s = match &summary {
                        Summary::Text => (Some("handoff text".to_string()), None),
                        Summary::ExistingArtifact => (None, existing_summary.clone()),
                        Summary::MissingArtifact => (None, Some("f".repeat(64))),
                        Summary::Neither => (None, None),
                        Summary::BlankText => (Some(String::new()), None),
                        Summary::WhitespaceText => (Some(" \n\t ".to_string()), None),
                        Summary::TextAndExistingArtifact => (Some("handoff text".to_string()), existing_summary.clone()),
                        Summary::TextAndMissingArtifact => (Some("handoff text".to_string()), Some("e".repeat(64))),
                    };
                    store.handoff(&thread, None, s, sel.from_message_id.clone(), sel.from_seq, ("u".into(), "o".into()))
                };
                report.eval(None::<&u8>);
                let after_lines = parent_lines(&fx, &thread);
                if after_lines != before_lines {
                    report.violation(&format!("C10:parent_touched:{what}"), case_json(hist, what, &sel, json!({})), &format!("the parent's log lines changed: {} -> {}", before_lines.len(), after_lines.len()));
                }
                let must_refuse = want.is_err() || matches!(summary, Summary::Neither);
                match (&res, must_refuse) {
                    (Ok((child, _, _)), false) => check_child(report, &fx, hist, what, &sel, child, want.as_ref().unwrap(), &thread, head, &summary),
                    (Ok((child, s, m)), true) => report.violation(
                        &format!("C10:accepted_invalid_selector:{what}:{}", sel.label.split('=').next().unwrap_or("")),
                        case_json(hist, what, &sel, json!({"child": child, "cut": [s, m], "summary": format!("{summary:?}")})),
                        &format!("{what} accepted a request the reference refuses ({:?}, summary {summary:?})", want.as_ref().err()),
                    ),
                    (Err(e), false) => {
                        // a summary artifact id that does not resolve may legitimately be refused
                        if !matches!(summary, Summary::MissingArtifact | Summary::BlankText | Summary::WhitespaceText | Summary::TextAndExistingArtifact | Summary::TextAndMissingArtifact) {
                            report.violation(&format!("C10:refused_valid_selector:{what}"), case_json(hist, what, &sel, json!({"error": e})), &format!("{what} refused a valid request: {e}"));
                        }
                    }
                    (Err(_), true) => {}
                }
                if res.is_err() {
                    if fx.log_bytes().len() != log_len || fx.store().list().len() != threads_before {
                        report.violation(&format!("C10:refusal_with_effect:{what}"), case_json(hist, what, &sel, json!({})), &format!("a refused {what} added {} bytes / {} threads", fx.log_bytes().len() - log_len, fx.store().list().len() - threads_before));
                    }
                }
            }
        }
    }
    // router level: status codes for a valid, an out-of-range and a conflicting request
    for (body, want_ok) in [
        (json!({}), true),
        (json!({"from_seq": head + 1}), false),
        (json!({"from_seq": 0, "from_message_id": "x"}), false),
    ] {
        for route in ["branch", "handoff"] {
            let mut b = body.clone();
            if route == "handoff" {
                b["summary_markdown"] = json!("s");
            }
            let req = Request::builder().method("POST").uri(format!("/threads/{thread}/{route}")).header("content-type", "application/json").body(Body::from(b.to_string())).unwrap();
            let resp = rt.block_on(router.clone().oneshot(req)).unwrap();
            let status = resp.status();
            let _ = rt.block_on(resp.into_body().collect());
            report.eval(None::<&u8>);
            if status.is_success() != want_ok {
                report.violation(&format!("C10:router_status:{route}"), json!({"history": hist.iter().map(name).collect::<Vec<_>>(), "body": b}), &format!("POST /threads/<id>/{route} {b} -> {status}"));
            }
        }
    }
}

pub fn run(opts: Opts) -> i32 {
    if let Some(spec) = opts.extra.iter().find_map(|a| a.strip_prefix("race=")) {
        let spec = spec.to_string();
        return crate::race::worker(opts, "C10", "exploration", &spec);
    }
    let report = Report::new("C10", "exploration", opts.clone());
    if let Some(path) = &opts.replay {
        report.replay_by_re_enumeration(path);
    }
    report.set_rule(
        "every parent history of <=4 (quick) / <=5 (thorough) ops from {message, answered run, open run (message+run_spawned), run_ended for the \
         oldest open run, side effects, manual checkpoint} x every selector {none, from_seq in 0..head, head+1, u64::MAX, every message id, \
         the id of a non-message frame, an unknown uuid, a non-uuid, both} x {branch; handoff with summary text / existing artifact id / \
         missing artifact id / neither}, store level plus status codes through the router; distinct = history",
    );
    report.assume("reference cut: from_seq => (from_seq, last message at or before it); message id => (max seq over that message and its run_spawned/run_ended frames, that id); none => (head, last message)");
    report.assume("a handoff given a summary artifact id that does not exist may be refused or must record a resolvable summary; accepting it as is violates 'always carries a resolvable summary'");
    let tier = report.tier();
    let alphabet = vec![H::Msg, H::Run, H::RunSpawnOnly, H::RunEndOldest, H::Side, H::Ckpt(0)];
    let mut hs = sequences(&alphabet, tier.pick(4, 5));
    hs.insert(0, vec![]);
    report.set_extra("histories", json!(hs.len()));
    report.sample(json!({"history": hs[10].iter().map(name).collect::<Vec<_>>(), "selectors": "all"}));
    report.sample(json!({"history": hs[hs.len() / 2].iter().map(name).collect::<Vec<_>>()}));
    report.sample(json!({"history": hs[hs.len() - 1].iter().map(name).collect::<Vec<_>>()}));
    hs.par_iter().for_each_init(new_rt, |rt, h| {
        if report.over_cap() {
            return;
        }
        check_history(&report, rt, h);
        report.eval(Some(&h));
    });
    // engine S at system-call granularity: a branch / handoff racing ONE append on the parent; the
    // recorded cut (seq and message) must be that of one state of the parent, before or after
    {
        use crate::race::{job, Pre, Reader, Writer, WRITERS};
        let tier = report.tier();
        let t = tier.as_str();
        let cap = report.opts.wall_cap_s;
        let mut jobs = Vec::new();
        for r in [Reader::Branch, Reader::Handoff] {
            if tier == crate::common::Tier::Quick {
                jobs.push(job(t, "c10", cap, Pre::OpenTurn, r, Writer::Message, 1));
            } else {
                for pre in [Pre::OpenTurn, Pre::OpenTurnNoCaches] {
                    for w in WRITERS {
                        jobs.push(job(t, "c10", cap, pre, r, w, 1));
                    }
                }
                jobs.push(job(t, "c10", cap, Pre::OpenTurn, r, Writer::Message, 2));
            }
        }
        report.set_extra("race_configs", json!(jobs.len()));
        crate::common::run_workers(&report, jobs, 16, &crate::race::shim_env());
    }
    report.finish()
}
