//! C20 — surfaces are total, bounded, deterministic folds over the frame stream.
//!
//! Explicit-state BFS over the real `TuiState::update` transition function: a state is the real
//! `TuiState` value (cloned), keyed by its complete `Debug` rendering; every (state, frame) pair of
//! the alphabet is a transition. Invariants are evaluated in every reached state.

use std::collections::HashSet;
use std::panic::{catch_unwind, AssertUnwindSafe};
use std::sync::Mutex;

use ratatui::backend::TestBackend;
use ratatui::Terminal;
use rayon::prelude::*;
use rip_kernel::{
    CheckpointAction, Event, EventKind, ProviderEventStatus, ToolTaskExecutionMode, ToolTaskStatus,
    ToolTaskStream,
};
use rip_tui::{render, FrameStore, Overlay, RenderMode, TuiState};
use serde_json::{json, Value};

use crate::common::{hash64, Opts, Report, Tier};

const PREVIEW_BOUND: usize = 8_192;
const HEX64: &str = "0123456789abcdef0123456789abcdef0123456789abcdef0123456789abcdef";

fn long_text(bytes: usize) -> String {
    // multi-byte heavy so every truncation lands near a char boundary decision
    let unit = "aé😀";
    let mut s = String::new();
    while s.len() < bytes {
        s.push_str(unit);
    }
    s
}

fn ev(seq: u64, sid: &str, ts: u64, kind: EventKind) -> Event {
    Event {
        id: format!("e{seq}"),
        session_id: sid.to_string(),
        timestamp_ms: ts,
        seq,
        kind,
    }
}

/// Kind templates: (name, session id, timestamp, kind). `core` marks the 12-frame core.
fn templates() -> Vec<(&'static str, bool, &'static str, u64, EventKind)> {
    let long_out = long_text(30);
    let long_prev = long_text(3 * PREVIEW_BOUND);
    vec![
        ("session_started(a)", true, "s1", 10, EventKind::SessionStarted { input: "a".into() }),
        ("session_started(empty)", false, "s2", 0, EventKind::SessionStarted { input: "".into() }),
        ("output(é)", true, "s1", 20, EventKind::OutputTextDelta { delta: "é".into() }),
        ("output(😀)", true, "s1", 5, EventKind::OutputTextDelta { delta: "😀".into() }),
        ("output(empty)", false, "s1", 5, EventKind::OutputTextDelta { delta: "".into() }),
        ("output(long)", true, "s1", u64::MAX, EventKind::OutputTextDelta { delta: long_out }),
        ("session_ended", true, "s1", 30, EventKind::SessionEnded { reason: "done".into() }),
        (
            "tool_started(t1)",
            true,
            "s1",
            11,
            EventKind::ToolStarted {
                tool_id: "t1".into(),
                name: "write".into(),
                args: json!({"path":"a","content":"é"}),
                timeout_ms: None,
            },
        ),
        ("tool_stdout(t1,é)", true, "s1", 12, EventKind::ToolStdout { tool_id: "t1".into(), chunk: "é".into() }),
        (
            "tool_stdout(t1,long)",
            false,
            "s1",
            12,
            EventKind::ToolStdout { tool_id: "t1".into(), chunk: long_prev.clone() },
        ),
        ("tool_stderr(t2,unknown)", false, "s1", 12, EventKind::ToolStderr { tool_id: "t2".into(), chunk: "x".into() }),
        (
            "tool_ended(t1)",
            true,
            "s1",
            13,
            EventKind::ToolEnded {
                tool_id: "t1".into(),
                exit_code: 0,
                duration_ms: 1,
                artifacts: Some(json!({"stdout": {"artifact_id": HEX64}})),
            },
        ),
        ("tool_failed(t2,unknown)", true, "s1", 13, EventKind::ToolFailed { tool_id: "t2".into(), error: "boom".into() }),
        ("tool_failed(t1)", false, "s1", 13, EventKind::ToolFailed { tool_id: "t1".into(), error: "é".into() }),
        (
            "task_spawned(k1)",
            true,
            "k1",
            14,
            EventKind::ToolTaskSpawned {
                task_id: "k1".into(),
                tool_name: "bash".into(),
                args: json!({"command":"true"}),
                cwd: None,
                title: Some("t".into()),
                execution_mode: ToolTaskExecutionMode::Pipes,
                origin_session_id: None,
                artifacts: Some(json!({"logs": {"stdout": {"artifact_id": HEX64}}})),
            },
        ),
        (
            "task_status(k2,exited,unknown)",
            true,
            "k2",
            15,
            EventKind::ToolTaskStatus {
                task_id: "k2".into(),
                status: ToolTaskStatus::Exited,
                exit_code: Some(3),
                started_at_ms: Some(1),
                ended_at_ms: Some(2),
                artifacts: None,
                error: None,
            },
        ),
        (
            "task_status(k1,failed)",
            false,
            "k1",
            15,
            EventKind::ToolTaskStatus {
                task_id: "k1".into(),
                status: ToolTaskStatus::Failed,
                exit_code: None,
                started_at_ms: None,
                ended_at_ms: Some(2),
                artifacts: None,
                error: Some("é".into()),
            },
        ),
        (
            "task_output(k1,pty,long)",
            false,
            "k1",
            16,
            EventKind::ToolTaskOutputDelta {
                task_id: "k1".into(),
                stream: ToolTaskStream::Pty,
                chunk: long_prev,
                artifacts: None,
            },
        ),
        (
            "task_output(k1,stdout,😀)",
            true,
            "k1",
            16,
            EventKind::ToolTaskOutputDelta {
                task_id: "k1".into(),
                stream: ToolTaskStream::Stdout,
                chunk: "😀".into(),
                artifacts: None,
            },
        ),
        (
            "task_cancel_requested(k2)",
            false,
            "k2",
            17,
            EventKind::ToolTaskCancelRequested { task_id: "k2".into(), reason: "r".into() },
        ),
        (
            "task_cancelled(k1)",
            false,
            "k1",
            17,
            EventKind::ToolTaskCancelled { task_id: "k1".into(), reason: "r".into(), wall_time_ms: None },
        ),
        (
            "job_spawned(j1)",
            false,
            "c1",
            18,
            EventKind::ContinuityJobSpawned {
                job_id: "j1".into(),
                job_kind: "k".into(),
                details: None,
                actor_id: "a".into(),
                origin: "o".into(),
            },
        ),
        (
            "job_ended(j2,unknown)",
            false,
            "c1",
            19,
            EventKind::ContinuityJobEnded {
                job_id: "j2".into(),
                job_kind: "k".into(),
                status: "failed".into(),
                result: None,
                error: Some("e".into()),
                actor_id: "a".into(),
                origin: "o".into(),
            },
        ),
        (
            "context_compiled",
            false,
            "c1",
            20,
            EventKind::ContinuityContextCompiled {
                run_session_id: "s1".into(),
                bundle_artifact_id: HEX64.into(),
                compiler_id: "c".into(),
                compiler_strategy: "s".into(),
                from_seq: 0,
                from_message_id: None,
                actor_id: "a".into(),
                origin: "o".into(),
            },
        ),
        (
            "context_selection",
            false,
            "c1",
            20,
            EventKind::ContinuityContextSelectionDecided {
                run_session_id: "s1".into(),
                message_id: "m".into(),
                compiler_id: "c".into(),
                compiler_strategy: "s".into(),
                limits: json!({}),
                compaction_checkpoint: None,
                compaction_checkpoints: vec![],
                resets: vec![],
                reason: None,
                actor_id: "a".into(),
                origin: "o".into(),
            },
        ),
        (
            "openresponses_request_started",
            false,
            "s1",
            21,
            EventKind::OpenResponsesRequestStarted {
                endpoint: "http://x".into(),
                model: None,
                request_index: 0,
                kind: "initial".into(),
            },
        ),
        (
            "openresponses_headers",
            false,
            "s1",
            3,
            EventKind::OpenResponsesResponseHeaders {
                request_index: 0,
                status: 200,
                request_id: None,
                content_type: None,
            },
        ),
        (
            "provider_event(invalid_json)",
            true,
            "s1",
            22,
            EventKind::ProviderEvent {
                provider: "openresponses".into(),
                status: ProviderEventStatus::InvalidJson,
                event_name: None,
                data: None,
                raw: Some("{bad".into()),
                errors: vec!["e".into()],
                response_errors: vec![],
            },
        ),
        (
            "provider_event(ok)",
            false,
            "s1",
            1,
            EventKind::ProviderEvent {
                provider: "openresponses".into(),
                status: ProviderEventStatus::Event,
                event_name: Some("x".into()),
                data: Some(json!({"type":"response.output_text.delta","delta":"é"})),
                raw: None,
                errors: vec![],
                response_errors: vec![],
            },
        ),
        (
            "checkpoint_failed",
            false,
            "s1",
            23,
            EventKind::CheckpointFailed { action: CheckpointAction::Rewind, error: "é".into() },
        ),
        (
            "checkpoint_created",
            false,
            "s1",
            23,
            EventKind::CheckpointCreated {
                checkpoint_id: "c".into(),
                label: "l".into(),
                created_at_ms: 0,
                files: vec!["a".into()],
                auto: true,
                tool_name: Some("write".into()),
            },
        ),
        (
            "continuity_message",
            false,
            "c1",
            24,
            EventKind::ContinuityMessageAppended {
                actor_id: "u".into(),
                origin: "o".into(),
                content: "é".into(),
            },
        ),
    ]
}

const SEQS_FULL: [u64; 5] = [0, 1, 2, 5, u64::MAX];

struct Alphabet {
    frames: Vec<Event>,
    names: Vec<String>,
}

fn alphabet(core_only: bool, seqs: &[u64]) -> Alphabet {
    let mut frames = Vec::new();
    let mut names = Vec::new();
    for (name, core, sid, ts, kind) in templates() {
        if core_only && !core {
            continue;
        }
        for &seq in seqs {
            frames.push(ev(seq, sid, ts, kind.clone()));
            names.push(format!("{name}@{seq}"));
        }
    }
    Alphabet { frames, names }
}

fn state_key(state: &TuiState) -> u64 {
    hash64(&format!("{state:?}"))
}

/// Returns Err(signature, message) on the first violated invariant.
fn check_state(state: &TuiState, max_frames: usize, max_output: usize) -> Result<(), (String, String)> {
    let max_frames = max_frames.max(1);
    let max_output = max_output.max(1);
    if state.frames.len() > max_frames {
        return Err((
            "C20:bound:frames".into(),
            format!("frames.len()={} > max_frames={}", state.frames.len(), max_frames),
        ));
    }
    if state.output_text.len() > max_output {
        return Err((
            "C20:bound:output_text".into(),
            format!("output_text.len()={} > max_output_bytes={}", state.output_text.len(), max_output),
        ));
    }
    for tool in state.tools.values() {
        if tool.stdout_preview.len() > PREVIEW_BOUND || tool.stderr_preview.len() > PREVIEW_BOUND {
            return Err(("C20:bound:tool_preview".into(), "tool preview exceeds bound".into()));
        }
    }
    for task in state.tasks.values() {
        if task.stdout_preview.len() > PREVIEW_BOUND
            || task.stderr_preview.len() > PREVIEW_BOUND
            || task.pty_preview.len() > PREVIEW_BOUND
        {
            return Err(("C20:bound:task_preview".into(), "task preview exceeds bound".into()));
        }
    }
    check_lookup(&state.frames)?;
    if let Some(sel) = state.selected_seq {
        if let Some(found) = state.selected_event() {
            if found.seq != sel {
                return Err((
                    "C20:lookup:selected_event".into(),
                    format!("selected_seq={sel} but selected_event().seq={}", found.seq),
                ));
            }
        }
    }
    Ok(())
}

fn check_lookup(frames: &FrameStore) -> Result<(), (String, String)> {
    let mut domain: Vec<u64> = Vec::new();
    for s in SEQS_FULL {
        domain.push(s);
        domain.push(s.wrapping_add(1));
        domain.push(s.wrapping_sub(1));
    }
    for f in frames.iter() {
        domain.push(f.seq);
    }
    domain.sort_unstable();
    domain.dedup();
    let held: Vec<u64> = frames.iter().map(|f| f.seq).collect();
    for s in domain {
        if let Some(found) = frames.get_by_seq(s) {
            if found.seq != s {
                return Err((
                    "C20:lookup:get_by_seq:wrong_frame".into(),
                    format!("get_by_seq({s}) returned the frame with seq {} (held seqs {:?})", found.seq, held),
                ));
            }
        }
        if let Some(idx) = frames.index_of_seq(s) {
            match frames.iter().nth(idx) {
                Some(f) if f.seq == s => {}
                Some(f) => {
                    return Err((
                        "C20:lookup:index_of_seq:wrong_frame".into(),
                        format!("index_of_seq({s})={idx} names the frame with seq {} (held seqs {:?})", f.seq, held),
                    ));
                }
                None => {
                    return Err((
                        "C20:lookup:index_of_seq:out_of_range".into(),
                        format!("index_of_seq({s})={idx} out of range (len {})", frames.len()),
                    ));
                }
            }
        }
    }
    Ok(())
}

fn render_all(state: &TuiState, sizes: &[(u16, u16)]) -> Result<u64, String> {
    let mut h = 0u64;
    for &(w, hgt) in sizes {
        for variant in 0..4u8 {
            let mut st = state.clone();
            match variant {
                0 => {}
                1 => st.toggle_output_view(),
                2 => st.toggle_activity_overlay(),
                _ => {
                    st.toggle_output_view();
                    st.open_selected_detail();
                }
            }
            let backend = TestBackend::new(w, hgt);
            let mut term = Terminal::new(backend).map_err(|e| e.to_string())?;
            let drawn = catch_unwind(AssertUnwindSafe(|| term.draw(|f| render(f, &st, RenderMode::Decoded, "é")).map(|_| ()).map_err(|e| e.to_string())));
            match drawn {
                Ok(r) => r?,
                Err(p) => {
                    let msg = p.downcast_ref::<String>().cloned().or_else(|| p.downcast_ref::<&str>().map(|s| s.to_string())).unwrap_or_else(|| "?".into());
                    return Err(format!("PANIC at terminal size {w}x{hgt}, view variant {variant}: {msg}"));
                }
            }
            let buf = term.backend().buffer().clone();
            h ^= hash64(&format!("{buf:?}")).rotate_left(variant as u32 + w as u32);
            if variant == 1 {
                let backend = TestBackend::new(w, hgt);
                let mut term = Terminal::new(backend).map_err(|e| e.to_string())?;
                term.draw(|f| render(f, &st, RenderMode::Json, ""))
                    .map_err(|e| e.to_string())?;
            }
            let _ = Overlay::None;
        }
    }
    Ok(h)
}

/// Every overlay on states whose tools / tasks failed with LONG multi-byte error text (shifted so
/// that, whatever byte offset a clip uses, one variant has no character boundary there), for known
/// and never-announced ids: rendering must not panic and must be deterministic.
fn overlay_sweep(report: &Report, sizes: &[(u16, u16)]) {
    let texts: Vec<String> = vec![
        "\u{20ac}".repeat(120),
        format!("x{}", "\u{20ac}".repeat(120)),
        format!("xx{}", "\u{20ac}".repeat(120)),
        format!("x{}", "\u{e9}".repeat(200)),
        format!("{}\n{}", "\u{1F642}".repeat(60), "\u{1F642}".repeat(60)),
    ];
    for (ti, text) in texts.iter().enumerate() {
        let frame_sets: Vec<(&str, Vec<Event>)> = vec![
            ("tool_known", vec![
                ev(0, "s1", 1, EventKind::SessionStarted { input: "p".into() }),
                ev(1, "s1", 2, EventKind::ToolStarted { tool_id: "t1".into(), name: "bash".into(), args: json!({"command": text}), timeout_ms: None }),
                ev(2, "s1", 3, EventKind::ToolStderr { tool_id: "t1".into(), chunk: text.clone() }),
                ev(3, "s1", 4, EventKind::ToolFailed { tool_id: "t1".into(), error: text.clone() }),
            ]),
            ("tool_unknown", vec![ev(0, "s1", 1, EventKind::ToolFailed { tool_id: "t2".into(), error: text.clone() })]),
            ("task_known", vec![
                ev(0, "k1", 1, EventKind::ToolTaskSpawned { task_id: "k1".into(), tool_name: "bash".into(), args: json!({"command": text}), cwd: None, title: Some(text.clone()), execution_mode: ToolTaskExecutionMode::Pipes, origin_session_id: None, artifacts: None }),
                ev(1, "k1", 2, EventKind::ToolTaskStatus { task_id: "k1".into(), status: ToolTaskStatus::Failed, exit_code: None, started_at_ms: None, ended_at_ms: Some(2), artifacts: None, error: Some(text.clone()) }),
            ]),
            ("task_unknown", vec![ev(0, "k2", 1, EventKind::ToolTaskStatus { task_id: "k2".into(), status: ToolTaskStatus::Failed, exit_code: None, started_at_ms: None, ended_at_ms: Some(2), artifacts: None, error: Some(text.clone()) })]),
            ("provider_errors", vec![
                ev(0, "s1", 1, EventKind::SessionStarted { input: text.clone() }),
                ev(1, "s1", 2, EventKind::ProviderEvent { provider: "openresponses".into(), status: ProviderEventStatus::Event, event_name: None, data: None, raw: None, errors: vec![text.clone()], response_errors: vec![text.clone()] }),
                ev(2, "s1", 3, EventKind::SessionEnded { reason: text.clone() }),
            ]),
        ];
        for (label, frames) in frame_sets {
            let mut st = TuiState::new(64, 4096);
            for f in &frames {
                st.update(f.clone());
            }
            let mut overlays: Vec<Overlay> = vec![Overlay::None, Overlay::Activity, Overlay::TaskList, Overlay::StallDetail];
            for id in ["t1", "t2", "t9"] {
                overlays.push(Overlay::ToolDetail { tool_id: id.into() });
            }
            for id in ["k1", "k2", "k9"] {
                overlays.push(Overlay::TaskDetail { task_id: id.into() });
            }
            for seq in 0..=(frames.len() as u64) {
                overlays.push(Overlay::ErrorDetail { seq });
            }
            for ov in overlays {
                for &(w, h) in sizes {
                    let mut hashes = Vec::new();
                    for _ in 0..2 {
                        let mut s2 = st.clone();
                        s2.overlay = ov.clone();
                        let backend = TestBackend::new(w, h);
                        let mut term = match Terminal::new(backend) {
                            Ok(t) => t,
                            Err(_) => continue,
                        };
                        let drawn = catch_unwind(AssertUnwindSafe(|| term.draw(|f| render(f, &s2, RenderMode::Decoded, "")).map(|_| ())));
                        report.eval(Some(&("overlay", ti, label, format!("{ov:?}"), w, h)));
                        report.count("overlay_renders", 1);
                        match drawn {
                            Ok(_) => hashes.push(hash64(&format!("{:?}", term.backend().buffer()))),
                            Err(p) => {
                                let msg = p.downcast_ref::<String>().cloned().or_else(|| p.downcast_ref::<&str>().map(|s| s.to_string())).unwrap_or_else(|| "?".into());
                                report.violation(
                                    "C20:render:overlay_panic",
                                    json!({"engine": "H-inputs", "harness": "c20.overlays", "frames": label, "error_text_variant": ti, "overlay": format!("{ov:?}"), "size": [w, h]}),
                                    &format!("rendering overlay {ov:?} over state [{label}] (error text variant {ti}: {} bytes of multi-byte text) at {w}x{h} panicked: {msg}", text.len()),
                                );
                                break;
                            }
                        }
                    }
                    if hashes.len() == 2 && hashes[0] != hashes[1] {
                        report.violation("C20:render:overlay_nondeterministic", json!({"engine": "H-inputs", "harness": "c20.overlays", "frames": label, "error_text_variant": ti, "overlay": format!("{ov:?}"), "size": [w, h]}), "the same state rendered differently twice");
                    }
                }
            }
        }
    }
}

struct Node {
    state: TuiState,
    path: Vec<u16>,
}

fn fold(alpha: &Alphabet, path: &[u16], max_frames: usize, max_output: usize) -> TuiState {
    let mut st = TuiState::new(max_frames, max_output);
    for &i in path {
        st.update(alpha.frames[i as usize].clone());
    }
    st
}

fn case_json(alpha: &Alphabet, path: &[u16], max_frames: usize, max_output: usize) -> Value {
    json!({
        "engine": "H-bfs",
        "harness": "c20.tui_state",
        "max_frames": max_frames,
        "max_output_bytes": max_output,
        "frames": path.iter().map(|&i| alpha.names[i as usize].clone()).collect::<Vec<_>>(),
        "frames_json": path.iter().map(|&i| serde_json::to_value(&alpha.frames[i as usize]).unwrap_or(Value::Null)).collect::<Vec<_>>(),
    })
}

#[allow(clippy::too_many_arguments)]
fn bfs(
    report: &Report,
    alpha: &Alphabet,
    label: &str,
    depth: usize,
    max_frames: usize,
    max_output: usize,
    render_depth: usize,
    sizes: &[(u16, u16)],
) {
    let seen: Mutex<HashSet<u64>> = Mutex::new(HashSet::new());
    let init = TuiState::new(max_frames, max_output);
    seen.lock().unwrap().insert(state_key(&init));
    let mut frontier = vec![Node { state: init, path: vec![] }];
    let mut states_total = 1u64;
    let mut transitions_total = 0u64;
    let mut completed_depth = 0usize;
    for d in 1..=depth {
        if report.over_cap() {
            break;
        }
        let last = d == depth;
        let results: Vec<(Vec<Node>, u64)> = frontier
            .par_iter()
            .map(|node| {
                let mut next = Vec::new();
                let mut trans = 0u64;
                for (i, frame) in alpha.frames.iter().enumerate() {
                    trans += 1;
                    let mut path = node.path.clone();
                    path.push(i as u16);
                    let outcome = catch_unwind(AssertUnwindSafe(|| {
                        let mut st = node.state.clone();
                        st.update(frame.clone());
                        st
                    }));
                    let st = match outcome {
                        Ok(st) => st,
                        Err(_) => {
                            report.violation(
                                "C20:panic:update",
                                case_json(alpha, &path, max_frames, max_output),
                                "TuiState::update panicked",
                            );
                            continue;
                        }
                    };
                    let checked = catch_unwind(AssertUnwindSafe(|| check_state(&st, max_frames, max_output)));
                    match checked {
                        Ok(Ok(())) => {}
                        Ok(Err((sig, msg))) => {
                            report.violation(&sig, case_json(alpha, &path, max_frames, max_output), &msg);
                        }
                        Err(_) => report.violation(
                            "C20:panic:lookup",
                            case_json(alpha, &path, max_frames, max_output),
                            "lookup panicked",
                        ),
                    }
                    let key = state_key(&st);
                    let is_new = seen.lock().unwrap().insert(key);
                    if !is_new {
                        continue;
                    }
                    // determinism: fold the same sequence again from scratch
                    let refold = catch_unwind(AssertUnwindSafe(|| fold(alpha, &path, max_frames, max_output)));
                    match refold {
                        Ok(again) => {
                            if state_key(&again) != key {
                                report.violation(
                                    "C20:determinism:refold",
                                    case_json(alpha, &path, max_frames, max_output),
                                    "folding the same frames twice gave different states",
                                );
                            }
                        }
                        Err(_) => {}
                    }
                    if d <= render_depth {
                        let r1 = catch_unwind(AssertUnwindSafe(|| render_all(&st, sizes)));
                        match r1 {
                            Ok(Ok(h1)) => {
                                let h2 = render_all(&st, sizes).unwrap_or(0);
                                if h1 != h2 {
                                    report.violation(
                                        "C20:determinism:render",
                                        case_json(alpha, &path, max_frames, max_output),
                                        "rendering the same state twice gave different buffers",
                                    );
                                }
                                report.count("renders", (sizes.len() * 5) as u64);
                            }
                            Ok(Err(e)) if e.starts_with("PANIC") => report.violation(
                                &format!("C20:panic:render:{}", e.split(',').next().unwrap_or("").replace("PANIC at terminal size ", "")),
                                case_json(alpha, &path, max_frames, max_output),
                                &e,
                            ),
                            Ok(Err(e)) => report.info(format!("render error (not judged): {e}")),
                            Err(_) => report.violation(
                                "C20:panic:render",
                                case_json(alpha, &path, max_frames, max_output),
                                "render panicked",
                            ),
                        }
                    }
                    if !last {
                        next.push(Node { state: st, path });
                    }
                }
                (next, trans)
            })
            .collect();
        let mut next_frontier = Vec::new();
        for (nodes, trans) in results {
            transitions_total += trans;
            next_frontier.extend(nodes);
        }
        let seen_now = seen.lock().unwrap().len() as u64;
        states_total = seen_now;
        completed_depth = d;
        frontier = next_frontier;
        if frontier.is_empty() {
            break;
        }
    }
    if completed_depth < depth && !frontier.is_empty() {
        report.not_exhaustive(&format!(
            "{label}: max_frames={max_frames} max_output={max_output} completed depth {completed_depth} of {depth}"
        ));
    }
    report.add_states(states_total, transitions_total);
    report.eval_n(transitions_total);
    report.max_counter(&format!("depth_completed[{label}]"), completed_depth as u64);
    report.count(&format!("states[{label}]"), states_total);
    for k in seen.lock().unwrap().iter() {
        report.distinct_key(&(label, max_frames, max_output, *k));
    }
}

fn frame_store_direct(report: &Report) {
    // FrameStore alone: every push sequence of length <= 4 over seqs {0,1,2,5,MAX} and caps {1,2,3}.
    let seqs = SEQS_FULL;
    let mut n = 0u64;
    for cap in [1usize, 2, 3] {
        let mut stack: Vec<Vec<u64>> = vec![vec![]];
        while let Some(path) = stack.pop() {
            let mut store = FrameStore::new(cap);
            for &s in &path {
                store.push(ev(s, "s1", 0, EventKind::SessionEnded { reason: "x".into() }));
            }
            n += 1;
            if store.len() > cap {
                report.violation(
                    "C20:bound:frame_store",
                    json!({"engine":"H","harness":"c20.frame_store","cap":cap,"pushes":path}),
                    "FrameStore exceeds capacity",
                );
            }
            if let Err((sig, msg)) = check_lookup(&store) {
                report.violation(
                    &sig,
                    json!({"engine":"H","harness":"c20.frame_store","cap":cap,"pushes":path}),
                    &msg,
                );
            }
            if path.len() < 4 {
                for &s in &seqs {
                    let mut p = path.clone();
                    p.push(s);
                    stack.push(p);
                }
            }
        }
    }
    report.eval_n(n);
    report.count("frame_store_sequences", n);
}

pub fn replay(report: &Report, case: &Value) {
    let max_frames = case.get("max_frames").and_then(|v| v.as_u64()).unwrap_or(2) as usize;
    let max_output = case.get("max_output_bytes").and_then(|v| v.as_u64()).unwrap_or(8) as usize;
    if case.get("harness").and_then(|v| v.as_str()) == Some("c20.frame_store") {
        let cap = case.get("cap").and_then(|v| v.as_u64()).unwrap_or(1) as usize;
        let mut store = FrameStore::new(cap);
        for s in case.get("pushes").and_then(|v| v.as_array()).cloned().unwrap_or_default() {
            store.push(ev(s.as_u64().unwrap_or(0), "s1", 0, EventKind::SessionEnded { reason: "x".into() }));
        }
        report.eval(Some(&"replay"));
        if let Err((sig, msg)) = check_lookup(&store) {
            report.violation(&sig, case.clone(), &msg);
        }
        return;
    }
    let frames: Vec<Event> = case
        .get("frames_json")
        .and_then(|v| v.as_array())
        .cloned()
        .unwrap_or_default()
        .into_iter()
        .filter_map(|v| serde_json::from_value(v).ok())
        .collect();
    let mut st = TuiState::new(max_frames, max_output);
    let outcome = catch_unwind(AssertUnwindSafe(|| {
        for f in &frames {
            st.update(f.clone());
        }
        check_state(&st, max_frames, max_output)
    }));
    report.eval(Some(&"replay"));
    if let Ok(Ok(())) = &outcome {
        match render_all(&st, &[(20, 8), (80, 24), (200, 60)]) {
            Err(e) if e.starts_with("PANIC") => {
                report.violation(&format!("C20:panic:render:{}", e.split(',').next().unwrap_or("").replace("PANIC at terminal size ", "")), case.clone(), &e);
                return;
            }
            _ => {}
        }
    }
    match outcome {
        Ok(Ok(())) => println!("replay: property held on this case"),
        Ok(Err((sig, msg))) => report.violation(&sig, case.clone(), &msg),
        Err(_) => report.violation("C20:panic:update", case.clone(), "panicked"),
    }
}

fn machinery_failure_headless_replay() {
    // headless cases are process runs: ./vcheck C20 --tier quick re-runs all of them in seconds
    println!("replay: a headless case is re-run by the quick tier itself (every case is one process run of `rip run`)");
}

pub fn run(opts: Opts) -> i32 {
    let report = Report::new("C20", "model_checking", opts.clone());
    report.set_rule(
        "explicit-state BFS over the real TuiState::update: alphabet = kind templates x seq in {0,1,2,5,u64::MAX} \
         (ids t1/t2/k1/k2/j1/j2 so unknown-id and terminal-without-start arise; texts empty/ascii/2-byte/4-byte/3x limit); \
         capacities max_frames in {1,2,3} x max_output_bytes in {1,4,8}; a case is distinct when the complete Debug \
         rendering of the reached TuiState differs (per capacity setting); invariants checked in every reached state; \
         second part: every sequence of <=1 frame of the full alphabet and of 2 frames of the core kinds at seq 0 (thorough: 2 of the \
         full alphabet) x views {raw, output, metrics}, the metrics view under 3 timestamp patterns (increasing, decreasing, extremes), played as \
         the session stream to the real `rip run --server` binary, each case twice",
    );
    report.assume("state key = Debug rendering of TuiState (derive(Debug) covers every field incl. private bounds); update reads nothing else");
    report.assume("memory bound judged on the configured bounds only: frames, output_text, previews (8192); maps keyed by id are not bounded by configuration");
    if let Some(path) = &opts.replay {
        let case = crate::common::load_replay_case(path);
        if case["harness"] == "c20.overlays" {
            // re-run the (sub-second) overlay sweep, judging only the saved case
            std::panic::set_hook(Box::new(|_| {}));
            *report.replay_case_slot() = Some(crate::common::normalise_case(&case));
            overlay_sweep(&report, &[(20, 8), (80, 24), (200, 60)]);
            let _ = std::panic::take_hook();
            return report.finish();
        }
        if case["harness"] == "c20.headless" {
            machinery_failure_headless_replay();
        }
        replay(&report, &case);
        return report.finish();
    }
    std::panic::set_hook(Box::new(|_| {}));
    frame_store_direct(&report);
    let caps_frames = [1usize, 2, 3];
    let caps_out = [1usize, 4, 8];
    let core = alphabet(true, &SEQS_FULL);
    let full = alphabet(false, &SEQS_FULL);
    let core3 = alphabet(true, &[0, 1, 5]);
    report.set_extra("alphabet_core_frames", json!(core.frames.len()));
    report.set_extra("alphabet_full_frames", json!(full.frames.len()));
    report.sample(json!({"alphabet_core": core.names.iter().take(12).collect::<Vec<_>>()}));
    report.sample(case_json(&full, &[0, 40, 77], 2, 4));
    report.sample(case_json(&core, &[3, 3, 8], 1, 1));
    let sizes_quick: [(u16, u16); 2] = [(20, 8), (80, 24)];
    // terminal size is not in C20's quantifier: degenerate sizes (1x1: the activity overlay indexes
    // outside its buffer with ANY state) are not judged; see DESIGN.md section 4.3
    let sizes_thorough: [(u16, u16); 3] = [(20, 8), (80, 24), (200, 60)];
    let tier = report.tier();
    // second part (run first: it is bounded in time, the BFS uses what is left of the wall cap): the headless renderers of rip-cli, through the real binary
    {
        let to_json = |a: &Alphabet| -> Vec<Value> { a.frames.iter().map(|e| serde_json::to_value(e).unwrap_or(Value::Null)).collect() };
        // pairs: one frame per kind template in quick (seq 0), the reduced core alphabet in thorough
        let pair_alpha = alphabet(true, &[0]);
        crate::c20cli::run(&report, &to_json(&pair_alpha), &to_json(&full), &pair_alpha.names, &full.names, tier);
    }
    overlay_sweep(&report, if tier == Tier::Quick { &sizes_quick } else { &sizes_thorough });
    for &mf in &caps_frames {
        for &mo in &caps_out {
            match tier {
                Tier::Quick => {
                    bfs(&report, &core, "core-d3", 3, mf, mo, 1, &sizes_quick);
                    // depth-2 states are rendered for the smallest and the largest capacity setting
                    // (a status line that overflows needs two frames: a task and its failed status)
                    let render_depth = if (mf, mo) == (caps_frames[0], caps_out[0]) || (mf, mo) == (caps_frames[caps_frames.len() - 1], caps_out[caps_out.len() - 1]) { 2 } else { 1 };
                    bfs(&report, &full, "full-d2", 2, mf, mo, render_depth, &sizes_quick);
                }
                Tier::Thorough => {
                    bfs(&report, &full, "full-d3", 3, mf, mo, 2, &sizes_thorough);
                    bfs(&report, &core3, "core3-d5", 5, mf, mo, 1, &sizes_thorough);
                }
            }
        }
    }
    // every reached state comes from executing the real update function: traces == transitions
    let _ = std::panic::take_hook();
    report.add_traces_validated(0);
    report.set_extra(
        "explanation",
        json!("states/transitions are of the implementation itself (no separate model), so no model-to-code trace validation is needed"),
    );
    report.finish()
}
