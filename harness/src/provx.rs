//! Engine P — scripted provider + real router.
//!
//! An in-process HTTP provider (axum on 127.0.0.1:0) plays a *script* per run key: per request a
//! status, and for 200 a sequence of SSE byte chunks optionally followed by an abrupt connection
//! abort. It records every request body it receives. Runs are driven through the production router
//! (POST /threads/{id}/messages) on a real multi-threaded runtime and awaited by polling the log.

use std::collections::HashMap;
use std::convert::Infallible;
use std::sync::{Arc, Mutex};
use std::time::{Duration, Instant};

use axum::body::{Body, Bytes};
use axum::extract::{Path as AxPath, State};
use axum::http::{HeaderMap, Request, StatusCode};
use axum::response::IntoResponse;
use axum::routing::post;
use axum::Router;
use http_body_util::BodyExt;
use rip_kernel::{Event, EventKind, StreamKind};
use ripd::verif_export::{OpenResponsesConfig, VerifApp};
use serde_json::{json, Value};
use tower::ServiceExt;

#[derive(Clone, Debug)]
pub enum Resp {
    /// 200 text/event-stream with these chunks; `abort` = connection error after the last chunk
    Sse { chunks: Vec<Vec<u8>>, abort: bool },
    /// non-200 with a body
    Http { status: u16, body: String },
    /// 200 with an empty body
    Empty,
    /// 200 text/event-stream with these chunks, after which the body stays OPEN for `hold_ms`
    /// (a provider that does not close the connection after its terminal marker)
    SseThenHold { chunks: Vec<Vec<u8>>, hold_ms: u64 },
}

/// Pause between the last chunk and a scripted connection abort (coverage only: the oracles of the
/// checks that use it hold for either arrival order).
pub const ABORT_DELAY_MS: u64 = 40;

#[derive(Default)]
pub struct RunScript {
    pub responses: Vec<Resp>,
    pub received: Vec<Value>,
    pub received_headers: Vec<Vec<(String, String)>>,
    /// when the script is exhausted: repeat the last response (for endless-call scripts)
    pub repeat_last: bool,
    pub echo_body_in_error: bool,
}

#[derive(Clone, Default)]
pub struct Provider {
    pub runs: Arc<Mutex<HashMap<String, RunScript>>>,
    pub addr: Arc<Mutex<Option<std::net::SocketAddr>>>,
}

async fn handle(State(p): State<Provider>, AxPath(key): AxPath<String>, headers: HeaderMap, body: Bytes) -> axum::response::Response {
    let parsed: Value = serde_json::from_slice(&body).unwrap_or(Value::Null);
    let resp = {
        let mut runs = p.runs.lock().unwrap();
        let run = runs.entry(key.clone()).or_default();
        let idx = run.received.len();
        run.received.push(parsed.clone());
        run.received_headers.push(headers.iter().map(|(k, v)| (k.to_string(), v.to_str().unwrap_or("").to_string())).collect());
        let r = run.responses.get(idx).cloned().or_else(|| if run.repeat_last { run.responses.last().cloned() } else { None });
        let echo = run.echo_body_in_error;
        match r {
            Some(Resp::Http { status, body: b }) if echo => Some(Resp::Http { status, body: format!("{b} request was: {}", String::from_utf8_lossy(&body)) }),
            other => other,
        }
    };
    match resp {
        None => (StatusCode::GONE, "script exhausted").into_response(),
        Some(Resp::Http { status, body }) => (StatusCode::from_u16(status).unwrap_or(StatusCode::INTERNAL_SERVER_ERROR), body).into_response(),
        Some(Resp::Empty) => ([("content-type", "text/event-stream")], Body::empty()).into_response(),
        Some(Resp::SseThenHold { chunks, hold_ms }) => {
            let mut items: Vec<Result<Bytes, std::io::Error>> = chunks.into_iter().map(|c| Ok(Bytes::from(c))).collect();
            items.push(Ok(Bytes::new())); // marker: hold before this one
            let n = items.len();
            let stream = futures_util::StreamExt::then(futures_util::stream::iter(items.into_iter().enumerate()), move |(i, item)| async move {
                if i + 1 == n {
                    tokio::time::sleep(std::time::Duration::from_millis(hold_ms)).await;
                }
                item
            });
            ([("content-type", "text/event-stream")], Body::from_stream(stream)).into_response()
        }
        Some(Resp::Sse { chunks, abort }) => {
            let mut items: Vec<Result<Bytes, std::io::Error>> = chunks.into_iter().map(|c| Ok(Bytes::from(c))).collect();
            if abort {
                items.push(Err(std::io::Error::new(std::io::ErrorKind::ConnectionAborted, "scripted abort")));
            }
            // the abort comes after the chunks have had time to reach the client: without the pause
            // the server sees chunk and error in one poll and resets the connection before sending
            // anything, and "abort" would only ever exercise the before-first-byte path
            let stream = futures_util::StreamExt::then(futures_util::stream::iter(items), |item| async move {
                if item.is_err() {
                    tokio::time::sleep(std::time::Duration::from_millis(ABORT_DELAY_MS)).await;
                }
                item
            });
            ([("content-type", "text/event-stream")], Body::from_stream(stream)).into_response()
        }
    }
}

impl Provider {
    pub fn start(rt: &tokio::runtime::Runtime) -> Provider {
        let p = Provider::default();
        let app = Router::new().route("/{*key}", post(handle)).with_state(p.clone());
        let listener = rt.block_on(tokio::net::TcpListener::bind("127.0.0.1:0")).expect("bind provider");
        *p.addr.lock().unwrap() = Some(listener.local_addr().expect("addr"));
        rt.spawn(async move {
            let _ = axum::serve(listener, app).await;
        });
        p
    }

    pub fn endpoint(&self, key: &str) -> String {
        format!("http://{}/{key}", self.addr.lock().unwrap().expect("started"))
    }

    pub fn script(&self, key: &str, responses: Vec<Resp>, repeat_last: bool) {
        let mut runs = self.runs.lock().unwrap();
        let run = runs.entry(key.to_string()).or_default();
        run.responses = responses;
        run.repeat_last = repeat_last;
    }

    pub fn received(&self, key: &str) -> Vec<Value> {
        self.runs.lock().unwrap().get(key).map(|r| r.received.clone()).unwrap_or_default()
    }

    pub fn received_headers(&self, key: &str) -> Vec<Vec<(String, String)>> {
        self.runs.lock().unwrap().get(key).map(|r| r.received_headers.clone()).unwrap_or_default()
    }

    pub fn forget(&self, key: &str) {
        self.runs.lock().unwrap().remove(key);
    }
}

pub fn sse(events: &[Value]) -> Vec<u8> {
    let mut out = Vec::new();
    for e in events {
        match e {
            Value::String(s) if s == "[DONE]" => out.extend_from_slice(b"data: [DONE]\n\n"),
            Value::String(raw) => out.extend_from_slice(format!("data: {raw}\n\n").as_bytes()),
            v => out.extend_from_slice(format!("data: {v}\n\n").as_bytes()),
        }
    }
    out
}

pub fn config(endpoint: String) -> OpenResponsesConfig {
    OpenResponsesConfig {
        endpoint,
        api_key: None,
        model: Some("fixture-model".into()),
        headers: Vec::new(),
        tool_choice: rip_provider_openresponses::ToolChoiceParam::auto(),
        followup_user_message: None,
        stateless_history: false,
        parallel_tool_calls: false,
    }
}

/// One real authority (engine + production router) in a scratch dir, with a provider config.
pub struct App {
    pub dir: tempfile::TempDir,
    pub data: std::path::PathBuf,
    pub root: std::path::PathBuf,
    pub engine: Arc<ripd::SessionEngine>,
    pub app: VerifApp,
    pub rt: Arc<tokio::runtime::Runtime>,
}

impl App {
    pub fn new(rt: Arc<tokio::runtime::Runtime>, provider: Option<OpenResponsesConfig>) -> App {
        let dir = crate::common::scratch_dir("app");
        let data = dir.path().join("data");
        let root = dir.path().join("ws");
        std::fs::create_dir_all(&root).unwrap();
        let (engine, app) = {
            let _g = rt.enter();
            let engine = Arc::new(ripd::SessionEngine::new(data.clone(), root.clone(), provider).expect("engine"));
            let app = VerifApp::new(engine.clone(), false);
            (engine, app)
        };
        App { dir, data, root, engine, app, rt }
    }

    pub fn request(&self, method: &str, uri: &str, body: Option<Value>) -> (u16, Vec<u8>) {
        let router = self.app.router();
        let mut b = Request::builder().method(method).uri(uri);
        let body = match body {
            Some(v) => {
                b = b.header("content-type", "application/json");
                Body::from(v.to_string())
            }
            None => Body::empty(),
        };
        let req = b.body(body).unwrap();
        self.rt.block_on(async move {
            let resp = router.oneshot(req).await.unwrap();
            let status = resp.status().as_u16();
            let bytes = resp.into_body().collect().await.map(|c| c.to_bytes().to_vec()).unwrap_or_default();
            (status, bytes)
        })
    }

    pub fn log_events(&self) -> Vec<Event> {
        rip_log::EventLog::new(self.data.join("events.jsonl")).and_then(|l| l.replay()).unwrap_or_default()
    }

    pub fn ensure_thread(&self) -> String {
        let (_, b) = self.request("POST", "/threads/ensure", None);
        serde_json::from_slice::<Value>(&b).ok().and_then(|v| v["thread_id"].as_str().map(|s| s.to_string())).expect("thread id")
    }

    /// Posts a message (starting a run) and waits until the run's `continuity_run_ended` frame is
    /// in the log. Returns (message id, session id) or an error on timeout.
    pub fn post_and_wait(&self, thread: &str, content: &str, overrides: Option<Value>, timeout: Duration) -> Result<(String, String), String> {
        let mut body = json!({"content": content});
        if let Some(o) = overrides {
            body["openresponses"] = o;
        }
        let (status, b) = self.request("POST", &format!("/threads/{thread}/messages"), Some(body));
        if status != 202 {
            return Err(format!("post message -> {status}: {}", String::from_utf8_lossy(&b)));
        }
        let v: Value = serde_json::from_slice(&b).map_err(|e| e.to_string())?;
        let mid = v["message_id"].as_str().unwrap_or("").to_string();
        let sid = v["session_id"].as_str().unwrap_or("").to_string();
        self.wait_run_ended(&mid, timeout)?;
        Ok((mid, sid))
    }

    pub fn wait_run_ended(&self, message_id: &str, timeout: Duration) -> Result<(), String> {
        let start = Instant::now();
        loop {
            let done = self.log_events().iter().any(|e| matches!(&e.kind, EventKind::ContinuityRunEnded { message_id: m, .. } if m == message_id));
            if done {
                return Ok(());
            }
            if start.elapsed() > timeout {
                return Err(format!("run for message {message_id} did not end within {timeout:?}"));
            }
            std::thread::sleep(Duration::from_millis(2));
        }
    }
}

pub fn new_mt_rt() -> Arc<tokio::runtime::Runtime> {
    Arc::new(tokio::runtime::Builder::new_multi_thread().worker_threads(2).enable_all().build().expect("rt"))
}

/// The C07 lifecycle grammar evaluated on the log. Returns (signature suffix, message) per breach.
pub fn lifecycle_violations(events: &[Event]) -> Vec<(String, String)> {
    let mut out = Vec::new();
    // per continuity: message <-> run_spawned, run <-> run_ended
    let mut messages: Vec<String> = Vec::new();
    let mut spawned: HashMap<String, Vec<(usize, String)>> = HashMap::new(); // message -> [(pos, session)]
    let mut ended: HashMap<String, Vec<usize>> = HashMap::new(); // session -> positions
    let mut session_end_pos: HashMap<String, Vec<usize>> = HashMap::new();
    let mut session_frames: HashMap<String, Vec<(u64, String)>> = HashMap::new();
    let mut per_run: HashMap<String, Vec<(usize, &'static str)>> = HashMap::new();
    let mut job_ended: HashMap<String, usize> = HashMap::new();
    for (pos, e) in events.iter().enumerate() {
        match &e.kind {
            EventKind::ContinuityMessageAppended { .. } => messages.push(e.id.clone()),
            EventKind::ContinuityRunSpawned { run_session_id, message_id, .. } => {
                spawned.entry(message_id.clone()).or_default().push((pos, run_session_id.clone()));
                per_run.entry(run_session_id.clone()).or_default().push((pos, "spawned"));
            }
            EventKind::ContinuityRunEnded { run_session_id, .. } => {
                ended.entry(run_session_id.clone()).or_default().push(pos);
                per_run.entry(run_session_id.clone()).or_default().push((pos, "ended"));
            }
            EventKind::ContinuityContextSelectionDecided { run_session_id, .. } => per_run.entry(run_session_id.clone()).or_default().push((pos, "selection")),
            EventKind::ContinuityContextCompiled { run_session_id, .. } => per_run.entry(run_session_id.clone()).or_default().push((pos, "compiled")),
            EventKind::ContinuityToolSideEffects { run_session_id, .. } => per_run.entry(run_session_id.clone()).or_default().push((pos, "side_effects")),
            EventKind::ContinuityProviderCursorUpdated { run_session_id: Some(r), .. } => per_run.entry(r.clone()).or_default().push((pos, "cursor")),
            EventKind::ContinuityJobEnded { job_id, .. } => *job_ended.entry(job_id.clone()).or_insert(0) += 1,
            _ => {}
        }
        if e.stream_kind() == StreamKind::Session {
            session_frames.entry(e.stream_id().to_string()).or_default().push((e.seq, crate::fixture::kind_name(e)));
            if matches!(e.kind, EventKind::SessionEnded { .. }) {
                session_end_pos.entry(e.stream_id().to_string()).or_default().push(pos);
            }
        }
    }
    for m in &messages {
        let n = spawned.get(m).map(|v| v.len()).unwrap_or(0);
        if n != 1 {
            out.push(("message_run_spawned_count".into(), format!("message {m} has {n} run_spawned frames")));
        }
    }
    for runs in spawned.values() {
        for (_, sess) in runs {
            let n = ended.get(sess).map(|v| v.len()).unwrap_or(0);
            if n != 1 {
                out.push(("run_ended_count".into(), format!("run {sess} has {n} run_ended frames")));
                continue;
            }
            let end_pos = ended[sess][0];
            match session_end_pos.get(sess) {
                Some(p) if p.len() == 1 => {
                    if p[0] > end_pos {
                        out.push(("run_ended_before_session_ended".into(), format!("run {sess}: run_ended precedes the session's terminal frame in the log")));
                    }
                }
                Some(p) => out.push(("session_ended_count".into(), format!("session {sess} has {} session_ended frames", p.len()))),
                None => out.push(("session_ended_count".into(), format!("session {sess} has no session_ended frame although its run ended"))),
            }
        }
    }
    for (sess, marks) in &per_run {
        let rank = |k: &str| match k {
            "spawned" => 0,
            "selection" => 1,
            "compiled" => 2,
            "side_effects" | "cursor" => 3,
            _ => 4,
        };
        let seq: Vec<&str> = marks.iter().map(|m| m.1).collect();
        if !seq.windows(2).all(|w| rank(w[0]) <= rank(w[1])) {
            out.push(("run_frame_order".into(), format!("run {sess} recorded {:?}", seq)));
        }
        let n_sel = seq.iter().filter(|k| **k == "selection").count();
        let n_comp = seq.iter().filter(|k| **k == "compiled").count();
        if n_sel > 1 || n_comp > 1 || (n_comp == 1 && n_sel == 0) {
            out.push(("selection_compiled_multiplicity".into(), format!("run {sess} recorded {:?}", seq)));
        }
    }
    for (sess, frames) in &session_frames {
        if frames.first().map(|f| (f.0, f.1.as_str())) != Some((0, "session_started")) {
            out.push(("session_start".into(), format!("session {sess} starts with {:?}", frames.first())));
        }
        let ends: Vec<usize> = frames.iter().enumerate().filter(|(_, f)| f.1 == "session_ended").map(|(i, _)| i).collect();
        if ends.len() > 1 || (ends.len() == 1 && ends[0] != frames.len() - 1) {
            out.push(("session_end".into(), format!("session {sess}: {} session_ended frames, last frame is {:?}", ends.len(), frames.last())));
        }
        if frames.iter().map(|f| f.0).collect::<Vec<_>>() != (0..frames.len() as u64).collect::<Vec<_>>() {
            out.push(("session_seq".into(), format!("session {sess} seqs {:?}", frames.iter().map(|f| f.0).collect::<Vec<_>>())));
        }
    }
    // a side-effects frame describes a tool call that has FINISHED: by the log, the tool's terminal
    // frame (tool_ended / tool_failed, same tool id, the run's session) precedes it
    // (docs/03_contracts/event_frames.md: "must be emitted after the tool completes")
    for (pos, e) in events.iter().enumerate() {
        if let EventKind::ContinuityToolSideEffects { run_session_id, tool_id, .. } = &e.kind {
            let terminal = events.iter().position(|t| {
                t.stream_kind() == StreamKind::Session
                    && t.stream_id() == run_session_id
                    && matches!(&t.kind, EventKind::ToolEnded { tool_id: id, .. } | EventKind::ToolFailed { tool_id: id, .. } if id == tool_id)
            });
            match terminal {
                Some(t) if t < pos => {}
                Some(_) => out.push(("side_effects_before_tool_finished".into(), format!("run {run_session_id}: the side-effects frame of tool {tool_id} precedes that tool's terminal frame in the log"))),
                None => out.push(("side_effects_without_tool_terminal".into(), format!("run {run_session_id}: side-effects frame of tool {tool_id}, which has no terminal frame in the run's session"))),
            }
        }
    }
    for (job, n) in job_ended {
        if n > 1 {
            out.push(("job_ended_twice".into(), format!("job {job} has {n} job_ended frames")));
        }
    }
    out
}

#[allow(dead_code)]
fn _infallible(_: Infallible) {}
