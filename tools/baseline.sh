#!/bin/bash
# Runs the pinned suite in a given checkout (default /repo) with the guard OFF and compares
# against the 634 stable passes of /root/.vp/BASELINE.json. Usage: baseline.sh [dir]
DIR="${1:-/repo}"
cd "$DIR" || exit 2
unset RUSTFLAGS
JUNIT="$DIR/target/nextest/pb/junit.xml"
rm -f "$JUNIT"
cargo nextest run --workspace --no-fail-fast --tool-config-file pb:/w/lib/nextest.toml --profile pb --test-threads 8 --offline >/tmp/baseline_$$.log 2>&1
if [ ! -f "$JUNIT" ]; then echo "BUILD-OR-RUN-FAILED (no junit report; see /tmp/baseline_$$.log)"; tail -5 /tmp/baseline_$$.log; exit 3; fi
python3 - "$JUNIT" <<'PY'
import sys, json, xml.etree.ElementTree as ET
base=set(json.load(open('/root/.vp/BASELINE.json'))['stable_pass'])
t=ET.parse(sys.argv[1]).getroot()
passed=set(); failed=set()
for ts in t.iter('testsuite'):
    for tc in ts.iter('testcase'):
        name=f"{ts.get('name')}::{tc.get('name')}"
        if tc.find('failure') is not None or tc.find('error') is not None: failed.add(name)
        else: passed.add(name)
missing=sorted(base-passed)
print(f"passed={len(passed)} failed={len(failed)} baseline={len(base)} baseline_missing={len(missing)}")
for m in missing[:40]: print("  MISSING", m)
sys.exit(1 if missing else 0)
PY
rc=$?
tail -3 /tmp/baseline_$$.log; rm -f /tmp/baseline_$$.log
exit $rc
