#!/usr/bin/env python3
"""Round-2 prompt: two further seeded changes per property, each aimed at a different mechanism
named in the property's own anchors. Only property text goes into the prompt."""
import json, sys
pid = sys.argv[1]
wt = f"/tmp/wt/{pid.lower()}r2"
out = f"/tmp/seeded2/{pid}"
p = next(json.loads(l) for l in open('/verif/properties.jsonl') if json.loads(l)['id'] == pid)
mechs = "\n".join(f"  - {m['name']} ({m['where']})" for m in p['anchors'].get('mechanism', []))
state = "\n".join(f"  - {m['name']}: {m['meaning']} ({m['where']})" for m in p['anchors'].get('state', []))
print(f"""You are helping evaluate a verification framework for the Rust project numman-ali/rip (an HTTP/SSE harness for coding agents: append-only JSONL event log, sidecar caches, sessions, tasks, workspace tools). Your job is to create TWO independent realistic *seeded defects* (call them `a` and `b`): each a small change to rip's production source that BREAKS the semantic property below while the project still compiles and its existing test suite still passes. A separate party will later run their (hidden) checks against each change to see whether they detect it, so your work must be independent: work ONLY inside your own scratch git worktree `{wt}` (a checkout of the project with a warm `target/` dir). Do NOT read or touch `/verif` or `/repo` at all. Everything is offline (use `--offline` with cargo).

PROPERTY {p['id']} — {p['title']}
Statement: {p['statement']}
Quantified over: {p['quantifier']['text']}
Relevant files (hints): {', '.join(p['anchors']['files'])}
State involved:
{state}
Mechanisms that make it hold (line numbers may have drifted a little):
{mechs}

The two changes must attack DIFFERENT mechanisms / code paths from the lists above (for example one in a fast path or validation, the other in ordering / locking / bounds / cleanup), and should be of different character (e.g. one needs a particular interleaving or crash point, the other a particular input or multi-step history). Prefer places that are NOT the most obvious first target: secondary paths, fallbacks, recovery code, less common operations, second-order parameters.

REQUIREMENTS FOR EACH CHANGE
1. It edits production code only (files under `crates/*/src`, not tests, not docs). Keep it small (typically 1–15 lines, at most two cooperating sites). It must look like a plausible mistake or refactoring slip a maintainer could make — not sabotage like deleting a whole function. Lines guarded by `#[cfg(rip_verif)]` are inert instrumentation: leave them exactly as they are and do not rely on them.
2. It must still compile (`cargo build --workspace --offline`) and the existing test suite must still pass with that change alone applied. Run `/tmp/seedtools/baseline.sh {wt}` (takes ~6 min; it runs the pinned nextest suite and compares with the 634 known-stable tests; it must print `baseline_missing=0`). Note: ~10 tests fail even on the unmodified tree (7 `pty_*` tests that time out after 300 s, 3 `*unreadable*` tests, 1 local-authority stale-lock test) — ignore those. `rip-workspace::tests::list_checkpoints_sorted` and `ripd tasks::tests::pipes_*` are timing-flaky on their own under load; if only those are missing, rerun just them.
3. The defect must need something SPECIFIC to manifest — a particular thread/task interleaving, a crash or fault at a particular point, a multi-step sequence of operations, an unusual input, a particular configuration, or two cooperating sites that each look fine alone. It must NOT be something that ordinary use (or the existing tests) would expose at once.
4. Provide a demonstration: a Rust test (preferably a new file under the relevant crate's `tests/` dir, or a `#[cfg(test)]` test you add — the demonstration is NOT part of the patch) or a small program/script that FAILS with your change applied and PASSES on the unmodified tree. Actually run it both ways and record the outputs. For schedule-dependent defects the demo may force the interleaving with barriers/sleeps/loops in the test itself.

Work on one change at a time: make change a, build, run the suite, run the demo both ways, save `git diff` as the patch, then `git checkout -- .` (and remove the demo file) before starting change b.

DELIVERABLES (write them to `{out}/a/` and `{out}/b/`, create the directories):
- `patch.diff`: output of `git -C {wt} diff -- crates/` containing ONLY the production-code change (no demo/test files). It must apply cleanly with `git apply` to the original checkout.
- the demonstration file(s) (e.g. `demo_test.rs`) plus `RUN.md` saying exactly where to copy them and the exact command to run them.
- `meta.json`: {{"property": "{p['id']}", "summary": "<one sentence: what the change does>", "mechanism_attacked": "<which mechanism from the list>", "needs_to_manifest": "<the specific interleaving / crash point / sequence / input / config>", "files_changed": [...], "suite_result": "<the baseline.sh summary line you observed>", "demo_with_patch": "<fail output summary>", "demo_without_patch": "<pass output summary>"}}

When finished, leave the worktree clean (`git -C {wt} status` shows no changes), and reply with a short summary of both changes (what you changed, why tests still pass, how the demo shows the violation). Do not leave background processes running.""")
