#!/usr/bin/env python3
"""Round 3: copies /tmp/seeded4/<ID>/{a,b,c} into /verif/seeded/<ID>-3a, -3b, -3c with a meta.json."""
import json, os, shutil, glob
T = {
 # (id, variant): (status, detected_by, signature, note)
 ("C05","a"): ("not_covered","-","-","only the FIRST dirty cache family is dropped at open: needs a crash while two families are mid-update AND a third thread owning the log's last continuity frame (otherwise the tail check repairs the family that was left). Histories '<branch|handoff>+msgpark' were added in which a second OS thread appends to the main thread and stops in the middle of its cache update while the op creates a new thread - two dirty families at every following crash point - but the log's last frame then belongs to one of the two, and whichever family the change leaves behind is repaired by the tail check. Not reached; would need a third concurrent writer in the worker"),
 ("C05","b"): ("caught_after_strengthening","C05","C05:default_thread_unusable_after_crash:before[write events.jsonl]:in_flight=msg","missed: after a restart the oracle appended to every thread THE LOG knows. It now also appends to the thread ensure_default answers - which may be one the index knows and the log does not"),
 ("C05","c"): ("caught_as_built","C05","C05:torn_or_unparsable_log:before[write events.jsonl]:in_flight=msg9k","(the same change as C02-3b, written independently; C02's two-handle race reports it too)"),
 ("C07","a"): ("caught_after_strengthening","C07","C07:run_ended_count:provider_script","missed: the scripted provider always closed the body after its last chunk. A fourth way to end a response was added: the terminal marker, after which the connection stays open for 8 s (every first-response sequence and one follow-up)"),
 ("C07","b"): ("other_property","C01","C01:stream_numbering:cross_kind_id:session:/sessions/{id}/input","removes the claim that fix 7779cbe added to the thread handler: a second run on the session of a thread message's run. Reported by C01's wrong-kind-id sweep as built (the sweep that found the original defect)"),
 ("C07","c"): ("caught_as_built","C07","C07:job_ended_twice:job:compaction-auto","(caught by the job cases with a blocked artifact store that round 3 added)"),
 ("C08","a"): ("caught_as_built","C08","C08:reference:message_count",""),
 ("C08","b"): ("caught_after_strengthening","C08","C08:logged_decision_differs_from_compile","missed: the decision frame's checkpoint LIST was compared, its primary checkpoint was not. It must be the newest selected one"),
 ("C11","a"): ("caught_as_built","C11","C11:timed_out_execution_still_mutating:bash / shell","(caught by the timed-out-holder histories that round 3 added)"),
 ("C11","b"): ("caught_after_strengthening","C11","C11:side_effect_paths:WriteA+PatchMove","missed: the content of affected_paths was not compared (a stated limit). It now is, for every input whose changed files are known, and the input 'one patch that updates and moves a file' was added"),
 ("C11","c"): ("caught_after_strengthening","C11","C11:cancelled_task_still_mutating","missed: no task was cancelled while a descendant of its shell still had a write ahead of it. A real-time history was added: such a task is cancelled mid-run, the next mutation looks for the late write before it ends"),
}
def main():
    for (pid,var),(status,by,sig,note) in T.items():
        src=f"/tmp/seeded4/{pid}/{var}"
        if not os.path.isdir(src): continue
        dst=f"/verif/seeded/{pid}-4{var}"
        os.makedirs(dst,exist_ok=True)
        for f in glob.glob(src+"/*"):
            if os.path.isfile(f) and os.path.getsize(f) < 400_000: shutil.copy(f,dst)
        try: am=json.load(open(f"{src}/meta.json"))
        except Exception: am={}
        # a change that had to be re-ported onto a function a later fix rewrote: the ported patch is
        # the one to apply (patch.diff), the agent's original is kept as patch_original.diff
        if os.path.exists(f"{dst}/patch_ported.diff"):
            shutil.move(f"{dst}/patch.diff", f"{dst}/patch_original.diff")
            shutil.move(f"{dst}/patch_ported.diff", f"{dst}/patch.diff")
        patch = "patch.diff"
        meta={"property":pid,"round":4,"summary":am.get("summary"),"mechanism_attacked":am.get("mechanism_attacked"),
              "needs_to_manifest":am.get("needs_to_manifest"),"files_changed":am.get("files_changed"),
              "author":"independent sub-agent in its own scratch worktree, given only the property text (statement, quantifier, anchors) and one-line summaries of the changes of rounds 1-3 (to avoid repeats)",
              "agent_suite_result":am.get("suite_result"),"agent_demo_with_patch":am.get("demo_with_patch"),"agent_demo_without_patch":am.get("demo_without_patch"),
              "patch_to_apply":patch,
              "what_i_ran":f"tools/try_seed.sh /verif/seeded/{pid}-4{var}/{patch} <check> quick (git apply in /repo, ./vcheck, git checkout); tools/seed_regression.sh re-runs all of them",
              "status":status,"detected_by":by,"detected_as":sig,"note":note}
        json.dump(meta,open(f"{dst}/meta.json","w"),indent=1)
main()
