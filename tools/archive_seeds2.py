#!/usr/bin/env python3
"""Round 2: copies /tmp/seeded2/<ID>/{a,b} into /verif/seeded/<ID>-2a, -2b with a meta.json."""
import json, os, shutil, glob
T = {
 # (id, variant): (status, detected_by, signature, note)
 ("C01","a"): ("caught_after_strengthening","C01","C01:validated_replay_seq:quiescence:Message+Message","missed: needs a thread whose caches lag its last logged frame while the log ends with another thread's frames, then a restart. Added as a fourth pre-state of the schedule exploration (RestartedLaggingBehindForeignTail); also reported by C04 (numbering_poisoned_by_cache) once frames on a second thread were in its alphabet"),
 ("C01","b"): ("caught_after_strengthening","C01","C01:stream_numbering:tool_loop:NoneMode","missed: a sequential numbering slip in the branch of the tool loop that refuses a call under a restrictive tool_choice. C01 now also runs every provider script with <=1 call x 7 tool_choice settings x 2 history modes and checks the numbering of every stream of the log"),
 ("C02","a"): ("caught_after_strengthening","C02","C02:read_only_call_wrote:compaction_auto_schedule_v1","missed: needs a summarizer job left in flight and a dry-run schedule request; the op 'job spawned, never ended' and dry-run x block_on_inflight x execute were added"),
 ("C02","b"): ("caught_after_strengthening","C02","C02:not_append_only:second_writer_handle","missed: O_APPEND only matters with two writer handles; every history now ends with one frame through a handle opened before the history, then one by the engine"),
 ("C03","a"): ("other_property","C01","C01:validated_replay_seq:quiescence:SideEffect+SideEffect","same change as the round-1 C01 seed (seq lock released before the log append): a schedule defect; C03 quantifies over sequential histories and is not affected. Caught by C01 - after its filter was corrected so that lock acquisitions are scheduling points (the first ported version of that seed was mis-applied, see C01/meta.json)"),
 ("C03","b"): ("other_property","C04, C05","C04:wrong_answer:replay_events:.jsonl:drop_last_line:tail=message:after_fault ; C05:recovered_cache_not_transparent:replay_events:...:in_flight=msg70k","crash-recovery scan that never grows beyond 64 KiB: C03 (no crash in its quantifier) is not affected. C04 caught it as built (300 KiB message + drop-last-line fault); C05 catches it since 70 KiB in-flight frames were added"),
 ("C04","a"): ("caught_after_strengthening","C04","C04:wrong_answer:compiled_context:.mr.v1.jsonl:truncate_to_0:tail=run_ended:after_fault","missed: the wrong answer had the same (query, file, fault) signature as known finding KF-C04-A and was swallowed by it. Signatures now carry the kind of the thread's last frame (what the open-time recovery can see) and the known findings are regular expressions that list exactly the tails for which the unmodified code fails"),
 ("C04","b"): ("caught_after_strengthening","C04","C04:wrong_answer:compiled_context:none:none:tail=message:warm_authority","missed twice: (1) no history whose messages+runs sidecar exceeds the first tail window (40 x 20 KiB thread added), (2) the 'truth' side of the differential rebuilt its caches with the first query and then answered from the same fast path; it now removes the cache directory before EVERY query. Same patch as C08-2a, which C08 caught as built"),
 ("C05","a"): ("neutralised_by_fix","-","-","caught by C05 on the tree it was written against, after the recovery oracle was strengthened (append as the first operation after the restart, the differential repeated after it, both query orders) - which also exposed the genuine defect repaired by 12eecb2. Fix 833d7be (an append never re-creates a lost cache member: without a full sidecar the family is dropped) then made the store robust against this change: the missing sidecar is no longer rebuilt before the append, but the append no longer starts a partial family either. C05 and C04 hold under it"),
 ("C05","b"): ("neutralised_by_fix","-","-","narrowing of the open-time lag check (same patch as C04-2a). Since fix 12eecb2 a crash inside the cache updates leaves a marker and the whole family is dropped at open, so under this change every crash point still recovers correctly: C05 holds. The state its demonstration builds by hand is no longer reachable by a crash. The cache-fault path of the same change is a C04 violation and is caught there"),
 ("C06","a"): ("caught_after_strengthening","C06","C06:order_or_identity:TaskTwoEmitters / C06:lost_frame:TaskTwoEmitters","missed: needs two emitters of one task; a harness with two emitters (stdout / stderr readers) and one subscriber was added (910 executions, <=2 preemptions)"),
 ("C06","b"): ("caught_after_strengthening","C06","C06:late_subscriber_differs_after_log_failure:SessionLogFailure","missed at first: needs EventLog::append to FAIL while the frame is still published, and no check had an I/O error in its alphabet. A fault-injection seam was added to the log append (hook, cfg-guarded) and C06 got two kinds in which the producer's second append fails: a subscriber attached before production and a late one must receive the same frames, under all interleavings"),
 ("C07","a"): ("caught_after_strengthening","C07","C07:run_ended_count:provider_script","missed: panic on a provider error body whose 1024th byte is inside a character. Error bodies were a fixed short string; the alphabet now has empty / 70 KiB / multi-byte bodies shifted by 0..3 bytes (no cut offset is a boundary in all of them)"),
 ("C07","b"): ("other_property","C11","C11:side_effect_order:WriteA+WriteB","workspace lock released before the tool's frames are published: every run still has a well-formed lifecycle (C07 holds); what breaks is the cross-run order of side-effect frames, which is C11. Caught by C11 as built"),
 ("C08","a"): ("caught_as_built","C08","C08:reference:message_count",""),
 ("C08","b"): ("caught_as_built","C08","C08:reference:selected_checkpoints",""),
 ("C09","a"): ("caught_as_built","C09","C09:auto_created_wrong_checkpoints / C09:schedule_effects",""),
 ("C09","b"): ("caught_after_strengthening","C09","C09:job_summaries_for_one_cut_differ","missed: needs two overlapping jobs for one cut point (plan A, plan B, run A, run B). The run half of a spawned job became an op (25 overlapping-job histories) and the summaries that auto jobs render for one cut are compared (modulo the producing job's id)"),
 ("C10","a"): ("caught_after_strengthening","C10","C10:race:answer_of_neither_order:Handoff|Message:OpenTurn","missed: needs an append to the parent between branch's replay and its read of the in-memory counter. C10 now explores a branch / handoff racing one append at system-call granularity (reader-vs-appender harness); the new code takes the seq lock without a hook, which first stopped the scheduler (machinery exit 2) - the scheduler now detects an actor blocked on an unhooked lock (/proc task state) and lets the holder run"),
 ("C10","b"): ("caught_as_built","C10","C10:refusal_with_effect:handoff",""),
 ("C11","a"): ("caught_after_strengthening","C11","C11:mutation_outside_workspace_guard:checkpoint:WriteA+CheckpointCreate","missed: the checkpoint path drops the guard at once, so guard spans never overlap; the checkpoint action itself had no span. A span around checkpoint create / rewind was added (hook) and every mutating span must lie inside a guard span of the same run"),
 ("C11","b"): ("caught_after_strengthening","C11","C11:side_effect_frame_count:WriteA+WriteTimeout0","missed: no input ended in tool_failed after mutating. The input 'write with timeout_ms 0' was added (the mutation lands, the call fails, one side-effects frame is still due)"),
 ("C12","a"): ("caught_after_strengthening","C12","C12:atomicity:failed_patch_changed_files","missed: needs an op that fails half-way (target whose parent is a regular file) after another op changed a file. The path a/z (parent a is a file) was added to the path alphabet"),
 ("C12","b"): ("caught_as_built","C12","C12:exact:reference_fails_real_succeeds",""),
 ("C13","a"): ("caught_after_strengthening","C13","C13:outside_modified:TaskCwd / C13:outside_read:output:TaskCwd","missed: a resolver that validates the raw string and joins the trimmed one needs a whitespace-padded absolute or '..' path; every such string now also appears with a leading and a trailing space"),
 ("C13","b"): ("other_property","C14","C14:rewind:failed_rewind_changed_workspace","roll-back of a failed rewind resolved against the process cwd: what breaks first is 'a failed rewind leaves the workspace as it was' with cwd != root, which is C14's clause and C14's cwd mode (caught as built). C13's grammar has no rewind that fails half-way"),
 ("C14","a"): ("caught_after_strengthening","C14","C14:auto_checkpoint:does_not_cover_change:apply_patch","missed: needs one apply_patch call that names the same source in two ops, the later with a move. Four multi-op patches were added (in histories of <= depth-2 ops)"),
 ("C14","b"): ("caught_as_built","C14","C14:rewind:covered_file_wrong_bytes",""),
 ("C15","a"): ("caught_as_built","C15","C15:chunking:replacement_char_count",""),
 ("C15","b"): ("caught_as_built","C15","C15:seq:gap",""),
 ("C16","a"): ("caught_after_strengthening","C16","C16:call_answered_twice:SameCallIdNonAdjacent","missed: adjacent-only de-duplication needs a call id that comes back on a later, non-adjacent item (A, B, A); 18 three-item scripts of that shape were added. (The first version of the extension judged which of the two items sharing an id survives - not defined by the property - and raised an alarm on the unchanged tree; corrected before it was registered.)"),
 ("C16","b"): ("caught_after_strengthening","C16","C16:tool_call_bound:NoneMode / FnRead","missed: the endless-call script only ran with tool_choice auto; it now also runs with none and function(read), where every call is refused and must still count against the bound"),
 ("C18","a"): ("caught_as_built","C18","C18:acquire:live_lock_taken:Emptyx2 / DeadMetaOnlyx2","caught by the hook-level exploration: two acquirers sharing one private file name publish each other's record"),
 ("C18","b"): ("caught_as_built","C18","C18:via_stale_cleanup:two_authorities:Clients1+1:DeadMetaOnly","needs a client (cleanup keyed on meta.json) next to a server: the client scenarios that were added before this change arrived report it; not swallowed by the known findings because no acquisition lies inside a re-validate..rename window"),
 ("C20","a"): ("caught_as_built","C20","C20:bound:task_preview",""),
 ("C20","b"): ("caught_as_built","C20","C20:lookup:index_of_seq:out_of_range",""),
 ("C17","a"): ("caught_after_strengthening","C17","C17:task_stored_output","missed: the background-task pump drops reads whose preview comes out empty; real task runs only used the default preview limit. Four task commands with preview limits 0, 1 and 2 (multi-byte output) were added; the stored output must be what the command wrote"),
 ("C17","b"): ("caught_as_built","C17","C17:lifecycle:cancel_order",""),
 ("C19","a"): ("caught_after_strengthening","C19","C19:secret_in_doctor:malformed_global_semicolon_after_key","missed: every configuration layer in the product was well-formed. Three layers whose line with the inline key does not parse were added as secret sources (the diagnostics may describe the error, not quote the line)"),
 ("C19","b"): ("caught_as_built","C19","C19:secret_in_frames:secret_header_and_key / C19:secret_in_snapshot",""),
}
def main():
    for (pid,var),(status,by,sig,note) in T.items():
        src=f"/tmp/seeded2/{pid}/{var}"
        if not os.path.isdir(src): continue
        dst=f"/verif/seeded/{pid}-2{var}"
        os.makedirs(dst,exist_ok=True)
        for f in glob.glob(src+"/*"):
            if os.path.isfile(f) and os.path.getsize(f) < 400_000: shutil.copy(f,dst)
        try: am=json.load(open(f"{src}/meta.json"))
        except Exception: am={}
        meta={"property":pid,"round":2,"summary":am.get("summary"),"mechanism_attacked":am.get("mechanism_attacked"),
              "needs_to_manifest":am.get("needs_to_manifest"),"files_changed":am.get("files_changed"),
              "author":"independent sub-agent in its own scratch worktree, given only the property text (statement, quantifier, anchors)",
              "agent_suite_result":am.get("suite_result"),"agent_demo_with_patch":am.get("demo_with_patch"),"agent_demo_without_patch":am.get("demo_without_patch"),
              "what_i_ran":f"tools/try_seed.sh /verif/seeded/{pid}-2{var}/patch.diff <check> quick (git apply in /repo, ./vcheck, git checkout); tools/seed_regression.sh re-runs all of them",
              "status":status,"detected_by":by,"detected_as":sig,"note":note}
        json.dump(meta,open(f"{dst}/meta.json","w"),indent=1)
main()
