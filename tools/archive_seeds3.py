#!/usr/bin/env python3
"""Round 3: copies /tmp/seeded3/<ID>/{a,b,c} into /verif/seeded/<ID>-3a, -3b, -3c with a meta.json."""
import json, os, shutil, glob
T = {
 # (id, variant): (status, detected_by, signature, note)
 ("C01","a"): ("caught_after_strengthening","C01","C01:stream_numbering:cross_kind_id:session:/threads/{id}/messages","missed: needs an id of the WRONG kind (a thread message posted to a session or task id). C01 got a sweep of the 12 id-addressed writer routes x ids of every kind (72 cases). On the unchanged tree the sweep found a genuine defect first: POST /sessions/{id}/input on the session of a thread message's run started a second run on that stream (fix 7779cbe)"),
 ("C01","b"): ("caught_as_built","C01","C01:validated_replay_seq:quiescence:Message+Message",""),
 ("C01","c"): ("caught_after_strengthening","C01, C07","C01:stream_numbering:provider_termination ; C07:session_seq:provider_script","missed: a connection abort AFTER events were delivered. The scripted 'abort' never reached the client mid-stream (hyper saw chunk and error in one poll and reset the connection before sending anything), so only the before-first-byte path was exercised - in C07 too. The scripted provider now pauses before the abort (the number of aborts observed mid-stream is evidence, 0 is a machinery failure) and C01 sweeps the numbering through every non-[DONE] ending"),
 ("C04","a"): ("caught_after_strengthening","C04","C04:wrong_answer:compaction_cut_points_v1:.mr.msgord.v1.bin:delete:tail=message:warm_fault_and_append","caught as built at first (the next append onto a deleted index). Fix 93ac88a then masked it in every existing phase: a fresh authority's first append re-derives the family, and every phase of C04 used a fresh authority. The change needs a fault under a RUNNING authority whose counter is warm - which the property's quantifier names. A warm-fault phase was added (warm-up append, fault on the live files, queries, append, queries); on the unchanged tree it found that an emptied messages+runs sidecar was served as an empty thread (fix 44d5b76) and one more known-finding class (KF-C04-C1w)"),
 ("C04","b"): ("caught_after_strengthening","C04","C04:wrong_answer:compiled_context:.mr.v1.jsonl:drop_last_line:tail=run_ended+foreign_last:after_fault_append_first","missed: needs the WHOLE family rolled back and the append as the first call after the restart. Added: whole-family roll-back faults, pairs of faults with attribution, and a phase in which the append is the first call on the faulted store. That phase showed on the unchanged tree that a stale member is extended by the first append (a hole nothing detects later): repaired by fix 93ac88a (the first append re-derives the family), which also closed known finding KF-C04-B. The change was re-ported onto the repaired function (patch_ported.diff: rebuild only when the sidecar tail is unreadable)"),
 ("C04","c"): ("caught_after_strengthening","C04","C04:non_termination:resolution_no_fault:none:thread_longer_than_tail_window","missed: the rotation target (and branch / handoff cut resolution) were not among C04's queries although the property names them. They now run as queries on stores of their own (truth once per history); the hang is reported by the watchdog on the 10 001-frame thread"),
 ("C05","a"): ("caught_after_strengthening","C05","C05:recovered_cache_not_transparent:replay_events:before[write events.jsonl]:in_flight=msg+sess","missed: needs ANOTHER run's session frames in the log between an op's log append and its first cache effect. 11 histories '<op>+sess' were added: the shim's callback finds the moment (before the family's .dirty marker is created) and a concurrent stub run logs its frames there; every file-system call of both is a crash point"),
 ("C05","b"): ("caught_as_built","C05","C05:recovered_cache_not_transparent:replay_events:before[write events.jsonl]:in_flight=side",""),
 ("C05","c"): ("caught_after_strengthening","C05","C05:recovered_cache_not_transparent:replay_events:before[write <id>.jsonl]:in_flight=msg","missed: needs a crash INSIDE a cache rebuild of a thread longer than the writer's buffer. 7 histories were added whose last op rebuilds (caches wiped then read; orderly restart then first append), with and without a foreign last frame"),
 ("C07","a"): ("caught_after_strengthening","C07, C11","C07:side_effects_before_tool_finished:provider_script ; C11:side_effects_before_tool_finished:WriteA+AgentWrite","missed: the grammar ordered side-effects frames only against the run's other thread frames. The documented clause 'after the tool completes' (event_frames.md; C11: 'after the tool finished') is now judged on the log: the tool's terminal frame precedes its side-effects frame"),
 ("C07","b"): ("caught_after_strengthening","C07","C07:run_ended_count:override:endpoint_not_a_url","missed: no request carried a per-request provider override. 10 overrides (endpoints that do not parse, refused, other scheme; odd model; flags) x {provider configured, not} were added: whatever the server answers, every logged message has its run and every run ends. Re-ported after fix 7779cbe renamed the call (patch_ported.diff)"),
 ("C07","c"): ("caught_after_strengthening","C07","C07:job_ended_twice:job:compaction-auto","missed: no background job ever failed in C07's runs. 12 cases through the compaction-auto / -schedule routes with a healthy and a blocked artifact store were added"),
 ("C08","a"): ("caught_as_built","C08","C08:reference:selected_checkpoints",""),
 ("C08","b"): ("caught_after_strengthening","C08","C08:reference:message_count","missed: the 'open run' op had no session frames, so a reply attached from beyond the cut was empty and invisible. Open runs now log their real session frames (reply in the log before run_ended)"),
 ("C08","c"): ("caught_after_strengthening","C08","C08:reference:message_count","missed: no run ended with a reason other than 'completed' after producing output. The op 'run_ended with reason provider_error' and 1 000+ histories of overlapping runs around it were added"),
 ("C09","a"): ("caught_as_built","C09","C09:summary_not_deterministic",""),
 ("C09","b"): ("caught_after_strengthening","C09","C09:inflight_job","missed: no job ever failed. The op 'auto compaction whose job fails after its spawn' (artifact store blocked while it runs) was added, and the in-flight job the status reports is compared with the log (newest spawned-and-not-ended job)"),
 ("C09","c"): ("caught_after_strengthening","C09","C09:summary_coverage","missed: manual checkpoints always passed text. The op 'manual checkpoint naming an existing summary artifact' (same thread / other cut; other thread / same cut) was added and the coverage of EVERY checkpoint frame is checked, not only of those an auto run creates"),
 ("C11","a"): ("caught_after_strengthening","C11","C11:mutation_outside_workspace_guard:shell:WriteA+ShellAlias","missed: the shell tool was only run as a background task. Inputs 'bash tool' and 'shell alias' run by a session were added"),
 ("C11","b"): ("caught_after_strengthening","C11","C11:queued_mutation_ran_during_holder:task:cancel_queued","missed: needs a cancel while the task is QUEUED behind the lock; the scheduler models a lock acquisition as blocking and cannot see a select! around it. 12 real-time histories with a queued mutation were added (the holder itself is the witness). Building them exposed a genuine defect on the unchanged tree: a timed-out shell tool keeps running after the lock is released (fix 3b04891)"),
 ("C11","c"): ("caught_after_strengthening","C11","C11:read_only_tool_never_overlaps:WriteA+Read","missed: overlap of read-only tools was counted, not required. Every config with a read-only tool must now show the overlap in at least one explored interleaving"),
 ("C16","a"): ("caught_as_built","C16","C16:barred_call_not_denied",""),
 ("C16","b"): ("caught_after_strengthening","C16","C16:invalid_request_sent","missed: 'fails schema validation' was decided by the gate under test. Every request the provider received is now validated against the schema files compiled independently (jsonschema crate, harness/src/orschema.rs), and 72 runs with call ids / function names at the schema's limits were added"),
 ("C16","c"): ("caught_after_strengthening","C16","C16:stateless_history_not_extending","missed: every run was the first message of its thread. 32 runs that start from a compiled context with an earlier turn and make 1 or 2 tool rounds were added"),
}
def main():
    for (pid,var),(status,by,sig,note) in T.items():
        src=f"/tmp/seeded3/{pid}/{var}"
        if not os.path.isdir(src): continue
        dst=f"/verif/seeded/{pid}-3{var}"
        os.makedirs(dst,exist_ok=True)
        for f in glob.glob(src+"/*"):
            if os.path.isfile(f) and os.path.getsize(f) < 400_000: shutil.copy(f,dst)
        try: am=json.load(open(f"{src}/meta.json"))
        except Exception: am={}
        # a change that had to be re-ported onto a function a later fix rewrote: the ported patch is
        # the one to apply (patch.diff), the agent's original is kept as patch_original.diff
        if os.path.exists(f"{dst}/patch_ported.diff"):
            shutil.move(f"{dst}/patch.diff", f"{dst}/patch_original.diff")
            shutil.move(f"{dst}/patch_ported.diff", f"{dst}/patch.diff")
        patch = "patch.diff"
        meta={"property":pid,"round":3,"summary":am.get("summary"),"mechanism_attacked":am.get("mechanism_attacked"),
              "needs_to_manifest":am.get("needs_to_manifest"),"files_changed":am.get("files_changed"),
              "author":"independent sub-agent in its own scratch worktree, given only the property text (statement, quantifier, anchors) and one-line summaries of the earlier rounds' changes (to avoid repeats)",
              "agent_suite_result":am.get("suite_result"),"agent_demo_with_patch":am.get("demo_with_patch"),"agent_demo_without_patch":am.get("demo_without_patch"),
              "patch_to_apply":patch,
              "what_i_ran":f"tools/try_seed.sh /verif/seeded/{pid}-3{var}/{patch} <check> quick (git apply in /repo, ./vcheck, git checkout); tools/seed_regression.sh re-runs all of them",
              "status":status,"detected_by":by,"detected_as":sig,"note":note}
        json.dump(meta,open(f"{dst}/meta.json","w"),indent=1)
main()
