#!/bin/bash
# mk_worktree.sh <name>: scratch worktree of /repo HEAD under /tmp/wt/<name> with a warm target dir
set -eu
NAME="$1"
DIR=/tmp/wt/$NAME
git -C /repo worktree add --detach "$DIR" HEAD >/dev/null 2>&1
cp -a --reflink=auto /repo/target "$DIR/target"
echo "$DIR"
