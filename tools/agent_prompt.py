#!/usr/bin/env python3
import json, sys
pid = sys.argv[1]
wt = f"/tmp/wt/{pid.lower()}"
out = f"/tmp/seeded/{pid}"
p = next(json.loads(l) for l in open('/verif/properties.jsonl') if json.loads(l)['id'] == pid)
print(f"""You are helping evaluate a verification framework for the Rust project numman-ali/rip (an HTTP/SSE harness for coding agents: append-only JSONL event log, sidecar caches, sessions, tasks, workspace tools). Your job is to create ONE realistic *seeded defect*: a small change to rip's production source that BREAKS the semantic property below while the project still compiles and its existing test suite still passes. A separate party will later run their (hidden) checks against your change to see whether they detect it, so your work must be independent: work ONLY inside your own scratch git worktree `{wt}` (a checkout of the project with a warm `target/` dir). Do NOT read or touch `/verif` or `/repo` at all. Everything is offline (use `--offline` with cargo).

PROPERTY {p['id']} — {p['title']}
Statement: {p['statement']}
Quantified over: {p['quantifier']['text']}
Relevant files (hints): {', '.join(p['anchors']['files'])}

REQUIREMENTS FOR THE CHANGE
1. It edits production code only (files under `crates/*/src`, not tests, not docs). Keep it small (typically 1–15 lines, at most two cooperating sites). It must look like a plausible mistake or refactoring slip a maintainer could make — not sabotage like deleting a whole function. Lines guarded by `#[cfg(rip_verif)]` are inert instrumentation: leave them exactly as they are and do not rely on them.
2. It must still compile (`cargo build --workspace --offline`) and the existing test suite must still pass. Run `/tmp/seedtools/baseline.sh {wt}` (takes ~6 min; it runs the pinned nextest suite and compares with the 634 known-stable tests; it must print `baseline_missing=0`). Note: 10 tests fail even on the unmodified tree (7 `pty_*` tests that time out after 300 s, 3 `*unreadable*` tests, 1 local-authority stale-lock test) — ignore those.
3. The defect must need something SPECIFIC to manifest — a particular thread/task interleaving, a crash or fault at a particular point, a multi-step sequence of operations, an unusual input, a particular configuration, or two cooperating sites that each look fine alone. It must NOT be something that ordinary use (or the existing tests) would expose at once.
4. Provide a demonstration: a Rust test (preferably a new file under the relevant crate's `tests/` dir, or a `#[cfg(test)]` test you add — the demonstration is NOT part of the patch) or a small program/script that FAILS with your change applied and PASSES on the unmodified tree. Actually run it both ways and record the outputs. For schedule-dependent defects the demo may force the interleaving with barriers/sleeps/loops in the test itself.

DELIVERABLES (write them to `{out}/`, create the directory):
- `patch.diff`: output of `git -C {wt} diff -- crates/*/src ...` containing ONLY the production-code change (no demo/test files). It must apply cleanly with `git apply` to the original checkout.
- the demonstration file(s) (e.g. `demo_test.rs`) plus `RUN.md` saying exactly where to copy them and the exact command to run them.
- `meta.json`: {{"property": "{p['id']}", "summary": "<one sentence: what the change does>", "needs_to_manifest": "<the specific interleaving / crash point / sequence / input / config>", "files_changed": [...], "suite_result": "<the baseline.sh summary line you observed>", "demo_with_patch": "<fail output summary>", "demo_without_patch": "<pass output summary>"}}

Think about which mechanisms in the code make the property hold (locks held across a read-modify-write, ordering of write vs publish, validation of cached data, bounds/clamps, path checks, undo records, filters such as `<=`), and subtly weaken one of them. Prefer a defect that a test-suite-style example would not hit but that violates the property for some input/schedule/history. When finished, reply with a short summary (what you changed, why tests still pass, how the demo shows the violation). Do not leave background processes running.""")
