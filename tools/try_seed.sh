#!/bin/bash
# try_seed.sh <patch.diff> <check id> [tier]  — applies a seeded change to /repo, runs one check, reverts.
set -u
PATCH="$1"; ID="$2"; TIER="${3:-quick}"
cd /repo || exit 2
if [ -n "$(git status --porcelain --untracked-files=no)" ]; then echo "repo not clean"; exit 2; fi
if ! git apply --check "$PATCH" 2>/dev/null; then
  if ! git apply --3way --check "$PATCH" 2>/dev/null; then echo "patch does not apply"; exit 2; fi
fi
git apply "$PATCH" || git apply --3way "$PATCH"
cd /verif
START=$(date +%s)
./vcheck "$ID" --tier "$TIER" > /tmp/try_seed_$ID.out 2>&1
RC=$?
END=$(date +%s)
git -C /repo reset -q
git -C /repo checkout -- .
echo "check=$ID tier=$TIER exit=$RC wall=$((END-START))s violations_lines=$(grep -c '^VIOLATION' /tmp/try_seed_$ID.out)"
grep -E "^VIOLATION|signature|message" /tmp/try_seed_$ID.out | head -8
tail -3 /tmp/try_seed_$ID.out
# restore evidence produced on the unmodified tree later by re-running the check
exit 0
