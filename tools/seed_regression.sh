#!/bin/bash
# seed_regression.sh [name ...] - applies every archived seeded change to /repo, runs the check that is
# supposed to report it (quick tier), reverts, and writes /verif/seeded/REGRESSION.md.
# /repo must be clean. Afterwards the evidence files are from changed trees: re-run the checks.
cd /verif || exit 2
if [ -n "$(git -C /repo status --porcelain --untracked-files=no)" ]; then echo "repo not clean"; exit 2; fi
OUT=/verif/seeded/REGRESSION.md
TMP=$(mktemp)
NAMES="$@"; [ -z "$NAMES" ] && NAMES=$(ls /verif/seeded | grep -v "\.md$")
for n in $NAMES; do
  d=/verif/seeded/$n
  [ -f $d/meta.json ] || continue
  read -r CHECK EXPECT <<<"$(python3 - "$d/meta.json" <<'PY'
import json,sys,re
m=json.load(open(sys.argv[1]))
st=m.get('status')
if st is None: st='caught' if m.get('detected') else 'not_detected'
by=m.get('detected_by') or m.get('property')
ids=re.findall(r'C\d\d', by or '')
print(ids[0] if ids else '-', 'caught' if st.startswith('caught') or st=='other_property' else st)
PY
)"
  if [ "$EXPECT" != caught ] || [ "$CHECK" = - ]; then echo "| $n | - | $EXPECT | not run |" >> $TMP; continue; fi
  if ! git -C /repo apply --check $d/patch.diff 2>/dev/null; then echo "| $n | $CHECK | caught | PATCH DOES NOT APPLY |" >> $TMP; continue; fi
  git -C /repo apply $d/patch.diff
  ./vcheck $CHECK --tier quick > /tmp/seedreg_$n.out 2>&1; RC=$?
  git -C /repo reset -q; git -C /repo checkout -- .
  SIG=$(grep -m1 "signature:" /tmp/seedreg_$n.out | sed 's/.*signature: //' | cut -c1-110)
  echo "| $n | $CHECK | caught | exit=$RC $( [ $RC = 1 ] && echo DETECTED || echo '**NOT DETECTED**') \`$SIG\` |" >> $TMP
  echo "$n $CHECK exit=$RC $SIG"
done
{ echo "# Seeded changes: regression run ($(date -u +%Y-%m-%dT%H:%MZ), /repo $(git -C /repo rev-parse --short HEAD))"; echo; echo "| seeded change | check run | expected | result |"; echo "|---|---|---|---|"; cat $TMP; } > $OUT
rm -f $TMP
