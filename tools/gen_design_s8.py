#!/usr/bin/env python3
"""Regenerates section 8 of DESIGN.md from /verif/seeded/*/meta.json."""
import json, os, re, glob
def esc(x): return (x or "").replace("\n"," ").replace("|","/")
def short(x,n=190):
    x=esc(x); return x if len(x)<=n else x[:n-3]+"..."
r1=[]; r2=[]
for d in sorted(glob.glob('/verif/seeded/*/')):
    name=os.path.basename(d.rstrip('/'))
    try: m=json.load(open(d+'meta.json'))
    except Exception: continue
    if name.endswith('_neutralised'): continue
    if '-2' in name:
        st=m.get('status','?')
        r2.append(f"| {name} | {short(m.get('summary'))} | {st.replace('_',' ')} | {esc(m.get('detected_by'))} | `{short(m.get('detected_as'),120)}` | {esc(m.get('note'))} |")
    else:
        res=(m.get('status') or ('caught' if m.get('detected') else 'missed')).replace('_',' ')
        by=m.get('detected_by') or name
        r1.append(f"| {name} | {short(m.get('summary'))} | {res} (by {by}) | `{short(m.get('detected_as'),120)}` | {esc(m.get('note'))} |")
from collections import Counter
c=Counter(json.load(open(d+'meta.json')).get('status') for d in glob.glob('/verif/seeded/*-2?/'))
text=f'''## 8. Detection results: seeded changes

### 8.1 Round 1: one change per property

One change per property, each written by an independent sub-agent from the property text alone;
archived with demonstration and meta.json under `/verif/seeded/<id>/`. "As built" = the check
caught it without modification. Every miss led to a strengthening of the check that is
independent of the particular change (a wider alphabet or a stronger oracle), and the check was
then re-run on the unchanged tree.

| id | seeded change (one line) | result | detected as | what it took |
|----|--------------------------|--------|-------------|--------------|
'''+"\n".join(r1)+f'''

The first C05 change (`seeded/C05_neutralised`: the reverse sidecar scan skips a trailing frame
without newline) broke the property on the tree it was written against; the repo fixes 30a228f
and 51a8319 made the store robust against it (its own demonstration passes with the change
applied), so it is kept for the record only and a second C05 change was commissioned.

Round 1 summary: all 20 are reported by a registered check on the final tree: 18 by the check of
the property they were written for, 2 (C03, C05) by C04 - later repo fixes (833d7be, 12eecb2) made
C03 and C05 *hold* under those two changes, and what remains of them is a cache-transparency
violation. 13 were caught by the check as first built; 7 (C02, C04, C05, C08, C15, C16, C19)
exposed a blind spot that was closed in a way that does not refer to the particular change. Two
results changed later and are the most instructive ones: the C01 and C18 changes had to be
ported after repo fixes rewrote the code around them, and the *ported* versions were at first
missed - C01 because lock acquisitions were not scheduling points in its filter, C18 because the
ported race sits between two steps without a source hook. Both led to general repairs of the
machinery (lock hooks as scheduling points; every file-system call as a scheduling point), not
to special cases.

### 8.2 Round 2: two further changes per property, against different mechanisms

The second round gave each sub-agent the property's statement, quantifier **and its lists of
anchored state and mechanisms**, and asked for two changes attacking *different* mechanisms,
of different character, preferring secondary paths (fallbacks, recovery code, less common
operations, second-order parameters). 40 changes; archived as `/verif/seeded/<id>-2a`, `-2b`.

| id | seeded change (one line) | status | detected by | detected as | what it took / why not |
|----|--------------------------|--------|-------------|-------------|------------------------|
'''+"\n".join(r2)+f'''

Status counts: {dict(c)}. "other property" = the change does not break the property it was
written for (under that property's quantifier) but another one, whose check reports it.
"neutralised by fix" = a repo fix made after the change was written keeps the property true
under the change. "not covered" = the change breaks the property and no check reports it; the
reason is a stated limit (§5).

What round 2 taught, beyond the individual alphabets: (1) **a known finding must not share a
signature with anything a change could break** — C04-2a was swallowed by a prefix signature;
signatures now carry the discriminator that separates the two and known findings are regular
expressions. (2) **The truth side of a differential must not run the code under test** —
C04-2b was invisible because the cache-less side rebuilt its caches on the first query and then
answered from the same fast path. (3) **Query order matters when a query repairs state** —
C05-2a needed the replay to be asked last and the append to be the first operation after a
restart; doing that exposed a genuine crash defect as well. (4) **Hook granularity is a
property of the unchanged tree, not of a change** — hence the system-call scheduler and the
blocked-actor detection. (5) **A check binary is built from the tree it last saw** — after
`try_seed.sh` the binary is a mutant; everything that is meant to judge the unchanged tree
rebuilds first (one full thorough pass was invalid for this reason and was repeated).

`tools/seed_regression.sh` re-applies every archived change to /repo, runs the check named in
its meta.json and reverts; its last output is `/verif/seeded/REGRESSION.md`.
'''
p='/verif/DESIGN.md'
s=open(p).read()
i=s.index("## 8. Detection results: seeded changes")
s=s[:i]+text
open(p,'w').write(s)
print("section 8 regenerated:", len(r1), "round-1 rows,", len(r2), "round-2 rows")
