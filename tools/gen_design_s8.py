#!/usr/bin/env python3
"""Regenerates section 8 of DESIGN.md from /verif/seeded/*/meta.json."""
import json, os, re, glob
def esc(x): return (x or "").replace("\n"," ").replace("|","/")
def short(x,n=190):
    x=esc(x); return x if len(x)<=n else x[:n-3]+"..."
r1=[]; r2=[]; r3=[]; r4=[]; r5=[]
for d in sorted(glob.glob('/verif/seeded/*/')):
    name=os.path.basename(d.rstrip('/'))
    try: m=json.load(open(d+'meta.json'))
    except Exception: continue
    if name.endswith('_neutralised'): continue
    if '-5' in name:
        st=m.get('status','?')
        r5.append(f"| {name} | {short(m.get('summary'))} | {st.replace('_',' ')} | {esc(m.get('detected_by'))} | `{short(m.get('detected_as'),120)}` | {esc(m.get('note'))} |")
    elif '-4' in name:
        st=m.get('status','?')
        r4.append(f"| {name} | {short(m.get('summary'))} | {st.replace('_',' ')} | {esc(m.get('detected_by'))} | `{short(m.get('detected_as'),120)}` | {esc(m.get('note'))} |")
    elif '-3' in name:
        st=m.get('status','?')
        r3.append(f"| {name} | {short(m.get('summary'))} | {st.replace('_',' ')} | {esc(m.get('detected_by'))} | `{short(m.get('detected_as'),120)}` | {esc(m.get('note'))} |")
    elif '-2' in name:
        st=m.get('status','?')
        r2.append(f"| {name} | {short(m.get('summary'))} | {st.replace('_',' ')} | {esc(m.get('detected_by'))} | `{short(m.get('detected_as'),120)}` | {esc(m.get('note'))} |")
    else:
        res=(m.get('status') or ('caught' if m.get('detected') else 'missed')).replace('_',' ')
        by=m.get('detected_by') or name
        r1.append(f"| {name} | {short(m.get('summary'))} | {res} (by {by}) | `{short(m.get('detected_as'),120)}` | {esc(m.get('note'))} |")
from collections import Counter
c=Counter(json.load(open(d+'meta.json')).get('status') for d in glob.glob('/verif/seeded/*-2?/'))
c5=Counter(json.load(open(d+'meta.json')).get('status') for d in glob.glob('/verif/seeded/*-5?/'))
c4=Counter(json.load(open(d+'meta.json')).get('status') for d in glob.glob('/verif/seeded/*-4?/'))
c3=Counter(json.load(open(d+'meta.json')).get('status') for d in glob.glob('/verif/seeded/*-3?/'))
text=f'''## 8. Detection results: seeded changes

### 8.1 Round 1: one change per property

One change per property, each written by an independent sub-agent from the property text alone;
archived with demonstration and meta.json under `/verif/seeded/<id>/`. "As built" = the check
caught it without modification. Every miss led to a strengthening of the check that is
independent of the particular change (a wider alphabet or a stronger oracle), and the check was
then re-run on the unchanged tree.

| id | seeded change (one line) | result | detected as | what it took |
|----|--------------------------|--------|-------------|--------------|
'''+"\n".join(r1)+f'''

The first C05 change (`seeded/C05_neutralised`: the reverse sidecar scan skips a trailing frame
without newline) broke the property on the tree it was written against; the repo fixes 30a228f
and 51a8319 made the store robust against it (its own demonstration passes with the change
applied), so it is kept for the record only and a second C05 change was commissioned.

Round 1 summary: all 20 are reported by a registered check on the final tree: 18 by the check of
the property they were written for, 2 (C03, C05) by C04 - later repo fixes (833d7be, 12eecb2) made
C03 and C05 *hold* under those two changes, and what remains of them is a cache-transparency
violation. 13 were caught by the check as first built; 7 (C02, C04, C05, C08, C15, C16, C19)
exposed a blind spot that was closed in a way that does not refer to the particular change. Two
results changed later and are the most instructive ones: the C01 and C18 changes had to be
ported after repo fixes rewrote the code around them, and the *ported* versions were at first
missed - C01 because lock acquisitions were not scheduling points in its filter, C18 because the
ported race sits between two steps without a source hook. Both led to general repairs of the
machinery (lock hooks as scheduling points; every file-system call as a scheduling point), not
to special cases.

### 8.2 Round 2: two further changes per property, against different mechanisms

The second round gave each sub-agent the property's statement, quantifier **and its lists of
anchored state and mechanisms**, and asked for two changes attacking *different* mechanisms,
of different character, preferring secondary paths (fallbacks, recovery code, less common
operations, second-order parameters). 40 changes; archived as `/verif/seeded/<id>-2a`, `-2b`.

| id | seeded change (one line) | status | detected by | detected as | what it took / why not |
|----|--------------------------|--------|-------------|-------------|------------------------|
'''+"\n".join(r2)+f'''

Status counts: {dict(c)}. "other property" = the change does not break the property it was
written for (under that property's quantifier) but another one, whose check reports it.
"neutralised by fix" = a repo fix made after the change was written keeps the property true
under the change. "not covered" = the change breaks the property and no check reports it; the
reason is a stated limit (§5).

What round 2 taught, beyond the individual alphabets: (1) **a known finding must not share a
signature with anything a change could break** — C04-2a was swallowed by a prefix signature;
signatures now carry the discriminator that separates the two and known findings are regular
expressions. (2) **The truth side of a differential must not run the code under test** —
C04-2b was invisible because the cache-less side rebuilt its caches on the first query and then
answered from the same fast path. (3) **Query order matters when a query repairs state** —
C05-2a needed the replay to be asked last and the append to be the first operation after a
restart; doing that exposed a genuine crash defect as well. (4) **Hook granularity is a
property of the unchanged tree, not of a change** — hence the system-call scheduler and the
blocked-actor detection. (5) **A check binary is built from the tree it last saw** — after
`try_seed.sh` the binary is a mutant; everything that is meant to judge the unchanged tree
rebuilds first (one full thorough pass was invalid for this reason and was repeated).

### 8.3 Round 3: three more changes per property

A third round asked for **three** further changes per property, with one-line summaries of the
earlier rounds' changes so that nothing was repeated (a different function or a different
failure mode was required); first for the eight properties with the widest quantifiers (C01,
C04, C05, C07, C08, C09, C11, C16), then in batches for the others as time allowed. {len(r3)}
changes so far; archived as `/verif/seeded/<id>-3a`, `-3b`, `-3c`.

| id | seeded change (one line) | status | detected by | detected as | what it took / why not |
|----|--------------------------|--------|-------------|-------------|------------------------|
'''+"\n".join(r3)+f'''

Status counts: {dict(c3)}. Roughly a third were caught by the checks as they stood, the rest
needed a strengthening and two remain not covered (stated limits, §5; a third, C18-3b, was covered in round 5) - a much lower as-built rate than in rounds 1 and 2, which is the point of asking
for changes that avoid everything tried before. None of the strengthenings refers to the change
that prompted it. What round 3 taught:
(1) **An alphabet entry can be vacuous without anyone noticing** - the scripted "connection
abort" never reached the client mid-stream, an "open run" had no reply to attach, a compile-failure
case posted to a route that does not exist (404), a sweep asked the gate under test whether a
request was valid. Each now has a counter that must be non-zero (mid-stream aborts observed, jobs
that ended failed, runs refused by the gate) or a machinery failure when the setup request is not
accepted. (2) **Failure outcomes are inputs too** - jobs that fail after their spawn, runs that
fail after producing output, tool calls that time out, requests the server refuses: five of the
misses needed one of these. (3) **What a client can address is an input** - ids of the wrong
kind, per-request overrides, the alias of a tool, a cancel that arrives while its target is
queued. (4) **Building the missing case is how the remaining genuine defects were found**: the
wrong-kind-id sweep found a second way to restart a session's numbering (fix 7779cbe), the
append-first phase found that the first append after a restart extends a stale cache member (fix
93ac88a, which also closed a known finding), and the queued-mutation histories made the
timed-out shell tool reportable (fix 3b04891; until then recorded as a limit of the check).

### 8.4 Round 4: a further round for four properties

With the time that was left, C05, C07, C08 and C11 got a fourth round (three changes each, the
summaries of all earlier changes attached; one agent delivered two). {len(r4)} changes; archived as
`/verif/seeded/<id>-4a`, `-4b`, `-4c`.

| id | seeded change (one line) | status | detected by | detected as | what it took / why not |
|----|--------------------------|--------|-------------|-------------|------------------------|
'''+"\n".join(r4)+f'''

Status counts: {dict(c4)}. Five of eleven were caught as built - three of them by parts that
round 3 had added (job cases with a blocked artifact store, timed-out-holder histories, the
wrong-kind-id sweep), which is the first sign of the strengthenings generalising. One is not
covered (C05-4a: it needs three concurrent writers at a crash point).

### 8.5 Round 5: two more changes for sixteen properties (a new session, two days later)

Round 5 asked sixteen fresh sub-agents (C01-C06, C09, C10, C12-C19; C07, C08 and C11 had had four
rounds, C20's remaining gap is a stated limit) for **two** further changes each, with the
summaries of every earlier change for the property attached. Each worked in a scratch worktree
of its own (removed afterwards) and saw nothing from /verif. {len(r5)} changes; archived as
`/verif/seeded/<id>-5a`, `-5b`. For these the demonstration runs (fails with / passes without)
and the suite runs are the authors', recorded in each meta.json; every patch was applied to
/repo and the check was run against it here.

| id | seeded change (one line) | status | detected by | detected as | what it took / why not |
|----|--------------------------|--------|-------------|-------------|------------------------|
'''+"\n".join(r5)+f'''

Status counts: {dict(c5)}: all 32 are reported now; 10 were caught by the checks as they stood
(7 of the first 16, 3 of the second 16: the second batch went to the input-enumeration checks,
whose alphabets are where a new author finds room), 22 needed a strengthening. What round 5
taught: (1) **An assumption written into a harness is a claim to be attacked** - C06's subscriber
said "polling order cannot change what is received" and polled eagerly; a change that merges
history and live frames out of order falsified exactly that sentence. The lazy reader is now
part of the exploration. (2) **State that several streams share is a collision the driver has to
force** - a second, longer thread on the shared continuity channel (C06-5a), a second emitter on
the task's counter (C01-5b), a second file in one checkpoint request (C13-5b), both summary forms
in one handoff (C10-5a), two cache members lost at once under a running authority (C04-5a). (3)
**Effects that undo themselves need an observation that remembers** - a temporary file outside
the root is gone when the call returns; the directory's modification time is not (C13-5a); a
frame in a writer's buffer is on disk at the end of the run, not at the moment its append
returned (C03-5b). (4) **Every environment answer 'error' has more than one place** - the log
append that fails before it writes was in the alphabet; the flush that fails after the frame was
handed over was not, and trying it found a genuine defect on the unchanged tree (fix 8158cda).
(5) The seam that stood in for `kill(pid, 0)` hid the code that classifies its answer
(C18-3b, now covered): **a seam belongs at the system call, not at the function that interprets
it.**

`tools/seed_regression.sh` re-applies every archived change to /repo, runs the check named in
its meta.json and reverts; its last output is `/verif/seeded/REGRESSION.md`.
'''
p='/verif/DESIGN.md'
s=open(p).read()
i=s.index("## 8. Detection results: seeded changes")
s=s[:i]+text
open(p,'w').write(s)
print("section 8 regenerated:", len(r1), "round-1 rows,", len(r2), "round-2 rows,", len(r3), "round-3 rows,", len(r4), "round-4 rows")
