#!/usr/bin/env python3
"""Copies the seeded changes from /tmp/seeded into /verif/seeded/<ID>/ with a meta.json."""
import json, os, shutil, glob, subprocess
TABLE = {
 # id: (patch file, caught?, signature class reported, note on what it took)
 "C01": ("patch_ported.diff", True, "C01:validated_replay_seq:quiescence:SideEffect+SideEffect / Message+SideEffect", "caught as built on the tree it was written against. Later repo fixes moved the code; the patch was re-applied by hand to append_tool_side_effects (git apply with an offset had silently edited the neighbouring function). On the final tree the ported change was at first MISSED: the only scheduling point between releasing the seq lock and taking the log writer lock is a lock hook, and C01's filter treated lock hooks as pass-through when the lock is free. Lock acquisitions are now scheduling points in C01 (cont.next_seq, log.writer); caught again"),
 "C02": ("patch_ported.diff", True, "C02:read_only_call_wrote:replay_events", "patch ported to the current replay_events_locked; caught only after hostile thread ids ('../events') were added to the read-only call set - the idea came from this change"),
 "C03": ("patch.diff", True, "C04:wrong_answer:replay_events:.jsonl:drop_first_line:tail=run_ended:after_fault", "caught as built by C03 on the tree it was written against (history with drop_caches followed by an append: the append re-created a partial sidecar, which the weakened validation accepted). Fix 833d7be (an append never re-creates a lost cache member) removed the only way a history can produce a sidecar that does not start at seq 0, so under this change C03 now HOLDS (neutralised for C03). A sidecar without its first line can still come from outside: the fault 'without its first line' was added to C04, which reports the change"),
 "C04": ("patch.diff", True, "C04:wrong_answer:compiled_context:.mr.v1.jsonl:garbage_same_length", "missed at first: needed a thread of >=16 messages whose last frame is not a message (so that the open-time reconciliation does not heal the garbage cache); the 18-message thread + suffixes were added to the quick tier after that, and the known-finding signatures were narrowed to the observed fault classes so they could not mask it"),
 "C05": ("patch.diff", True, "C04:wrong_answer:compiled_context:.mr.v1.jsonl:truncate_to_0:tail=run_ended:after_fault", "LATER: fix 12eecb2 (a marker brackets every cache-family update) made every crash point recover correctly under this change, so C05 now HOLDS under it (neutralised for C05); its cache-fault side is a C04 violation and C04 reports it (same patch as C04-2a / C05-2b). ORIGINALLY: second C05 change (the first one was neutralised by the repo fixes, see C05_neutralised); missed at first: the recovered-store differential did not include the compiled context; added, then caught"),
 "C06": ("patch.diff", True, "C06:lost_frame:Thread", "caught as built"),
 "C07": ("patch.diff", True, "C07:run_ended_count:compile_failure", "caught by the compile-failure case that replaces .rip/artifacts by a file (that way of forcing a compile failure came from this change's report; the unreadable-summary way of the design did not reach the branch)"),
 "C08": ("patch.diff", True, "C08:reference:message_count", "missed by the depth-bounded histories; caught after the 40 x 20 KiB thread (messages+runs sidecar larger than the first tail windows) was added, prompted by this change"),
 "C09": ("patch.diff", True, "C09:auto_created_wrong_checkpoints", "caught as built"),
 "C10": ("patch.diff", True, "C10:recorded_cut_seq:branch:from_message_id", "caught as built (overlapping turns arise from open-run / run-end ops)"),
 "C11": ("patch.diff", True, "C11:side_effect_order:WriteA+WriteB", "caught as built (1 preemption)"),
 "C12": ("patch.diff", True, "C12:atomicity:failed_patch_changed_files", "caught as built"),
 "C13": ("patch.diff", True, "C13:refused_side_effect / outside_modified (CheckpointCreate, <ROOT>/../x)", "caught as built (absolute-inside-root anchored paths with '..')"),
 "C14": ("patch.diff", True, "C14:rewind:failed_rewind_changed_workspace", "caught as built (directory replaced by a file makes the rewind fail mid-way)"),
 "C15": ("patch.diff", True, "C15:lossless:event_count / chunking", "missed at first: the stream alphabet had no bare CR inside a payload and no body ending between CR and LF; both added, then caught"),
 "C16": ("patch_ported.diff", True, "C16:answer_order", "patch ported (the sort line moved because of the duplicate-call fix); missed at first because the scripted call ids were in lexicographic = emission order; ids changed to call_9/call_10/call_11, then caught"),
 "C17": ("patch.diff", True, "C17:stored_output_differs / missing_bytes", "caught as built (all chunk compositions x preview limits)"),
 "C18": ("patch_ported.diff", True, "C18:acquire:two_authorities:HalfLockx2@syscalls", "caught as built on the tree it was written against (take-over of a zero-length lock.json inside try_acquire). Fix 2229043 rewrote try_acquire (atomic publication), so the change was ported: take over a zero-length lock when the hard link fails. The ported change has no source hook between its length check and its write, and the hook-level exploration MISSED it; it is caught since every file-system call of the primitives is a scheduling point (system-call shim)"),
 "C19": ("patch.diff", True, "C19:secret_in_frames:secret_header_value_with_newline", "the two malformed-header secret sources were added to the product because of this change's report; caught with them"),
 "C20": ("patch.diff", True, "C20:lookup:get_by_seq:wrong_frame (held seqs [0, 5, 2], get_by_seq(1))", "caught as built (out-of-order / repeated seqs are in the frame alphabet)"),
}
def main():
    for pid,(patch,caught,sig,note) in TABLE.items():
        src=f"/tmp/seeded/{pid}"
        if not os.path.isdir(src): continue
        dst=f"/verif/seeded/{pid}"
        os.makedirs(dst,exist_ok=True)
        for f in glob.glob(src+"/*"):
            if os.path.isfile(f) and os.path.getsize(f) < 400_000:
                shutil.copy(f,dst)
        if patch!="patch.diff" and os.path.exists(f"{src}/{patch}"):
            shutil.copy(f"{src}/patch.diff", f"{dst}/patch_original.diff")
            shutil.copy(f"{src}/{patch}", f"{dst}/patch.diff")
        try: agent_meta=json.load(open(f"{src}/meta.json"))
        except Exception: agent_meta={}
        confirm=None
        if os.path.exists(f"/tmp/confirm_{pid}.result"):
            confirm=open(f"/tmp/confirm_{pid}.result").read().strip()
        meta={"property":pid,
              "summary":agent_meta.get("summary"),
              "needs_to_manifest":agent_meta.get("needs_to_manifest"),
              "files_changed":agent_meta.get("files_changed"),
              "author":"independent sub-agent working in its own scratch worktree, given only the property text",
              "confirmed_by_me":confirm or "see /verif/seeded/CONFIRM.md (re-confirmation against the final tree)",
              "what_i_ran":[f"tools/confirm_seed.sh {pid} ... (scratch worktree /tmp/wt/confirm: demo without the change passes, with it fails, pinned suite passes)",
                            f"tools/try_seed.sh /verif/seeded/{pid}/patch.diff {pid} quick (git apply in /repo, ./vcheck {pid} --tier quick, git checkout)"],
              "detected":caught,
              "detected_by": {"C03":"C04","C05":"C04"}.get(pid, pid),
              "status": {"C03":"other_property","C05":"other_property"}.get(pid, "caught_as_built" if note.startswith("caught as built") and "MISSED" not in note else "caught_after_strengthening"),
              "detected_as":sig,
              "note":note}
        json.dump(meta,open(f"{dst}/meta.json","w"),indent=1)
    # neutralised first C05 change
    if os.path.isdir("/tmp/seeded/C05_neutralised"):
        dst="/verif/seeded/C05_neutralised"; os.makedirs(dst,exist_ok=True)
        for f in glob.glob("/tmp/seeded/C05_neutralised/*"):
            if os.path.isfile(f): shutil.copy(f,dst)
        json.dump({"property":"C05","note":"first C05 change (reverse sidecar scan skips a trailing frame without newline). It broke the property on the tree it was written against (restart numbering from the sidecar tail); the repo fixes 'number from the truth log' and 'reconcile caches at open' made the system robust against it: its own demonstration passes with the change applied on the final tree, so it is not a valid breaking change any more and is kept for the record only","detected":False},open(dst+"/meta.json","w"),indent=1)
main()
