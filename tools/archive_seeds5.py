#!/usr/bin/env python3
"""Round 5: copies /tmp/seeded5/<ID>/{a,b} into /verif/seeded/<ID>-5a, -5b with a meta.json."""
import json, os, shutil, glob
AB = "caught_as_built"; AS = "caught_after_strengthening"
T = {
 ("C01","a"): (AS,"C01","C01:validated_replay_seq:after_failed_append:ckpt0:first_append_after_restart","missed: needs the log append of a thread's FIRST append after a restart to fail, then another append. C01 had no I/O error in its alphabet (C03 and C06 had). Added: 1 296 histories in which the k-th log append inside one op fails (12 writer ops x warm / first append after a restart / after a restart without caches x k = 0..2, the op once or twice, then a message): every stream must still read 0..n-1 and validated replay must pass, again after a restart and one more append. A second failure point (the flush, with the frame already handed to the writer) exposed a genuine defect of the unchanged tree (fix 8158cda)"),
 ("C01","b"): (AS,"C01, C06","C01:validated_replay_seq:quiescence:TaskEmitters ; C06:order_or_identity:TaskTwoEmitters","same mechanism as C06-2a (the task counter's lock released before the frame is published and logged), written independently for C01. C06 reported it as built; C01 MISSED it: its exploration had no task with several emitters. Added to C01: two (thorough: three) emitters of one task beside a thread append, all interleavings at the task's publish / buffer / counter hooks and the log writer's, <= 2 [3] preemptions (3 066 executions): the task stream must read 0..n-1 in the log's file order"),
 ("C02","a"): (AB,"C02","C02:restart_changed_log",""),
 ("C02","b"): (AS,"C02","C02:restart_changed_log:torn_tail","missed: needs a log that ends with a partial line (a write cut short) and then a reopen; every history of C02 left a newline-terminated log. Added as a probe at the end of every history: a partial line is appended to the log from outside, then restart + the read-only call set: every byte must stay where it is"),
 ("C04","a"): (AS,"C04","C04:pair_only:compaction_cut_points_v1:.comp.v1.jsonl+.jsonl:delete+truncate_to_0:tail=message:warm_fault","missed: needs TWO cache members lost at once UNDER A RUNNING authority (pairs of faults were applied at rest only, where the open-time recovery drops the family) on a thread that holds a checkpoint. Added: pairs {delete, empty}^2 over every pair of files under a warm authority, with attribution to the single faults, and two short histories with a checkpoint get the pair phases in the quick tier. On the unchanged tree the new phase found 26 pair-only wrong answers, all with an EMPTIED checkpoint sidecar: recorded as KF-C04-C1wp (same root cause as KF-C04-C1w)"),
 ("C04","b"): (AS,"C04","C04:wrong_answer:compiled_context:none:none:tail=message:restarted_authority","missed: needs the 16 newest messages to occupy more than 8 MiB of the messages+runs sidecar; the 3 MiB macro messages had been dropped after fix d96b6cb. Added: a thread of 18 x 600 KiB messages (no-fault differential only: warm and restarted authority against the cache-less truth)"),
 ("C06","a"): (AS,"C06","C06:lost_frame:ThreadBesideAnother","missed: every thread-stream kind had ONE thread; the continuity channel is shared by all threads. Added: a subscriber of thread A while the producer appends to another, longer thread B (higher seqs) and then to A; all interleavings with one subscriber (2 380 executions)"),
 ("C06","b"): (AS,"C06","C06:order_or_identity:TaskLazyReader","missed: the subscriber polled its body until Pending right after the attach, so the history was always consumed before a live frame was pending (the harness said 'polling order cannot change what is received' - which is what this change falsifies). Added for session, task and thread streams: a client that reads NOTHING between the attach and the end of production, then drains: history non-empty and live frames pending at the first poll; all interleavings"),
 ("C09","a"): (AB,"C09","C09:race:caches_left_inconsistent / C09:reference:message_count",""),
 ("C09","b"): (AB,"C09","C09:auto_created_wrong_checkpoints",""),
 ("C10","a"): (AS,"C10","C10:handoff_summary_unresolvable:TextAndMissingArtifact","missed: no handoff gave BOTH summary forms. Added: text + an existing artifact id, text + an id that resolves to nothing (may be refused; if accepted, what the handoff records must resolve)"),
 ("C10","b"): (AB,"C10","C10:accepted_invalid_selector:handoff:both / C10:recorded_cut_seq",""),
 ("C17","a"): (AS,"C17","C17:task_stored_output:stderr","missed: only the stdout log of a task was compared with what the command wrote. The stderr log is now judged the same way, and two commands write more to EACH stream than the preview limit (with and without an artifact cap)"),
 ("C17","b"): (AB,"C17","C17:paging_not_exact",""),
 ("C18","a"): (AB,"C18","C18:via_corrupt_cleanup:two_authorities:*",""),
 ("C18","b"): (AB,"C18","C18:acquire:live_meta_taken:Releasingx2@syscalls","(seen at system-call granularity: the releasing holder's second unlink lands after the successor's meta write)"),
 ("C03","a"): (AS,"C03","C03:append_refused:<frame type>","missed: the largest payload of part a was 70 KiB. Added: per frame type one frame per string field with a 1.5 MB value (a message or an input just under the HTTP body limit): the log must accept it and read it back"),
 ("C03","b"): (AS,"C03","C03:log_replay_differs:tool_stdout / C03:appended_frame_not_on_disk","missed: part a appended all shapes of a type and replayed once at the end, and its last shape (70 KiB) pushed everything out of any buffer. Now after EVERY append the file must have grown by exactly the one line of that frame"),
 ("C05","a"): (AB,"C05","C05:recovered_cache_not_transparent:replay_events:before[open(create) <id>.dirty]:in_flight=msg70k","(the 70 KiB in-flight frames added in round 2)"),
 ("C05","b"): (AS,"C05","C05:acknowledged_thread_not_listed_after_crash:before[write index.json]","missed: the recovery oracle judged the thread index only through ensure_default being USABLE. Added: every thread an acknowledged operation created is still listed after the restart, and the acknowledged default thread is still the default"),
 ("C12","a"): (AS,"C12","C12:exact:reference_succeeds_real_fails","missed: no hunk line's own text started with dashes or pluses. Added: hunks that remove a `-- c` line / insert a `++ d` line (patch lines `--- c`, `+++ d`) and a file that starts with such a line"),
 ("C12","b"): (AB,"C12","C12:atomicity:failed_patch_changed_files",""),
 ("C13","a"): (AS,"C13","C13:outside_modified:WriteAtomic","missed: the file next to the root exists only DURING the call; the tree comparison saw nothing. The observation of the tree outside the root now includes the modification time of every directory (an entry created and removed again changes it)"),
 ("C13","b"): (AS,"C13","C13:refused_side_effect:checkpoint_store:CheckpointCreateSecondFile","missed: checkpoint requests named one path. Added as a 15th argument: a request of two files, an existing workspace file first, the path under test second"),
 ("C14","a"): (AB,"C14","C14:auto_checkpoint:missing:write","(process cwd != root is one of the two cwd modes)"),
 ("C14","b"): (AS,"C14","C14:auto_checkpoint:does_not_cover_change:write","missed: no file name had a blank at either end. Added to the unusual-name pass for write and manual checkpoints (the patch format trims its paths)"),
 ("C15","a"): (AS,"C15","C15:chunking:frames_differ","missed: no payload held U+FEFF. Added as a block (inside a text delta)"),
 ("C15","b"): (AS,"C15","C15:lossless:invalid_json_payload","missed: no data line ended in blanks. Added: a two-line non-JSON payload with trailing blanks / a tab, and `[DONE]` followed by a blank (the two-cut enumeration is now bounded by stream length to pay for the larger alphabet)"),
 ("C16","a"): (AS,"C16","C16:executed_call_not_answered_once","missed: every scripted response carried a response id. Added: 16 runs whose first response has 1 or 2 completed calls and no id (both history modes x 4 tool choices): a call that was executed must have been answered"),
 ("C16","b"): (AS,"C16","C16:barred_call_not_denied / C16:barred_tool_executed","missed: the empty allowed-tools list fails the schema and never reaches the loop. Added: an allowed-tools list that names hosted tools only (schema-valid, no function allowed)"),
 ("C19","a"): (AS,"C19","C19:secret_in_doctor:misshaped_provider_entry_is_the_key","missed: the broken configuration layers were syntax errors. Added: two layers that parse but do not have the documented shape, the secret at the mis-typed spot"),
 ("C19","b"): (AS,"C19","C19:secret_in_cli_output:authority_unreachable:*","missed: only the server side and the harness worker's output were searched. Added: five runs of the real `rip` binary that can only fail (authority never reachable: live lock holder without meta, 8 s deadline; server refuses the connection) with the key in the environment: the key must not be in what it prints"),
}
def main():
    for (pid,var),(status,by,sig,note) in T.items():
        src=f"/tmp/seeded5/{pid}/{var}"
        if not os.path.isdir(src): continue
        dst=f"/verif/seeded/{pid}-5{var}"
        os.makedirs(dst,exist_ok=True)
        for f in glob.glob(src+"/*"):
            if os.path.isfile(f) and os.path.getsize(f) < 400_000: shutil.copy(f,dst)
        try: am=json.load(open(f"{src}/meta.json"))
        except Exception: am={}
        meta={"property":pid,"round":5,"summary":am.get("summary"),"mechanism_attacked":am.get("mechanism_attacked"),
              "needs_to_manifest":am.get("needs_to_manifest"),"files_changed":am.get("files_changed"),
              "author":"independent sub-agent in its own scratch worktree of /repo at 44d5b76 (under /tmp/wt, removed afterwards), given only the property text (statement, quantifier, anchors) and the one-line summaries the earlier rounds' authors wrote (to avoid repeats) - nothing from /verif",
              "agent_suite_result":am.get("suite_result"),"agent_demo_with_patch":am.get("demo_with_patch"),"agent_demo_without_patch":am.get("demo_without_patch"),
              "patch_to_apply":"patch.diff",
              "what_i_ran":f"the patch was applied to /repo (git apply), ./vcheck <check> --tier quick was run against it and it was undone (tools/try_seed.sh); the demonstration and the suite with the patch are the author's runs as recorded above (outputs archived beside this file where the author saved them); tools/seed_regression.sh re-applies every archived change",
              "status":status,"detected_by":by,"detected_as":sig,"note":note}
        json.dump(meta,open(f"{dst}/meta.json","w"),indent=1)
main()
