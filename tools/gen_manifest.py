#!/usr/bin/env python3
"""Generates /verif/MANIFEST.json from the table below (single source of truth)."""
import json, subprocess, os

HOOK_COMMITS = subprocess.run(
    ["git", "-C", "/repo", "log", "--format=%h %s", "--grep=^verif hooks"],
    capture_output=True, text=True).stdout.strip().splitlines()

CHECKS = {
    # id: (engine, category, technique, text, note, design_ref)
    "C01": ("S", "model_checking",
            "stateless schedule exploration (token-passing scheduler over OS threads, DFS with preemption bounding) of pairs/triples of real writer operations on a shared store; plus bounded exhaustive enumeration of provider tool-loop scripts for the sequential numbering clause",
            "Every unordered pair of 13 real writer/reader operations (message, run spawned/ended, side effects, cursor set/rotate, selection decided, manual/auto/scheduled compaction, branch, handoff, reader replay) on one shared thread, from four pre-states (warm; restarted; restarted without caches; restarted with caches that lag the last logged frame while the log ends with another thread), plus sessions and linked runs sharing the log writer, is explored over all interleavings at publish / cache / log-effect hooks AND at the acquisitions of the seq lock and the log writer lock with <=1 (quick) / <=2-3 (thorough, plus triples) preemptions; at quiescence a fresh EventLog must pass validated replay, every stream must read 0..n-1 in file order, every acknowledged id must appear once, and the same after a restart plus one more append per thread. Sequential part: every provider script with <=1 function call x 7 tool_choice settings x 2 history modes through the production router; every stream of the log must read 0..n-1; and every way of starting runs on one session through POST /sessions/{id}/input (once, twice back to back, twice / three times after the previous run ended): whatever the server answers, the session stream must read 0..n-1.",
            "2-3 actors, one op each; scheduling granularity = hook points incl. lock acquisitions (critical sections are the real ones: predicates read the real locks); a race added between two steps without a hook in between is not seen; preemption bound; histories crossing several restarts are covered by C05/C04.",
            "DESIGN.md §3 C01"),
    "C02": ("H-histories", "exploration",
            "bounded exhaustive enumeration of write histories on the real store; byte-prefix / whole-line oracle after every step; the read-only call set over its parameter domain in every reached state; a second writer handle",
            "Every history of <=3 (quick) / <=4 (thorough) ops over a 17-op alphabet (incl. refused checkpoints, a summarizer job left in flight, drop caches, restart) is executed; after every step the previous log bytes must be a prefix of the new ones and the suffix whole newline-terminated JSON frames with the envelope keys, every other changed file must be a cache / snapshot / workspace .rip file; in every reached state ~170 read-only, dry-run (x block_on_inflight x execute), nothing-plannable, stride-0 and unknown/hostile-thread-id calls (store API and GET routes incl. the three SSE handlers and /config/doctor) must add zero bytes, again with caches dropped and after restart; every history ends with one frame through a writer handle opened before it and one by the engine, both of which must land at the end.",
            "Depth bound; the SSE bodies are not polled (attach only); frames logged by failing operations are not judged; task/session write paths are covered by C01/C07.",
            "DESIGN.md §3 C02"),
    "C03": ("H-histories", "exploration",
            "bounded exhaustive enumeration of frame shapes (38 variants x field domains) through the real serde/EventLog/snapshot paths, and of histories with subscribers attached first (live == log == sidecar == store replay == snapshot)",
            "Part a: for each of the 38 frame types the product of per-field value domains (full product when <= 20 000 shapes, otherwise every field against three backgrounds plus all field pairs at extremes) is written and read back through serde, the real EventLog and a snapshot; no field may be lost or altered and the stream assignment must be stable. Part b: every history of <=3 (quick) / <=4 (thorough) ops over 14 ops (incl. tool and checkpoint envelope runs, drop caches, restart) runs with a continuity subscriber and per-run session subscribers attached first; per stream the frames received live, the log, the store replay, the sidecar file content and the session snapshot must be the same JSON frames in order.",
            "Value domains are representatives; absent/null/empty encodings of optional fields are treated as equal; the raw sidecar file may be a contiguous partial run before its lazy rebuild (completeness judged through replay_events); task streams are covered by C17/C06.",
            "DESIGN.md §3 C03"),
    "C04": ("H-histories", "fault_enumeration",
            "bounded exhaustive enumeration of histories x single cache faults x read capabilities with a differential oracle against a cache-less truth side on fresh authorities and a watchdog for termination; plus stateless schedule exploration at system-call granularity of one reader racing one appender",
            "For every history of <=3 (quick) / <=4 (thorough) ops (incl. frames on a second thread, so that the log ends with a foreign frame) plus window-crossing threads (600 / 10 001 dense frames, 300 KiB and 3x3 MiB messages, 18 messages, 40 x 20 KiB messages) every single fault {delete, truncate to 0 / 1 byte / mid-record / last line boundary / half, equal-length garbage, roll-back to the content after each earlier op} is applied to every cache file of the thread; a fresh authority must then answer replay (asked last), cut points, compaction status, cursor status, selection status and the compiled context for every message anchor exactly like a fresh authority on a copy whose cache directory is removed before EVERY query, again after one more append, and validated replay must still hold; every step runs under a 25 s watchdog. System-call part: each read capability racing one append (message, run ended, side effect, checkpoint, cursor) on a warm and on a cache-less store, every file-system call a scheduling point, <=1 (thorough: 76 configurations, one at <=2) preemptions: the answer must be that of one of the two sequential orders and the caches left behind must be transparent.",
            "Single faults only (pairs are not enumerated); histories bounded; faults are applied while no authority is running, except for the cache-less warm store of the race part; five known-finding classes, recorded as regular expressions over signatures that carry the kind of the thread's last frame (what the open-time recovery can see).",
            "DESIGN.md §3 C04"),
    "C05": ("K", "fault_enumeration",
            "exhaustive crash-point enumeration: an LD_PRELOAD shim kills the real process before every mutating file-system call of every bounded history; recovery oracle on the leftover directory",
            "Every history of <=2 (quick) / <=3 (all 11 ops) and 4 (5 cheapest ops) operations after open+ensure_default, plus a 70 KiB message before and after every op, runs in a subprocess under the shim once per mutating syscall on a store path (6.6k crash points quick / ~110k thorough); after each kill a fresh authority must replay and validate the log, find every acknowledged frame exactly once, find every referenced artifact, answer every read capability and the compiled context as with the caches removed (both query orders, each on its own copy), continue the numbering with one append per thread as its FIRST operation, answer everything again as without caches after that append, and resolve the default thread.",
            "Crash model = process death at syscall boundaries with atomic write(2) (no power loss / write-back reordering: rip never fsyncs); the shim interposes libc's open*/creat/write/writev/pwrite*/rename*/unlink*/mkdir*/rmdir/ftruncate*/link*/symlink; one authority, single-threaded history.",
            "DESIGN.md §3 C05"),
    "C06": ("S", "model_checking",
            "stateless schedule exploration (CHESS-style token-passing scheduler over OS threads, DFS over choice sequences) of the real emitters racing the real SSE handlers through the production router",
            "For the session, task and thread streams (thread with the sidecar present and deleted) every interleaving of the producer's lock/publish/record steps with one subscriber's subscribe / snapshot steps is executed with no preemption bound (two subscribers: preemption bound 2 in quick for sessions, all kinds in thorough; two emitters of one task + one subscriber: bound 2 / 3; a session and a task whose second log append fails (fault-injection seam), with a subscriber attached before production and a late one that must receive the same frames); each execution runs the real run_session / TaskEmitter::emit / append_message against the real GET .../events handler, and the frames the subscriber's body yields must be exactly the stream's frames in the log, once, in seq order.",
            "Scheduling granularity = hook points; body polling order is not explored (the broadcast receiver buffers everything after subscribe; lag beyond the 16384-frame capacity is outside the quantifier); 3-4 frames per stream; replay determinism is asserted; the only I/O error injected is a failing log append.",
            "DESIGN.md §3 C06"),
    "C07": ("P", "exploration",
            "bounded exhaustive enumeration of provider scripts x input kinds x parallel-run pairs through the production router against an in-process scripted provider; lifecycle grammar evaluated on the log; plus stateless schedule exploration of the posting handler and the run it spawns (spawn seam) as two actors",
            "First responses = every sequence of <=2 (quick) / <=3 (thorough) events from a 7-event alphabet (text, completed, calls to write / unknown tool / invalid args, malformed JSON, schema-invalid) x {[DONE], close, abort}, cuts inside the last event, HTTP errors with short and adversarial bodies (empty, 70 KiB, multi-byte text shifted by 0..3 bytes), empty body; 6 follow-up responses after calls; both history modes; 9 input kinds (prompt, tool and checkpoint envelopes incl. failing, timing-out, unknown, refused) with and without provider; two context-compile failures; 6 pairs of parallel runs. Every run goes through POST /threads/{id}/messages; afterwards each message must have exactly one run_spawned, each run exactly one run_ended after its single terminal session frame, selection < compiled < side effects / cursor < ended, sessions start at seq 0 and end once, jobs end at most once, and validated replay must hold. Schedule part: POST /threads/{id}/messages for 4 inputs (tool write / failing read / checkpoint envelopes, prompt without provider) with the spawned session task run as a second actor; all interleavings with <=2 (quick) / <=3 (thorough) preemptions; the grammar must hold and run_spawned must precede every frame of its run on the thread stream.",
            "Script alphabet and length bounds; real runtime scheduling inside a run is not controlled (the oracle is schedule-independent); provider-gated enumeration of exchange orders for parallel runs is not built (pairs run freely).",
            "DESIGN.md §3 C07"),
    "C08": ("H-histories", "exploration",
            "bounded exhaustive enumeration of thread histories x every message anchor through the real compile entry; path differential (cache variants, later appends) + reference of the documented contract; plus stateless schedule exploration at system-call granularity of a compile racing one append",
            "Every history of <=4 (quick) / <=5 (thorough) ops over {message, answered run, open run, run_ended for the oldest open run, side effects, cursor, checkpoints at last/first message} and macro threads crossing the 16-message limit and the tail windows (15/16/17/18/33 messages, 17 answered runs, 20 messages with three checkpoints, 40 x 20 KiB, thorough 18 x 600 KiB) is compiled for every message as anchor on the warm store, a restarted store, a store without the messages+runs cache family and a store without caches; from_seq, strategy, selected checkpoints and the user/assistant dialogue must agree across the four and equal the reference contract, and must not change when frames are appended after the cut. System-call part: a compile racing one append (message, run ended, side effect, checkpoint at the last message, cursor) on a warm store, a cache-less store and an 18-message thread with a checkpoint, every file-system call a scheduling point, <=1 preemption (thorough: 37 configurations, two at <=2): the bundle must be that of one of the two sequential orders.",
            "Depth bound; replies come from stub runs ('ack: ...'); a checkpoint with to_seq <= the cut that lands during a compile is not judged (eligibility is by to_seq on the stream at selection time, ADR-0011); stale caches are C04's subject.",
            "DESIGN.md §3 C08"),
    "C09": ("H-histories", "exploration",
            "bounded exhaustive enumeration of thread histories x compaction commands x parameter domains on the real store against a reference planner evaluated on log replay; plus stateless schedule exploration at system-call granularity of an auto compaction racing one append",
            "Every history of <=4 (quick) / <=5 (thorough) ops over {message, answered run, side effects, manual checkpoints at last/first message and by stride, auto, schedule variants, inflight job} plus 25 histories with overlapping jobs (the spawn half and the run half of an auto job as separate ops, two or three jobs for one cut point in every order); in the reached state cut points for 7 strides x 6 limits must equal the reference planner (warm store and a copy without caches); auto(stride,max_new) on copies must create exactly the planned checkpoints inside one job_spawned/job_ended bracket with readable summaries of matching coverage, identical text on a byte-identical twin store (modulo ids minted by the run), and a repeat with nothing to do must be a zero-byte noop; the summaries that auto jobs render for one cut point must be equal modulo the producing job's id; schedule decisions (noop / dry_run / skipped_inflight / scheduled / completed) must match the reference. System-call part: an auto compaction racing one append (thorough: 4 writers x 3 pre-states), every file-system call a scheduling point, <=1 preemption: the plan and the created checkpoints must be those of one sequential order; validated replay and cache transparency afterwards.",
            "Depth and parameter bounds; the concurrent schedule/auto sub-check of the design is covered only by C01's pair exploration (AutoCompaction/ScheduleCompaction pairs: numbering, not bracket integrity); summary text compared modulo 64-hex ids minted by the run.",
            "DESIGN.md §3 C09"),
    "C10": ("H-histories", "exploration",
            "bounded exhaustive enumeration of parent histories x every selector choice for branch and handoff on the real store (and status codes through the router) against a reference cut; plus stateless schedule exploration at system-call granularity of a branch / handoff racing one append on the parent",
            "Every parent history of <=4 (quick) / <=5 (thorough) ops over {message, answered run, open run, run_ended for the oldest open run, side effects, checkpoint} (so overlapping turns arise) x every selector {none, every from_seq in 0..head, head+1, u64::MAX, every message id, a non-message frame id, unknown uuid, non-uuid, both} x {branch, handoff with summary text / existing artifact / missing artifact / neither}: the parent's log lines must be byte-identical, a success must yield a child that is exactly [created, lineage] at seq 0,1 (next append gets 2) recording the reference cut within the parent and a resolvable summary, a refusal must add no thread and no bytes. System-call part: a branch / handoff with no selector racing one append on the parent, every file-system call a scheduling point, <=1 preemption (thorough: all writers, warm and cache-less, plus <=2): the recorded cut (seq and the message it names) must be that of one state of the parent.",
            "Depth bound; selectors over one parent thread; the router is exercised for status codes only.",
            "DESIGN.md §3 C10"),
    "C11": ("S", "model_checking",
            "stateless schedule exploration (engine S) of pairs of real run_session futures sharing the production workspace lock; oracle on the recorded span trace and the log",
            "Every unordered pair (thorough: plus two triples) of {write a, write b, apply_patch, checkpoint create, write with timeout_ms 0 (ends in tool_failed), read, ls} envelopes runs as real run_session futures linked to one thread on one SessionEngine; all interleavings at workspace-lock / tool-semaphore / guard and handler span / seq-lock / publish hooks with <=1 (quick) / <=2 (thorough) preemptions; at no step may two workspace guards or two mutators (mutating tool handlers, checkpoint create / rewind actions) be open, every mutator must lie inside a guard span of its own run, read-only tools must be able to overlap (vacuity guard), each mutating tool call - also one that ends in tool_failed - must have exactly one side-effects frame before its run_ended, and the side-effect frames across runs must be in the order the guards were acquired.",
            "Tasks (child processes) and the agent-loop tool path are not in this exploration; affected_paths content is not compared; a tool timeout is an input not a schedule: a timed-out tool keeps running after tool_failed (documented limitation, reproduced in round 0, not judged here).",
            "DESIGN.md §3 C11"),
    "C12": ("H-inputs", "exploration",
            "bounded exhaustive input enumeration (patch documents x workspace states) against a reference map model, real apply_patch on a real directory",
            "Every patch of <=2 ops (<=3 on a reduced set in thorough) over a 5-path (one with a regular file as parent) / 12-hunk-list alphabet plus 16 malformed envelopes is applied by the real Workspace::apply_patch (and the apply_patch tool) to every enumerated workspace state; success must equal the reference map and name exactly the touched files, failure must leave every byte unchanged.",
            "Values outside the alphabet (other line contents, >3 ops, symlinks, permission errors) are not covered; hunk-matching rules of the reference restate the code's documented behaviour (first match at/after cursor); mixed-EOL files compared modulo CR; left-over empty directories are information only.",
            "DESIGN.md §3 C12"),
    "C13": ("H-inputs", "exploration",
            "bounded exhaustive enumeration of a path-string grammar in every path-taking argument of the real tools/router, cwd = root and != root (subprocesses), sentinel tree + canary oracle",
            "Every string of the path grammar (1-2/1-3 segments from {a,d,..,.,'',unicode,300 chars} x trailing slash x absolute-outside / absolute-inside anchors x backslash joins, plus deeper escapes, plus every absolute or '..' string with a leading / trailing space) is supplied as each of 14 path-taking arguments through the real ToolRunner with the production checkpoint hook and through POST /tasks; the tree outside the root must stay byte-identical, a canary outside must never surface in outputs or under .rip, paths that are absolute or contain '..' must be refused and leave no effect (checkpoint store included).",
            "Lexical resolvers are assumed (no symlinks in the workspace); absolute test paths are anchored inside the scratch area; checkpoint creation may accept absolute paths inside the root; log artifacts of a refused task are bookkeeping, not side effects; PTY tasks excluded (no PTY in the sandbox).",
            "DESIGN.md §3 C13"),
    "C14": ("H-histories", "exploration",
            "bounded exhaustive enumeration of checkpoint/edit/rewind histories on the real ToolRunner + production checkpoint hook, cwd = root and != root (subprocesses), reference checkpoint map",
            "Every history of <=5 (quick) / <=6 (thorough) ops ending in a rewind over {manual checkpoints of path subsets given relative or absolute, write tool, apply_patch add/update/move/delete, four multi-op patches (in histories of <= depth-2 ops), external delete, directory at a file path, file at a directory path, rewind to first/second/last checkpoint} is executed on real directories; a successful rewind must restore exactly the observed pre-checkpoint bytes (absent files absent), touch nothing uncovered, a failing rewind must change nothing, and every write/apply_patch must be preceded by an automatic checkpoint covering everything it changed.",
            "Three paths, four contents, bounded depth; reference record is the harness's own observation of the directory before each checkpoint; no symlinks or permission faults.",
            "DESIGN.md §3 C14"),
    "C15": ("H-inputs", "exploration",
            "bounded exhaustive enumeration of SSE byte streams x all chunk partitions through the real decode pipe; differential (single chunk vs partition) + reference SSE parser",
            "Every stream of <=2/3 blocks from a 14-block alphabet x {LF,CRLF} x {complete, missing final blank line, missing final EOL} is delivered through the real push_bytes -> SseDecoder -> EventFrameMapper -> sink pipe in all 2^(n-1) partitions (<=14/17 bytes) or all 1-splits, 2-splits and byte-at-a-time; frames, seqs, terminal flag and collected tool calls must equal the single-chunk delivery, which must equal a reference SSE parser on the lossily decoded body.",
            "Block alphabet and length bounds; CR-only line endings and BOM not covered; 3+-way splits of long streams not covered; the exported driver restates the receive loop body (bound to the real HTTP loop by the engine-P checks).",
            "DESIGN.md §3 C15"),
    "C16": ("P", "exploration",
            "bounded exhaustive enumeration of function-call scripts x tool_choice settings x history modes through the production router against the scripted provider; judged on the requests the provider received, file effects and the log",
            "Every set of 0..2 (quick) / 0..3 (thorough) items from {write A, write B (append), read, unknown tool, invalid args} x 4 argument-delivery variants x output_index {in order, reversed, missing} x duplicates {none, repeated done, shared call id, a call id coming back on a non-adjacent third item} x {[DONE], none} x item ids {present, missing} x 7 tool_choice settings (3 for two-item scripts in quick) x both history modes, plus an endless-call script under tool_choice {auto, none, function(read)}: request k+1 must answer exactly the completed call ids once each in output order, each permitted call must run exactly once (append markers), a barred tool must leave only the denial pair and no file effect, <= 32 calls per run whether executed or refused, every stream of the log numbered 0..n-1, every received request must be a valid streaming payload, invalid configurations must send nothing, and stateless inputs must extend.",
            "Script alphabet bounds; for two items sharing one call id only 'at most one execution / one answer for that id' is judged (which item survives is undefined); exact argument bytes are checked only through the markers and the superseded-delta probe.",
            "DESIGN.md §3 C16"),
    "C17": ("H-inputs", "exploration",
            "bounded exhaustive enumeration of outputs x ALL chunk compositions x preview limits x caps through the real foreground capture loop with a scripted reader; every (offset, max_bytes) page; pipe-mode tasks x cancel moments through the production router",
            "Part 1: every output of <=3 (quick) / <=4 (thorough) symbols from {a, LF, 2-byte, 4-byte, 0xFF} in all 2^(n-1) chunk compositions x 7 preview limits x 5 artifact caps, plus 7 large outputs around the 8 KiB read size x 8 preview limits x 5 caps: stored bytes must be the byte prefix up to the cap, the artifact must be named by the sha256 of its bytes, bytes/truncated/total exact, preview a prefix within its limit. Part 2: 6 blobs x every (offset, max_bytes) and sequential pages of 1..6 bytes through artifact_fetch. Part 3: 15 pipe-mode task commands (incl. preview limits 0, 1, 2 with multi-byte output) x 3-5 cancel moments through POST /tasks: spawn first, running at most once, exactly one terminal status last, cancel request before cancellation, 0..n-1 numbering, byte-exact stored stdout, consecutive delta ranges.",
            "PTY tasks excluded (no PTY in this sandbox); task cancel moments are wall-clock points (judged by the schedule-independent lifecycle grammar only), the cancel-at-every-hook-point gating of the design is not built; the task pump is exercised through real processes, not a scripted reader.",
            "DESIGN.md §3 C17"),
    "C18": ("S", "model_checking",
            "stateless schedule exploration (engine S) of servers and clients running the recovery protocols over the real authority-lock primitives from every leftover state, at source-hook granularity and with every file-system call as a scheduling and crash point (LD_PRELOAD shim callback)",
            "Servers (recovery loop) and clients (attach / stale + corrupt cleanup / spawn loop) over the real primitives try_acquire, read meta / lock record, pid_liveness, stale cleanup, corrupt cleanup, write_meta, guard drop (per-actor pid, liveness and reachability through cfg(rip_verif) seams; time = retry sleeps): 2 (thorough: also 3) servers x 7 leftovers of a dead owner {no files, lock, lock+meta, meta only, empty lock, torn lock, torn lock + dead meta}; a live holder (reachable / hung) + 2 servers; a holder shutting down + 2 servers; a server that dies before the effect after each of its hooks + 2 servers; 2 clients or 1 client + 1 server (thorough: 2 + 1) on each leftover; all interleavings at the hooks inside the primitives with <=2 (quick) / <=3 (thorough) preemptions; then the server scenarios again with every file-system call of the primitives as scheduling point and crash point, <=1 / <=2 preemptions. Role intervals [acquired, released-or-died) must never overlap, the live holder's lock.json and meta.json must name it, a client may only attach to the holder, contenders on a dead owner's leftovers must end with a holder, and after every execution a fresh sequential contender must recover the store or defer to the live holder without touching its files.",
            "The server's private async recovery loop and rip-cli's client loop are restated branch by branch in the harness (a change to the loops themselves is not seen); pid reuse and clock skew are outside the model; two known findings (stale / corrupt cleanup: re-validate then rename), whose signature requires another actor's successful acquisition inside that window.",
            "DESIGN.md §3 C18"),
    "C19": ("P", "exploration",
            "full product of secret-supply configurations x run outcomes, one subprocess with a cleared environment per configuration, through the production router against the scripted provider; canary search over every persisted byte, response and process output",
            "15 secret sources (three configuration layers whose line with the inline key does not parse; three env variables incl. the endpoint-substring selected ones, inline api_key in the global / RIP_CONFIG / project / parent-project layer, {env: NAME} indirection, secret header, header + key, malformed header value / name) x 5 outcomes (success with a tool call, HTTP 401 echoing the request body, transport error, HTTP 500, tool failure) x request dump (thorough: on/off) x per-request overrides (thorough); the engine is built with OpenResponsesConfig::from_env() as serve does; the canary (raw, base64, percent-encoded) must be absent from every file under the data dir and workspace .rip/, /config/doctor, the session frames, error responses and stdout/stderr; the provider must have received it (vacuity guard); doctor must report presence and source.",
            "Decides the property for the enumerated configuration x outcome product only (an information-flow statement over all formatting paths cannot be closed by enumeration); SSE delivery is represented by the session's log frames.",
            "DESIGN.md §3 C19"),
    "C20": ("H-bfs", "model_checking",
            "explicit-state BFS over the real TuiState::update transition function with state dedup",
            "All states reachable within the depth bound from the initial TuiState, over a frame alphabet covering every surface-relevant kind x seq {0,1,2,5,u64::MAX} x 9 capacity settings, are enumerated by executing the real update function; no-panic, bounds, lookup exactness and fold determinism are checked in every state, render (20x8, 80x24, thorough also 200x60) on every new state up to a smaller depth. Second part: every sequence of <=1 frame of the full alphabet and of 2 frames of the core kinds (thorough: 2 of the full alphabet) is played as the session event stream to the real `rip run --server` binary (built by ./vcheck C20) in the views raw / output / metrics (metrics under 3 timestamp patterns), each case twice: normal exit, no panic, identical output, raw view = the frames sent up to the first session end.",
            "Bounded depth (3 full / 5 on the reduced core in thorough); alphabet values are representatives; state key is the Debug rendering; terminal size is not in the quantifier (degenerate sizes are not rendered); of rip-cli only the `rip run` renderers are driven (not tasks watch / threads).",
            "DESIGN.md §3 C20"),
}

NOT_YET = {
}

ALL = [f"C{n:02d}" for n in range(1, 21)]

def main():
    checks = []
    for pid in ALL:
        if pid not in CHECKS:
            continue
        engine, cat, tech, text, note, ref = CHECKS[pid]
        checks.append({
            "property_id": pid,
            "quick_cmd": f"./vcheck {pid} --tier quick",
            "thorough_cmd": f"./vcheck {pid} --tier thorough",
            "evidence_file": f"/verif/evidence/{pid}.json",
            "replay_cmd_template": f"./vcheck {pid} --replay {{path}}",
            "engine": engine,
            "level_claimed": {"category": cat, "text": text, "design_ref": ref},
            "level_note": note,
            "technique": tech,
        })
    na = []
    for pid in ALL:
        if pid in CHECKS:
            continue
        na.append({"property_id": pid,
                   "reason": NOT_YET.get(pid, "check not built yet in this round (planned; see DESIGN.md §3) — not a claim that the technique cannot apply")})
    manifest = {
        "version": 1,
        "setup_cmd": "cd /verif && VCHECK_BUILD_ONLY=1 ./tools/setup.sh",
        "hooks": {
            "guard": "--cfg rip_verif",
            "enable": "RUSTFLAGS='--cfg rip_verif' (set by ./vcheck and harness/.cargo/config.toml); harness crate /verif/harness has path dependencies on /repo/crates/*, so every check rebuilds from /repo's working tree",
            "baseline_off_cmd": "cd /repo && cargo nextest run --workspace --no-fail-fast --tool-config-file pb:/w/lib/nextest.toml --profile pb --test-threads 8 --offline",
            "source_commits": [c.split()[0] for c in HOOK_COMMITS],
            "add_only": True,
        },
        "engines": [
            {"name": "S", "path": "/verif/harness/src/sched.rs", "serves_properties": sorted(k for k, v in CHECKS.items() if v[0] == "S"),
             "kind_free_text": "stateless schedule explorer: cooperative token-passing scheduler over OS threads running the real code, scheduling points at the cfg(rip_verif) hooks (incl. lock acquisitions, predicates on the real locks), DFS with preemption bounding, deterministic replay, crash and I/O-error injection; for C18 and the reader-vs-appender harness race.rs (C04, C08, C09, C10) every file-system call of the code under test is a scheduling point (callback from the LD_PRELOAD shim harness/shim/crashshim.c)"},
            {"name": "K", "path": "/verif/harness/src/c05.rs + /verif/harness/shim/crashshim.c", "serves_properties": ["C05"],
             "kind_free_text": "crash-point enumerator: LD_PRELOAD shim counting mutating fs calls on store paths, _exit before call k for every k, recovery oracle in the parent"},
            {"name": "P", "path": "/verif/harness/src/provx.rs", "serves_properties": sorted(k for k, v in CHECKS.items() if v[0] == "P"),
             "kind_free_text": "scripted in-process HTTP provider (axum on 127.0.0.1:0, per-run scripts of SSE chunks / errors / aborts, records received requests) + the production router driven with tower oneshot on a real runtime"},
            {"name": "H-bfs", "path": "/verif/harness/src", "serves_properties": ["C20"],
             "kind_free_text": "bounded exhaustive sequence/input enumeration over the real code (BFS with state keys where futures coincide)"},
            {"name": "H-histories", "path": "/verif/harness/src", "serves_properties": sorted(k for k, v in CHECKS.items() if v[0] == "H-histories"),
             "kind_free_text": "bounded exhaustive enumeration of operation histories over the real API, re-executed from scratch per history, with reference models / differential oracles"},
            {"name": "H-inputs", "path": "/verif/harness/src", "serves_properties": sorted(k for k, v in CHECKS.items() if v[0] == "H-inputs"),
             "kind_free_text": "bounded exhaustive enumeration of an input grammar against a reference model / differential oracle on the real code"},
        ],
        "checks": checks,
        "not_applicable": na,
        "notes": "All checks are bounded exhaustive explorations of the real Rust code (no sampling, no solver). Exit 2 = machinery failure, never a verdict. Known findings: /verif/known_findings.json (signature = exact / prefix, signature_regex = regular expression over the whole signature; fixed entries suppress nothing). --replay re-executes exactly the saved case for C01, C02, C04, C05, C06, C11-C15, C18, C20 and re-runs the (seconds-long) enumeration judging only the saved case for C03, C07-C10, C16, C17, C19. Seeded changes used to test the checks: /verif/seeded (DESIGN.md section 8; tools/seed_regression.sh re-runs them).",
    }
    with open("/verif/MANIFEST.json", "w") as f:
        json.dump(manifest, f, indent=1)
        f.write("\n")

if __name__ == "__main__":
    main()
