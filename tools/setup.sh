#!/bin/bash
# Builds the harness (offline) against /repo's working tree with hooks on.
set -eu
cd /verif
export CARGO_NET_OFFLINE=true
export CARGO_TARGET_DIR=/verif/target
export RUSTFLAGS="--cfg rip_verif"
mkdir -p /verif/target /verif/evidence
(cd /verif/harness && cargo build --offline 2>&1 | tail -3)
# C20 drives rip-cli's headless renderers through the real binary (/verif/target/debug/rip)
(cd /repo && cargo build --offline -p rip-cli 2>&1 | tail -1)
if [ -f /verif/harness/shim/crashshim.c ]; then
  gcc -O1 -shared -fPIC -o /verif/target/crashshim.so.new /verif/harness/shim/crashshim.c -ldl
  mv -f /verif/target/crashshim.so.new /verif/target/crashshim.so
fi
echo "setup ok"
