#!/bin/bash
# confirm_seed.sh <ID> <seed dir> <install cmds> <demo cmd>
#   Confirms in the scratch worktree /tmp/wt/confirm that a seeded change (1) applies and builds,
#   (2) its demonstration passes without and fails with the change, (3) the pinned suite still passes.
# <install cmds> is a shell snippet run with R=/tmp/wt/confirm and S=<seed dir>; <demo cmd> runs in $R.
set -u
ID="$1"; S="$2"; INSTALL="$3"; DEMO="$4"
R=/tmp/wt/confirm
LOG=/tmp/confirm_$ID.log
: > $LOG
if [ ! -d $R ]; then git -C /repo worktree add --detach $R HEAD >>$LOG 2>&1; cp -a --reflink=auto /repo/target $R/target; fi
cd $R
git checkout -q --detach "$(git -C /repo rev-parse HEAD)" >>$LOG 2>&1
git checkout -- . ; git clean -fdq -- crates
export R S
echo "== install demo" >>$LOG
bash -c "$INSTALL" >>$LOG 2>&1
echo "== demo WITHOUT patch" >>$LOG
( cd $R && timeout 1200 bash -c "$DEMO" ) >>$LOG 2>&1; RC_WITHOUT=$?
echo "== apply patch" >>$LOG
git apply "$S/patch.diff" >>$LOG 2>&1 || git apply --3way "$S/patch.diff" >>$LOG 2>&1; RC_APPLY=$?
echo "== demo WITH patch" >>$LOG
( cd $R && timeout 1200 bash -c "$DEMO" ) >>$LOG 2>&1; RC_WITH=$?
echo "== suite with patch (demo removed)" >>$LOG
git stash -q >>$LOG 2>&1; git clean -fdq -- crates; git stash pop -q >>$LOG 2>&1
# keep only the production patch: re-create from scratch
git checkout -- . ; git clean -fdq -- crates; git apply "$S/patch.diff" >>$LOG 2>&1 || git apply --3way "$S/patch.diff" >>$LOG 2>&1
/tmp/seedtools/baseline.sh $R > /tmp/confirm_${ID}_suite.out 2>&1; RC_SUITE=$?
cat /tmp/confirm_${ID}_suite.out >>$LOG
git checkout -- . ; git clean -fdq -- crates
SUITE_LINE=$(grep -m1 "^passed=" /tmp/confirm_${ID}_suite.out)
echo "CONFIRM $ID apply=$RC_APPLY demo_without_rc=$RC_WITHOUT demo_with_rc=$RC_WITH suite_rc=$RC_SUITE suite='$SUITE_LINE'" | tee -a $LOG > /tmp/confirm_$ID.result
