#!/bin/bash
# confirm_seed.sh <ID> <seed dir> <install cmds> <demo cmd> [patch file]
#   Confirms in the scratch worktree /tmp/wt/confirm that a seeded change (1) applies and builds,
#   (2) its demonstration passes without and fails with the change, (3) the pinned suite still passes.
# <install cmds> is a shell snippet run with R=/tmp/wt/confirm and S=<seed dir>; <demo cmd> runs in $R.
set -u
ID="$1"; S="$2"; INSTALL="$3"; DEMO="$4"; PATCH="${5:-$S/patch.diff}"
R=/tmp/wt/confirm
LOG=/tmp/confirm_$ID.log
: > $LOG
if [ ! -d $R ]; then git -C /repo worktree add --detach $R HEAD >>$LOG 2>&1; cp -a --reflink=auto /repo/target $R/target; fi
cd $R
clean() { git reset -q --hard; git clean -fdq -- crates; }
clean
git checkout -q --detach "$(git -C /repo rev-parse HEAD)" >>$LOG 2>&1
clean
export R S
echo "== install demo" >>$LOG
bash -c "$INSTALL" >>$LOG 2>&1
echo "== demo WITHOUT patch" >>$LOG
( cd $R && timeout 1200 bash -c "$DEMO" ) > /tmp/confirm_${ID}_without.out 2>&1; RC_WITHOUT=$?
cat /tmp/confirm_${ID}_without.out >>$LOG
echo "== apply patch" >>$LOG
if git apply --check "$PATCH" 2>>$LOG; then git apply "$PATCH" >>$LOG 2>&1; RC_APPLY=0; else RC_APPLY=1; fi
echo "== demo WITH patch" >>$LOG
( cd $R && timeout 1200 bash -c "$DEMO" ) > /tmp/confirm_${ID}_with.out 2>&1; RC_WITH=$?
cat /tmp/confirm_${ID}_with.out >>$LOG
BUILD_WITHOUT=ok; grep -q "could not compile" /tmp/confirm_${ID}_without.out && BUILD_WITHOUT=FAIL
BUILD_WITH=ok; grep -q "could not compile" /tmp/confirm_${ID}_with.out && BUILD_WITH=FAIL
echo "== suite with patch (demo removed)" >>$LOG
clean
if [ $RC_APPLY = 0 ]; then git apply "$PATCH" >>$LOG 2>&1; fi
/tmp/seedtools/baseline.sh $R > /tmp/confirm_${ID}_suite.out 2>&1; RC_SUITE=$?
cat /tmp/confirm_${ID}_suite.out >>$LOG
clean
SUITE_LINE=$(grep -m1 "^passed=" /tmp/confirm_${ID}_suite.out)
MISSING=$(grep MISSING /tmp/confirm_${ID}_suite.out | tr '\n' ' ')
echo "CONFIRM $ID head=$(git -C /repo rev-parse --short HEAD) apply_clean=$RC_APPLY build_without=$BUILD_WITHOUT build_with=$BUILD_WITH demo_without_rc=$RC_WITHOUT demo_with_rc=$RC_WITH suite_rc=$RC_SUITE suite='$SUITE_LINE' missing='$MISSING'" | tee -a $LOG > /tmp/confirm_$ID.result
