#!/usr/bin/env python3
"""Prints, per check, the headline numbers of its last evidence file (for the DESIGN.md table)."""
import json, glob
for f in sorted(glob.glob('/verif/evidence/C*.json')):
    d = json.load(open(f))
    cov = d.get('coverage', {})
    print(d.get('property_id') or f[-8:-5], d.get('tier'), 'eval', cov.get('evaluations'), 'distinct', cov.get('distinct_cases') or cov.get('distinct'),
          'states', cov.get('states'), 'trans', cov.get('transitions'), 'wall', cov.get('wall_s'), 'exh', cov.get('exhaustive'),
          'viol', d.get('violations_count', d.get('violations')), 'kf', d.get('known_findings'))
