#!/usr/bin/env python3
"""Round-5 prompt: TWO further seeded changes per property. The earlier rounds' one-line summaries
(written by the earlier sub-agents) are listed so that they are not repeated. Nothing else from
/verif enters the prompt: the summaries say what the earlier changes were, not what detected them."""
import json, sys, glob, os
pid = sys.argv[1]
wt = f"/tmp/wt/{pid.lower()}r5"
out = f"/tmp/seeded5/{pid}"
p = next(json.loads(l) for l in open('/verif/properties.jsonl') if json.loads(l)['id'] == pid)
mechs = "\n".join(f"  - {m['name']} ({m['where']})" for m in p['anchors'].get('mechanism', []))
state = "\n".join(f"  - {m['name']}: {m['meaning']} ({m['where']})" for m in p['anchors'].get('state', []))
prev = []
for d in sorted(glob.glob(f"/verif/seeded/{pid}*")):
    try:
        m = json.load(open(d + "/meta.json"))
        prev.append("  - " + (m.get("summary") or "").replace("\n", " ")[:400])
    except Exception:
        pass
prev = "\n".join(prev)
print(f"""You are helping evaluate a verification framework for the Rust project numman-ali/rip (an HTTP/SSE harness for coding agents: append-only JSONL event log, sidecar caches, sessions, tasks, workspace tools). Your job is to create TWO independent realistic *seeded defects* (call them `a`, `b`): each a small change to rip's production source that BREAKS the semantic property below while the project still compiles and its existing test suite still passes. A separate party will later run their (hidden) checks against each change to see whether they detect it, so your work must be independent: work ONLY inside your own scratch git worktree `{wt}` (a checkout of the project with a warm `target/` dir). Do NOT read or touch `/verif` or `/repo` at all, nor any other directory under /tmp/wt or /tmp/seeded5. Everything is offline (use `--offline` with cargo).

PROPERTY {p['id']} — {p['title']}
Statement: {p['statement']}
Quantified over: {p['quantifier']['text']}
Relevant files (hints): {', '.join(p['anchors']['files'])}
State involved:
{state}
Mechanisms that make it hold (line numbers may have drifted):
{mechs}

Earlier rounds already produced these changes for this property - do NOT repeat them or close variants of them (a different function or a different failure mode is required):
{prev}

The two changes must differ from each other in mechanism AND in what they need in order to manifest. Look for places nobody looks at first: error and refusal paths, second and third call sites of a helper, defaults and clamps of optional parameters, less common frame kinds, interactions between two features (e.g. a feature of this property with restart, with cancellation, with a second thread/session/task, with a concurrent request), boundary values of constants, code that only runs on the second use of something, two cooperating sites that each look fine alone.

REQUIREMENTS FOR EACH CHANGE
1. It edits production code only (files under `crates/*/src`, not tests, not docs). Keep it small (typically 1-15 lines, at most two cooperating sites). It must look like a plausible mistake or refactoring slip a maintainer could make - not sabotage. Lines guarded by `#[cfg(rip_verif)]` are inert instrumentation: leave them exactly as they are and do not rely on them.
2. It must still compile (`cargo build --workspace --offline`) and the existing test suite must still pass with that change alone applied. Run `/tmp/seedtools/baseline.sh {wt}` (takes 6-10 min; it must print `baseline_missing=0`). Note: ~10 tests fail even on the unmodified tree (7 `pty_*` tests that time out after 300 s, 3 `*unreadable*` tests) - ignore those. `rip-workspace::tests::list_checkpoints_sorted` and `ripd tasks::tests::pipes_*` are timing-flaky on their own under load; if only those are missing, rerun just them. If the script prints BUILD-OR-RUN-FAILED the tree does not build. Remove your demonstration file from the tree before running the suite.
3. The defect must need something SPECIFIC to manifest - a particular interleaving, a crash or fault at a particular point, a multi-step sequence of operations, an unusual input, a particular configuration. It must NOT be something that ordinary use (or the existing tests) would expose at once.
4. Provide a demonstration: a Rust test or a small program/script that FAILS with your change applied and PASSES on the unmodified tree. Actually run it both ways and record the outputs.

Work on one change at a time: make the change, build, run the suite, run the demo both ways, save `git diff` as the patch, then `git checkout -- .` (and remove the demo file) before starting the next.

DELIVERABLES (write them to `{out}/a/`, `{out}/b/`):
- `patch.diff`: output of `git -C {wt} diff -- crates/` containing ONLY the production-code change. It must apply cleanly with `git apply` to the original checkout.
- the demonstration file(s) plus `RUN.md` saying exactly where to copy them and the exact command to run them.
- `meta.json`: {{"property": "{p['id']}", "summary": "<one sentence: what the change does>", "mechanism_attacked": "<which mechanism>", "needs_to_manifest": "<the specific interleaving / crash point / sequence / input / config>", "files_changed": [...], "suite_result": "<the baseline.sh summary line you observed>", "demo_with_patch": "<fail output summary>", "demo_without_patch": "<pass output summary>"}}

When finished, leave the worktree clean (`git -C {wt} status` shows nothing), and reply with a short summary of the two changes. Do not leave background processes running.""")
